#!/usr/bin/env python3
"""Round 8+ prompt for an independent seeding agent: property text only, three changes,
one per manifestation kind. usage: seed_prompt8.py <PID> <worktree> <outdir>"""
import json, sys
pid = sys.argv[1]; wt = sys.argv[2]; out = sys.argv[3]; variant = sys.argv[4] if len(sys.argv) > 4 else ""
p = next(json.loads(l) for l in open('/verif/properties.jsonl') if json.loads(l)['id'] == pid)
EXTRA = ("At least TWO of the three changes must be made in source files OTHER than the RELEVANT FILES listed above -- helper modules that those files call into (encoding/decoding helpers, utility modules, crypto wrappers, shared traits, other protocol layers) -- or in functions of the listed files that none of the obvious entry points reach directly, while the observable violation is still a violation of THIS property through its public API. " if variant == "offpath" else "")
print(f"""You are helping to test a verification effort by writing realistic BUGS. You work ONLY inside the git worktree {wt} (a checkout of the Rust library NLnetLabs/rpki-rs: parsing, validating and creating RPKI objects, plus RTR, RRDP and CA protocols). Do not read or write anything under /verif or /repo, and do not look at other /tmp/seed* directories. Use `CARGO_TARGET_DIR={wt}/target` and `--offline` for every cargo command (no network exists). Other builds run on this machine at the same time, so builds may be slow; be patient and do not use more than `-j 4`.

Here is a semantic property the library is supposed to satisfy:

TITLE: {p['title']}
STATEMENT: {p['statement']}
QUANTIFIED OVER: {p['quantifier']['text']}
RELEVANT FILES: {', '.join(p['anchors']['files'])}

Your task: produce THREE different, independent changes to the library source (each a separate small patch against the worktree's HEAD, touching src/ only, not tests) such that each change
  (a) makes the library VIOLATE the property above (a real semantic violation of the statement, observable through the public API),
  (b) still compiles (all features: `cargo build --offline --all-features`) and still passes the existing tests: `cargo test --offline` (the pinned default-feature suite, 35 tests) AND the feature-gated unit tests `cargo test --offline --all-features --lib` (if some of those fail already WITHOUT your change, ignore exactly those),
  (c) looks like a plausible mistake or well-meant refactoring/optimisation a maintainer could make — not sabotage such as `return true`,
  (d) needs something SPECIFIC to manifest — ordinary use or the first obvious test must NOT expose it.
The three changes must use three different manifestation kinds, in different functions:
  1. one that needs a particular MULTI-STEP SEQUENCE of operations, or state left behind by an earlier call / earlier object / earlier connection (caches, reused buffers, cursors, lazily built tables, an object used twice, a mutator followed by a query), or — for asynchronous code — a particular interleaving, fragmentation, cancellation or fault (short read/write, error, close) at a particular point;
  2. one that needs an UNUSUAL INPUT: a rare but legal encoding or spelling, a value at a representation boundary (length, count or magnitude where the code switches path, width or algorithm), a rare combination of optional parts;
  3. one made of TWO COOPERATING SITES that each look fine alone (e.g. a check moved from one function to another that not every route passes through; a normalisation in a constructor that a comparison elsewhere silently relied on; an invariant established in one place and relaxed in another), or an interaction of two features each of which works alone.
{EXTRA}Prefer code paths that are less obviously central (sibling entry points, by-value/by-reference variants, iterators, Display/FromStr/serde forms, mutators, convenience wrappers, error paths), as long as the violation is of THIS property.

For each change also write a DEMONSTRATION: a small Rust test file (to be placed under {wt}/tests/, using only the public API) that FAILS with the change applied and PASSES on the unchanged HEAD when run with `cargo test --offline --all-features --test <name>`. Verify both directions yourself.

Deliver, under {out}/ (create it): change1.diff, change2.diff, change3.diff (`git diff` of src/ only, each against the unchanged HEAD, each applying on its own with `git apply`), demo1.rs, demo2.rs, demo3.rs (the demonstrations), and notes.md saying for each change: a one-line summary `NEEDS<n>: ...` of exactly what is needed for it to manifest, what it breaks, which commands you ran and their results (build, both test commands, demo failing with / passing without). Leave the worktree clean (`git checkout -- . && git clean -fdq -e target`) when done. Your final message should summarise notes.md (including the three NEEDS lines).""")
