#!/usr/bin/env python3
"""Validate MANIFEST.json and evidence files against the schemas."""
import json, sys, glob
try:
    import jsonschema
except ImportError:
    sys.exit("run with python3-vt (jsonschema needed)")
ok = True
def val(path, schema):
    global ok
    try:
        jsonschema.validate(json.load(open(path)), json.load(open(schema)))
        print("ok  ", path)
    except Exception as e:
        ok = False
        print("FAIL", path, str(e)[:400])
val('/verif/MANIFEST.json', '/root/.vp/MANIFEST.schema.json')
for p in sorted(glob.glob('/verif/evidence/*.json')):
    val(p, '/root/.vp/EVIDENCE.schema.json')
sys.exit(0 if ok else 1)
