#!/bin/bash
# usage: tools/apply_fix.sh <CNN-slug> "<short what failed>"
# Applies fixes/<name>.patch to /repo as one unguarded "fix:" commit (after the
# pinned 35-test suite passes) and records it in known_findings.txt.
set -eu
name="$1"; what="$2"
V=/verif
id="${name%%-*}"
cd /repo
git diff --quiet || { echo "/repo has uncommitted changes"; exit 1; }
git apply --check "$V/fixes/$name.patch"
git apply "$V/fixes/$name.patch"
if ! out="$(cargo test --offline 2>&1)"; then echo "$out" | tail -30; git checkout -- .; echo "pinned suite failed; reverted"; exit 1; fi
echo "$out" | grep -E "^test result" | head -3
# message: first sentence as subject (max ~72 chars is not enforced), rest as body
python3 - "$V/fixes/$name.msg" > /tmp/fixmsg.$$ <<'PY'
import sys, re, textwrap
t = open(sys.argv[1]).read().strip()
if '\n\n' in t:
    subj, body = t.split('\n\n', 1)
    subj = ' '.join(subj.split())
else:
    m = re.match(r'(.*?[.!?])\s+(.*)', t, re.S)
    subj, body = (m.group(1), m.group(2)) if m else (t, '')
    subj = ' '.join(subj.split())
if not subj.startswith('fix:'): subj = 'fix: ' + subj
subj = subj.rstrip('.')
body = '\n\n'.join(textwrap.fill(' '.join(p.split()), 72) for p in body.split('\n\n') if p.strip())
print(subj + ('\n\n' + body if body else ''))
PY
git add -A
git commit -q -F /tmp/fixmsg.$$
rm -f /tmp/fixmsg.$$
h="$(git rev-parse --short HEAD)"
echo "fixed: property=$id $h $what" >> "$V/known_findings.txt"
echo "committed $h: $(git log -1 --format=%s | cut -c1-100)"
