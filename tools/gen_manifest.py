#!/usr/bin/env python3
"""Generates /verif/MANIFEST.json from the table below.

A property is claimed only when its explorer exists (harness/src/bin/<id>.rs)
and is listed in BUILT; everything else is listed under not_applicable with
the reason.
"""
import json, os

V = '/verif'

# id -> (category, technique, text, note)
P = {
 'C01': ('exploration',
   'exhaustive small-scope enumeration of certificate chains (relation matrix x resource subsets) + every single-bit tamper of valid certificates, against a bitmask reference model',
   'Every chain TA->CA->{CA,EE,router} over the stated finite domains (resource subsets of an atom universe per family, inherit/missing/blocks, overclaim mode, 5 evaluation instants, AKI/SKI/signing-key relations) is built, validated by the real code and compared with a bitmask reference model; every single-bit flip of valid certificates must be rejected. Exhaustive within the stated bounds, nothing sampled.',
   'aws-lc signature verification is trusted; keys are a fixed pool; chains deeper than 3 and values outside the atom universes are not covered.'),
 'C02': ('exploration',
   'exhaustive enumeration of independently encoded CMS signed objects (condition vector x attribute order/size x content) + every single-bit tamper, against the acceptance predicate',
   'Signed objects are produced by an independent RFC 5652/6488 encoder (not the library builder); every combination of the acceptance conditions (single and pairwise violations), all attribute orders, signed-attribute sizes across the 128/256 boundaries, and ROA/ASPA coverage relations over an atom universe are run through the real validator and compared with the condition-vector model; all single-bit flips of valid objects must be rejected.',
   'aws-lc is trusted; the independent encoder is part of the trusted base; BER-only wrappers are covered by C04 only.'),
 'C03': ('model_checking',
   'explicit-state BFS to fixpoint over resource-set representations under the real set operations, seeded by all block sequences up to length 4 over a boundary domain; bitmask reference model on every state and transition',
   'All block sequences (<= bound) over a boundary-dense end-point domain are collected through every public construction path; the closure of the resulting representations under union/intersection/difference/verify_issued/limit application is explored breadth-first to a fixpoint with the real code executing every transition; every state is checked for canonical form and every transition and query against a bitmask model over the induced atoms.',
   'Only sets whose end points lie in the domain; sequences longer than the bound are not covered.'),
 'C04': ('fault_enumeration',
   'deviation-bounded exhaustive mutation of valid objects (every TLV-node operator at every node, every truncation, all short strings) into every decoder followed by a full accessor sweep',
   'For every seed object of every decodable type, every single deviation from a finite operator menu at every TLV node / byte position (and stated pairs in the thorough tier) plus all byte strings up to 2-3 octets are fed to each entry point in each mode; a successful decode is followed by every accessor; oracle: no panic/abort, bounded reads.',
   'Inputs further than the deviation bound from every seed are out of reach of exhaustive enumeration.'),
 'C05': ('exploration',
   'exhaustive enumeration of builder inputs over per-field boundary domains with a differential oracle (built vs decoded twin, byte-identical re-encoding)',
   'Every builder is driven with all combinations of small per-field domains; decode(enc(x)) must succeed and validate, re-encode byte-identically, and the built value and its decoded twin must agree on every accessor.',
   'Field values outside the stated domains are not covered; aws-lc trusted.'),
 'C06': ('model_checking',
   'explicit-state BFS over histories of source updates and client steps driving the real RTR Client against the real Server connection under a deterministic single-thread scheduler; reference = the recorded payload set per (session, serial)',
   'States are event histories (rebuilt by re-execution on the real client and server joined by an in-memory duplex); after every completed client step the data the target holds, the client state and timing are compared with the source specification; all histories up to the depth bound from all initial client states and version pairs.',
   'tokio runtime primitives trusted; payload universe is a fixed small set; depth bound stated in evidence.'),
 'C07': ('fault_enumeration',
   'exhaustive round trip of PDUs over boundary field domains through every reader under every fragmentation (<=3 chunks), plus every truncation point and header-field corruption of encoded PDU sequences, under a scripted socket with livelock/hang detection',
   'Every payload/control PDU over the field domains is written by the library and read back through each reader in every fragmentation into at most 3 chunks; every truncation point and each header corruption must end in an error after a bounded number of bytes, with no panic, hang or spin (detected by the scripted socket poll counter).',
   'Field values outside the domains are not covered.'),
 'C08': ('model_checking',
   'stateless exhaustive schedule exploration of the real server connection: every fragmentation (bounded cut points) x every placement of notify events, deviation bound iterated, differential against the unfragmented run',
   'The real Server::run is driven on a current-thread paused-clock runtime with a scripted socket; for every client byte stream of the alphabet, every fragmentation with up to the bound of cut points combined with notify events at every position is executed and the response stream compared with the reference run (same bytes in one piece, no notifies) after removing Serial Notify PDUs, which must sit on PDU boundaries.',
   'Single-threaded scheduler only; tokio broadcast/spawn trusted; write back-pressure only at bound 1.'),
 'C09': ('fault_enumeration',
   'exhaustive round trip of RRDP file values over boundary domains + endless hostile generators at every grammar position with a counting reader + all serial multisets for the delta-chain check against a reference model',
   'Every notification/snapshot/delta value over the field domains is written and parsed back; hostile unbounded streams at every grammar position must be rejected within the configured limits as measured by a counting reader; sort_and_verify_deltas and origin matching are compared with reference models over all small multisets.',
   'quick-xml internals trusted for well-formedness; limits measured in bytes pulled, not wall-clock.'),
 'C10': ('exploration',
   'exhaustive enumeration of CA-protocol CMS messages (library-created and independently encoded) over the condition vector, times, keys, CRL contents and extra signed attributes + every single-bit tamper',
   'Messages from the library and from an independent encoder (extra signed attributes crossing the 128/256 size boundaries, all attribute orders) are validated for every combination of conditions, evaluation instants and keys and compared with the acceptance predicate; all single-bit flips must be rejected.',
   'aws-lc trusted; independent encoder in the trusted base.'),
 'C11': ('exploration',
   'exhaustive enumeration of protocol messages over field alphabets (including XML-special characters) with round-trip and independent well-formedness oracle; byte-level deviation sweep of the parsers',
   'Every constructor of the RFC 6492/8181/8183 messages is driven with all combinations of the field alphabets; the written XML must be well-formed according to an independent parser and parse back to an equal message; every single-byte deviation of one document per type and all short strings must not panic the parsers.',
   'Non-ASCII field values are outside protocol-valid; the independent well-formedness checker is trusted.'),
 'C12': ('exploration',
   'exhaustive enumeration of all URI strings over a 7-symbol alphabet up to a length bound, all pairs/triples of accepted URIs and join arguments, against a string-level reference model',
   'All strings scheme-variant ++ tail over the alphabet up to the bound are offered to both parsers; acceptance, accessors, equality/hash, join/parent/relative_to/is_parent_of laws are checked on all accepted URIs, pairs and (smaller bound) triples.',
   'Characters outside the alphabet are covered only by a per-character sweep; longer tails not covered.'),
 'C13': ('exploration',
   'exhaustive enumeration of prefixes (boundary addresses x every length 0-255), all pairs and triples of a boundary-dense prefix domain, all AS-number sequences up to length 4, against integer-range and BTreeSet reference models',
   'Constructors over every length, text round trips, covers/cmp/eq/hash laws on all pairs and triples, route-origin ordering, and SmallAsnSet construction and operations on all sequences/pairs are compared with reference models.',
   'Addresses outside the boundary domain are not covered.'),
 'C14': ('exploration',
   'exhaustive enumeration of independently encoded manifest contents with all file names up to length 6 over a 7-symbol alphabet (plus hostile characters), hash shapes, counts and times, against an RFC 9286 matcher',
   'Manifest eContent from an independent DER encoder with every file name over the alphabet, hash BIT STRING shapes, entry counts and time pairs is decoded by the real code; accepted names must match the RFC 9286 pattern, iter_uris must stay inside the base, len must equal the iterator count, thisUpdate <= nextUpdate, hash verification must equal SHA-256 equality.',
   'Names longer than the bound only at representative lengths.'),
 'C15': ('exploration',
   'exhaustive enumeration of filter lists (all present/absent criteria combinations, lists up to length 2 per kind) x payload items, and of SLURM files for the JSON round trip, against the RFC 8416 predicate',
   'All filter lists over the criteria domains against payload items of all three kinds and their near-misses; dropped must equal the reference predicate; all small files round-trip through JSON; assertions yield exactly their fields.',
   'serde_json trusted.'),
 'C16': ('exploration',
   'exhaustive enumeration of all 2^32 serial differences from several bases, all increments below 2^31 and all 2^32 wire values, against the RFC 1982 integer definition',
   'Complete enumeration of the difference space per base (both argument orders), of all legal increments and of all wire values; nothing is sampled.',
   'Bases are a fixed list including both ends; shift invariance is checked on a boundary domain.'),
 'C17': ('exploration',
   'exhaustive enumeration of every calendar day of years 1-9999 x boundary seconds (encode/decode), all single/pair symbol substitutions of valid time strings, all validity triples and serial boundary values, against an independent calendar model',
   'Every calendar day with boundary seconds is encoded and decoded back; the decoder is offered every single and pair substitution over a digit-and-sign alphabet and must accept exactly the strings the reference grammar accepts; validity windows and serial numbers are compared with integer models.',
   'Seconds other than the boundary seconds on ordinary days are not enumerated.'),
}

# Sequence / history spaces added in rounds 7 and 8 (DESIGN.md section 4a): appended to technique and text.
SEQ = {
 'C01': 'depth-3 chains with four leaf routes validated under the ResourceCert an earlier call returned; sequences on a fresh OS thread after every exit path (history.independent); re-execution under other TZ settings',
 'C02': 'every field the acceptance predicate does not mention x every violation (ignored.fields), validity x signing time x instant interactions, 14 entry-point routes x every violation, history.independent, environment.tz',
 'C03': 'explicit-state exploration of every builder / incremental constructor over all call sequences <= 3 (builder.sequences), ownership of shared chains, handed-out iterators, Display parameters, history.independent',
 'C04': 'RTA validation call-order trees over inherit/blocks matrices, all accessor call sequences <= 3 on every decoded seed with interleaved iterators, per-thread CPU-time growth of the decode entry points on crafted n/4n/16n objects',
 'C05': 'builder operation sequences, list input forms and setter sequences, re-issue from decoded parts, history.independent, environment (TZ, slow signer across a second boundary)',
 'C06': 'serial-distance sequences over three judged steps, two clients on one server, failure injection at every target call, step futures abandoned at every Pending',
 'C07': 'the server connection and the real client as readers (every fragmentation x notify placements; real client against real server with every message cut), every construction form of every payload value under ==/Hash/Ord/wire, history.independent',
 'C08': 'every header field domain of malformed queries x 13 routes into the connection against an octet-level RFC 8210 model, second participants on one NotifySender, the source moving at every point of a blocked response',
 'C09': 'history.independent (writers failing after every k octets), handed-out ObjectReader call orders, shared-buffer ownership, TZ, Display parameters',
 'C10': 'explicit-state exploration of the signer (create/destroy/sign/create-message sequences <= 4 on the real SoftSigner against a handle->key model), predecessors failing at every stage, validity x CRL x signing time x instant interactions, environment',
 'C11': 'history.independent (sinks failing after every k octets, documents cut at every k), 16 sink kinds, handed-out and shared-value sequences, TZ, Display parameters',
 'C12': 'every octet at every position, history on recycled buffers, ownership forms of the shared Bytes, Display parameters',
 'C13': 'set-size scale, Arbitrary-made values, handed-out iterators, history.independent, Display parameters',
 'C14': 'serde route for rejected encodings, base-URI dimension, handed-out iterators, ownership, history.independent, environment',
 'C15': 'explicit-state exploration of operation sequences <= 3 on one SlurmFile object against a freshly built twin (object.history), JSON member orders and the Value route, history.independent',
 'C16': 'State::inc for all 2^32 serials, every sequence of 2-3 serial-carrying PDUs in one reader through every read route',
 'C17': 'every valid content under the other time tag, value routes of Time, date-memo and thread histories, TZ and wall-clock environment',
}
for k, v in SEQ.items():
    cat, tech, text, note = P[k]
    P[k] = (cat, tech + '; plus exhaustive bounded sequence spaces: ' + v, text + ' In addition (rounds 7-8): ' + v + '. All exhaustive within the stated bounds; see DESIGN.md section 4a.', note)

# Route / scale / relation spaces added in rounds 9-11 (DESIGN.md section 4a): appended likewise.
R9 = {
 'C03': 'grid domains m*2^k and m*2^k-1 for every k the representation singles out (40 domains through all layers incl. closure to fixpoint); what a refusal names ({dom}.refusal)',
 'C04': 'named accessors judged for runaway against same-size controls with crafted key families for every keyed collection (time.growth)',
 'C05': '384 time values obtained by every public route x 65 builder field slots (build.time_value_routes)',
 'C08': 'everything the source reports moving at every point of the schedule (participants.reports); single PDUs around 2^13..2^17 in data.sizes; reserved header fields must be ignored',
 'C10': 'messages assembled from parts with independent issuers, all ordered pairs on fresh threads (history.parts); fold-colliding tampers after a genuine success (history.tamper); extra attribute types by their relation to the mandatory OIDs (attrs.oid_relation)',
 'C01': 'every relation between consecutive blocks of a foreign-written resource list, re-signed (resigned.block_lists); issuers holding 1..129 (1025) blocks x every single-range claim over two strides through verify_issued and through certificates (resources.scale); the number of distinct verification keys a thread has used, 0..=130 and around 256/512 (history.key_scale); subject key in {own, issuer\'s, trust anchor\'s} x AKI removed',
 'C02': 'block count x position of the queried item inside its block for AS, IPv4 and IPv6 (blocks.position); every compared identifier in every length around the expected one, primitive and constructed (identifier.spelling); prefix count x relation x layout x place x order for ROAs (roa.count.relation); fold-colliding tampers after a genuine success on one thread (history.fold_collision)',
 'C06': '512 source items x 12 public construction routes of their component values, client data compared by ==, Hash, Ord and set membership both ways (rtr.construction_routes); source events that change what is reported without moving the state, connection reuse and reconnect (rtr.unmoved_state)',
 'C07': 'header acquisition route (Header::read, as_mut fill, Header::new, the header try_read hands back) as a dimension of every dispatching reader in the round-trip, truncation and header-corruption spaces; recurring header fields of one client reply as independent dimensions (client.fields); variable parts across every power of two up to 2^17 x cut windows (fault.truncation.scale)',
 'C09': '28 sink behaviours (short, alternating, interrupted, buffered, failing once / for good after every n octets) x every file value (sinks.*); 14 URI construction routes x case spellings (routes.uri_constructors); generated valid documents whose runs exceed a per-element limit in total while no element does (limits.long_valid_documents)',
 'C11': 'every resource set a message carries through 17-19 public construction routes from every block list <= 3 (4) over both ends of the number space, all set pairs x 7 operations, round trip judged against the mathematically expected set (resources.routes.*, prov.resource_routes); what a process does first: 217 first operations in child processes (history.process)',
 'C12': '32 structured authorities (default ports, trailing dot, brackets, escapes, userinfo shapes) x schemes x tails, all ordered pairs and joins (authority_forms); TalUri construction routes (wrappers.taluri)',
 'C13': 'every public route that yields a value of the property\'s types: ASPA builder/decoder, ROA, RTR PDUs, SLURM, Arbitrary (routes.*)',
 'C16': 'every cut position of 1- and 2-PDU streams through every read route (wire.fragments)',
}
for k, v in R9.items():
    cat, tech, text, note = P[k]
    P[k] = (cat, tech + '; ' + v, text + ' Rounds 9-11 added: ' + v + '.', note)

# Rounds 12-13 (DESIGN.md section 4a).
R12 = {
 'C01': 'object-level history: one decoded certificate validated repeatedly (all ordered pairs quick, triples thorough) over a menu of calls that differ in issuer resources under the same key, issuer key, instant, strictness and entry point, on the same object, on the certificate inside the returned ResourceCert and on clones, against a freshly decoded twin and the model (object.history)',
 'C02': 'object-level history with issuers of the same key and different validated resources (object.history / history.independence); fold-colliding digests under a signature made over them (history.fold_collision)',
 'C04': 'the order of a keyed list as a dimension of the time clause: CRL serial families listed descending / zigzag / in two runs / stride-permuted against the same family ascending, ladder to 262 144 entries (time.growth)',
 'C07': 'every prefix length x addresses singled out by meaning (IPv4-mapped, IPv4-compatible, NAT64, 6to4, loopback, link-local, multicast, private ...) through every reader (roundtrip.address_grid)',
 'C10': 'the number of earlier successful calls on one live signer instance, N messages in a row across the powers of two (signer.call_count)',
 'C14': 'every BER respelling of the eContent crossed with every kind of excluded file name at every list position (content.ber_spellings); every octet pair at adjacent positions and UTF-8 spellings of letter-like characters in names (names.octets)',
 'C15': 'the total size of a document around every power of two up to 32 MiB (256 MiB) reached in several ways, through every serialise x parse route (json.total_size)',
 'C17': 'every octet value at every position and every octet pair at adjacent positions of the time seeds (time.octets)',
}
for k, v in R12.items():
    cat, tech, text, note = P[k]
    P[k] = (cat, tech + '; ' + v, text + ' Rounds 12-13 added: ' + v + '.', note)
WATCHDOG = ' A library call that burns CPU without returning ends the run with a VIOLATION (runaway-call watchdog on per-thread CPU time, DESIGN.md section 2) instead of hanging the check.'
for k in list(P):
    cat, tech, text, note = P[k]
    P[k] = (cat, tech, text + WATCHDOG, note)

QUICK_ONLY = set()
BUILT = [l.strip() for l in open(os.path.join(V, 'tools', 'built.txt')) if l.strip() and not l.startswith('#')]

hooks_commits = [l.strip() for l in open(os.path.join(V, 'tools', 'hook_commits.txt')) if l.strip()] if os.path.exists(os.path.join(V, 'tools', 'hook_commits.txt')) else []

m = {
  'version': 1,
  'setup_cmd': './setup.sh',
  'hooks': {
    'guard': 'rpki_rs_verif',
    'enable': 'none needed: every check drives public API of /repo (path dependency, all features); --cfg rpki_rs_verif is reserved and currently guards nothing',
    'baseline_off_cmd': 'cd /repo && cargo test --workspace --no-fail-fast --offline',
    'source_commits': hooks_commits,
    'add_only': True,
  },
  'engines': [
    {'name': 'E1-enumerate', 'path': 'harness/src/engine/enumerate.rs', 'serves_properties': sorted(P), 'kind_free_text': 'exhaustive product/sequence enumerators, parallel drivers'},
    {'name': 'E2-explore', 'path': 'harness/src/bin/c03.rs', 'serves_properties': ['C03', 'C05', 'C06', 'C10', 'C15'], 'kind_free_text': 'explicit-state BFS with canonical hashing; states rebuilt by re-execution on the real code'},
    {'name': 'E3-sched', 'path': 'harness/src/shared/rtr_sched.rs', 'serves_properties': ['C06', 'C07', 'C08'], 'kind_free_text': 'controlled single-thread async scheduler with scripted sockets, quiescence and livelock detection'},
    {'name': 'E4-mutate', 'path': 'harness/src/shared/mutate.rs', 'serves_properties': ['C01', 'C02', 'C04', 'C09', 'C10', 'C11'], 'kind_free_text': 'deviation operators on bytes / DER TLV trees / XML'},
    {'name': 'E5-der', 'path': 'harness/src/engine/der.rs', 'serves_properties': ['C01', 'C02', 'C03', 'C04', 'C10', 'C14'], 'kind_free_text': 'independent minimal DER/CMS/X.509 encoder and TLV reader'},
  ],
  'checks': [],
  'not_applicable': [],
  'notes': 'All checks: ./check <ID> quick|thorough. Exit 0 held, 1 violation (VIOLATION line), 2 machinery error. Known findings in known_findings.txt. See DESIGN.md.',
}
for pid in sorted(P):
    cat, tech, text, note = P[pid]
    if pid in BUILT:
        c = {
          'property_id': pid,
          'quick_cmd': f'./check {pid} quick',
          'thorough_cmd': f'./check {pid} thorough',
          'evidence_file': f'/verif/evidence/{pid}.json',
          'replay_cmd_template': f'./check {pid} --replay {{path}}',
          'engine': 'harness/src/bin/%s.rs' % pid.lower(),
          'level_claimed': {'category': cat, 'text': text, 'design_ref': f'DESIGN.md section 3, {pid}'},
          'level_note': note,
          'technique': tech,
        }
        m['checks'].append(c)
    else:
        m['not_applicable'].append({'property_id': pid, 'reason': 'model checking applies (see DESIGN.md section 3) but the explorer for this property is not built yet; not claimed until it is'})
json.dump(m, open(os.path.join(V, 'MANIFEST.json'), 'w'), indent=1)
print('checks:', [c['property_id'] for c in m['checks']])
