#!/bin/bash
# Processes /var/tmp/q/ingest/queue (lines "<pid-lower> <first-store>") one after the other; ends on a line "STOP".
q=/var/tmp/q/ingest/queue; touch "$q"; done_n=0
while true; do
  total=$(wc -l < "$q")
  if [ "$done_n" -lt "$total" ]; then
    done_n=$((done_n+1)); line="$(sed -n "${done_n}p" "$q")"
    [ "$line" = "STOP" ] && break
    set -- $line
    /verif/tools/ingest_round.sh "$1" "$2" > "/var/tmp/q/ingest/$1.log" 2>&1
    echo "$1 done" >> /var/tmp/q/ingest/done
  else sleep 20; fi
done
