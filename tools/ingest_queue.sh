#!/bin/bash
# Processes $Q (default /var/tmp/q/ingest/queue; lines "<pid-lower> <first-store>") one after the other; ends on a line "STOP".
q="${Q:-/var/tmp/q/ingest/queue}"; touch "$q"; done_n=0; d="$(dirname "$q")"
while true; do
  total=$(wc -l < "$q")
  if [ "$done_n" -lt "$total" ]; then
    done_n=$((done_n+1)); line="$(sed -n "${done_n}p" "$q")"
    [ "$line" = "STOP" ] && break
    set -- $line
    /verif/tools/ingest_round.sh "$1" "$2" > "$d/$1.log" 2>&1
    echo "$1 done" >> "$d/done"
  else sleep 20; fi
done
