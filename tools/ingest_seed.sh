#!/bin/bash
# usage: tools/ingest_seed.sh <pid-lower> <n> "<needs>" [<outdir>] [<store-number>]
# Confirms an independently written breaking change in its scratch worktree
# (/tmp/seed-<pid>): demo passes without / fails with the change; pinned suite
# and all-features lib tests stay green with it; then stores it under
# /verif/seeded/<PID>-<n>/.
set -u
pid="$1"; n="$2"; needs="${3:-see notes}"
PID="$(echo "$pid" | tr a-z A-Z)"
wt="${SEED_WT_BASE:-/tmp/seed}-$pid"; out="${4:-/tmp/seed-out/$pid}"; store="${5:-$n}"
export CARGO_TARGET_DIR="$wt/target"
cd "$wt" || exit 2
git checkout -q -- . ; git clean -fdq -e target
demo_name="${pid}_demo${store}"
ext=tests
cp "$out/demo$n.rs" "tests/$demo_name.rs"
run_demo() { cargo test --offline --all-features --test "$demo_name" >"$out/demo$n.$1.log" 2>&1; }
run_demo without; rc_without=$?
git apply "$out/change$n.diff" || { echo "change does not apply"; exit 2; }
run_demo with; rc_with=$?
rm -f "tests/$demo_name.rs"   # the demo itself must not count as part of the existing suite
cargo test --offline >"$out/suite$n.log" 2>&1; rc_suite=$?
pinned="$(grep -E '^test result' "$out/suite$n.log" | head -1)"
cargo test --offline --all-features --lib >"$out/lib$n.log" 2>&1; rc_lib=$?
libres="$(grep -E '^test result' "$out/lib$n.log" | head -1)"
git checkout -q -- . ; git clean -fdq -e target
echo "demo without change: rc=$rc_without; with change: rc=$rc_with; pinned suite rc=$rc_suite ($pinned); all-features lib rc=$rc_lib ($libres)"
if [ $rc_without -ne 0 ] || [ $rc_with -eq 0 ] || [ $rc_suite -ne 0 ] || [ $rc_lib -ne 0 ]; then echo "NOT CONFIRMED"; exit 1; fi
d="/verif/seeded/$PID-$store"; mkdir -p "$d"
cp "$out/change$n.diff" "$d/patch.diff"; cp "$out/demo$n.rs" "$d/demo.rs"
[ -f "$out/notes.md" ] && cp "$out/notes.md" "$d/notes.md"
python3 - "$d/meta.json" "$PID" "$needs" "$pinned" "$libres" "$demo_name" <<'PY'
import json, sys
json.dump({
  "property": sys.argv[2],
  "needs_to_manifest": sys.argv[3],
  "source": "independent sub-agent given only the property text and a scratch worktree",
  "confirmed_by_lead": {
    "demo": f"cargo test --offline --all-features --test {sys.argv[6]} (demo.rs copied to tests/): passes on unchanged HEAD, fails with patch.diff applied",
    "pinned_suite_with_change": "cargo test --offline: " + sys.argv[4],
    "feature_lib_tests_with_change": "cargo test --offline --all-features --lib: " + sys.argv[5],
  },
  "detected_by": None,
}, open(sys.argv[1], "w"), indent=1)
PY
echo "CONFIRMED -> $d"
