#!/usr/bin/env python3
"""Mechanical mutation sweep over the code the properties are anchored in.

usage: tools/mutsweep.py <per-property> [<slots>] [<only-ids, comma separated>]

For every property the anchored line ranges (properties.jsonl, anchors.mechanism[].where) are
scanned for single-token mutations (comparison and boolean operators, +/-1, is_some/is_none,
is_ok/is_err, min/max, true/false, a dropped `!`). Every k-th candidate is taken so that about
<per-property> mutants per property are tried. Each mutant is applied to a scratch copy of
/repo; it counts only if `cargo build --all-features`, the pinned suite (`cargo test --offline`)
and `cargo test --offline --all-features --lib` all still pass (i.e. the existing tests do not
notice). Then `./check <ID> quick` runs against the scratch copy: exit 1 = killed, exit 0 =
survivor (to be triaged: equivalent mutant, outside the property, or a hole in the check).

Results go to /verif/mutants/sweep/<ID>.jsonl (one line per mutant) and are summarised by
tools/mutsweep_report.py. Scratch space: /var/tmp/mutsweep (removed at the end).
"""
import json, os, re, subprocess, sys, shutil, hashlib, threading, queue, time

V = '/verif'; REPO = '/repo'; WORK = '/var/tmp/mutsweep'
per_prop = int(sys.argv[1]) if len(sys.argv) > 1 else 10
slots = int(sys.argv[2]) if len(sys.argv) > 2 else 4
only = set(sys.argv[3].split(',')) if len(sys.argv) > 3 else None

OPS = [
    (r' <= ', ' < '), (r' < ', ' <= '), (r' >= ', ' > '), (r' > ', ' >= '),
    (r' == ', ' != '), (r' != ', ' == '), (r' && ', ' || '), (r' \|\| ', ' && '),
    (r' \+ 1\b', ' + 2'), (r' - 1\b', ' - 2'), (r' \+ 1\b', ''), (r' - 1\b', ''),
    (r'\.is_some\(\)', '.is_none()'), (r'\.is_none\(\)', '.is_some()'),
    (r'\.is_ok\(\)', '.is_err()'), (r'\.is_err\(\)', '.is_ok()'),
    (r'\bmin\(', 'max('), (r'\bmax\(', 'min('), (r'\btrue\b', 'false'), (r'\bfalse\b', 'true'),
    (r'if !', 'if '), (r'\.saturating_sub\(', '.wrapping_sub('), (r'\.checked_sub\(', '.checked_add('),
    (r'\.first\(\)', '.last()'), (r'\.last\(\)', '.first()'), (r'0xFFFF\b', '0xFFFE'), (r'\b20\b', '21'), (r'\b32\b', '31'), (r'\b128\b', '127'),
]

def anchors(prop):
    out = []
    for m in prop['anchors'].get('mechanism', []):
        for part in m['where'].split(','):
            part = part.strip()
            mm = re.match(r'(src/\S+?):(\d+)(?:-(\d+))?$', part)
            if not mm: continue
            f, a, b = mm.group(1), int(mm.group(2)), mm.group(3)
            out.append((f, a, int(b) if b else None))
    return out

def candidates(prop):
    cands = []
    seen = set()
    for f, a, b in anchors(prop):
        path = os.path.join(REPO, f)
        if not os.path.exists(path): continue
        lines = open(path).read().split('\n')
        if b is None:
            # to the end of the enclosing item: first line that closes an `impl`-level fn
            b = a
            while b < len(lines) and b < a + 80 and not re.match(r'^    }$|^}$', lines[b - 1]): b += 1
        # the anchors were taken at the pinned commit; the fix commits moved lines by up to a few dozen,
        # and the helpers an anchored function calls usually follow it: widen the window
        a = max(1, a - 15); b = b + 60
        for ln in range(a, min(b, len(lines)) + 1):
            text = lines[ln - 1]
            s = text.strip()
            if not s or s.startswith('//') or s.startswith('#[') or s.startswith('///'): continue
            for k, (pat, rep) in enumerate(OPS):
                for m in re.finditer(pat, text):
                    key = (f, ln, k, m.start())
                    if key in seen: continue
                    seen.add(key)
                    new = text[:m.start()] + rep + text[m.end():]
                    cands.append(dict(file=f, line=ln, op=f'{pat.strip()} -> {rep.strip() or "(dropped)"}', old=text, new=new))
    return cands

def sh(cmd, cwd=None, env=None, timeout=1800):
    try:
        p = subprocess.run(cmd, shell=True, cwd=cwd, env=env, capture_output=True, text=True, timeout=timeout)
        return p.returncode, p.stdout + p.stderr
    except subprocess.TimeoutExpired:
        return 124, 'timeout'

def worker(slot, q, lock):
    sd = f'{WORK}/slot-{slot}'
    repo = f'{sd}/repo'; rt = f'{sd}/rt'; ht = f'{sd}/ht'
    os.makedirs(sd, exist_ok=True)
    env = dict(os.environ, CARGO_NET_OFFLINE='true', CARGO_TARGET_DIR=rt)
    while True:
        try: pid, c = q.get_nowait()
        except queue.Empty: return
        shutil.rmtree(repo, ignore_errors=True)
        sh(f'rsync -a --exclude target --exclude .git {REPO}/ {repo}/')
        path = os.path.join(repo, c['file'])
        lines = open(path).read().split('\n')
        if lines[c['line'] - 1] != c['old']:
            res = 'stale'
        else:
            lines[c['line'] - 1] = c['new']
            open(path, 'w').write('\n'.join(lines))
            rc, out = sh('cargo build --offline --all-features 2>&1 | tail -3', cwd=repo, env=env)
            rcb, _ = sh('cargo build --offline --all-features', cwd=repo, env=env)
            if rcb != 0: res = 'does-not-compile'
            else:
                rc1, o1 = sh('cargo test --offline', cwd=repo, env=env)
                if rc1 != 0 and 'test result: FAILED' not in o1:
                    # not a failing test: a build hiccup under load; try once more
                    rc1, o1 = sh('cargo test --offline', cwd=repo, env=env)
                if rc1 != 0:
                    res = 'killed-by-pinned-suite'
                    c['suite_tail'] = '\n'.join(o1.strip().split('\n')[-6:])
                else:
                    rc2, o2 = sh('cargo test --offline --all-features --lib', cwd=repo, env=env)
                    if rc2 != 0: res = 'killed-by-lib-tests'
                    else:
                        e2 = dict(os.environ, VERIF_REPO=repo, VERIF_TARGET=ht, VERIF_OUT_DIR=f'{sd}/out')
                        rc3, o3 = sh(f'{V}/check {pid} quick', env=e2, timeout=2400)
                        first = ''
                        for l in o3.split('\n'):
                            if l.startswith('VIOLATION'):
                                m = re.search(r'oracle=(\S+)', l); first = m.group(1) if m else ''; break
                        res = {0: 'SURVIVED', 1: 'killed-by-check'}.get(rc3, f'machinery-exit-{rc3}')
                        c['oracle'] = first
        c['result'] = res; c['property'] = pid
        with lock:
            os.makedirs(f'{V}/mutants/sweep', exist_ok=True)
            with open(f'{V}/mutants/sweep/{pid}.jsonl', 'a') as fh: fh.write(json.dumps(c) + '\n')
            print(f"MUTSWEEP {pid} {c['file']}:{c['line']} [{c['op']}] {res} {c.get('oracle','')}", flush=True)

def main():
    props = [json.loads(l) for l in open(f'{V}/properties.jsonl')]
    q = queue.Queue()
    done = set()
    for p in props:
        f = f"{V}/mutants/sweep/{p['id']}.jsonl"
        if os.path.exists(f):
            for l in open(f):
                d = json.loads(l); done.add((d['property'], d['file'], d['line'], d['op']))
    total = 0
    for p in props:
        if only and p['id'] not in only: continue
        cs = candidates(p)
        if not cs: continue
        step = max(1, len(cs) // per_prop)
        # a different residue per run number so that repeated runs try other candidates
        off = int(os.environ.get('MUTSWEEP_OFFSET', '0')) % step
        pick = cs[off::step][:per_prop]
        for c in pick:
            if (p['id'], c['file'], c['line'], c['op']) in done: continue
            q.put((p['id'], c)); total += 1
        print(f"{p['id']}: {len(cs)} candidates, {len(pick)} picked", flush=True)
    print(f'{total} mutants queued, {slots} slots', flush=True)
    os.makedirs(WORK, exist_ok=True)
    for s in range(slots):
        if not os.path.isdir(f'{WORK}/slot-{s}/ht'):
            os.makedirs(f'{WORK}/slot-{s}', exist_ok=True)
            sh(f'cp -r {V}/target {WORK}/slot-{s}/ht')
    lock = threading.Lock()
    ts = [threading.Thread(target=worker, args=(s, q, lock)) for s in range(slots)]
    for t in ts: t.start()
    for t in ts: t.join()
    shutil.rmtree(WORK, ignore_errors=True)

main()
