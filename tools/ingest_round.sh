#!/bin/bash
# usage: tools/ingest_round.sh <pid-lower> <first-store-number> [count]
# Confirms the changes of one seeding agent (change1..N in /tmp/seed-out/<pid>) with
# tools/ingest_seed.sh, stores the confirmed ones as seeded/<PID>-<store>.., then removes
# the scratch worktree and its build output.
set -u
pid="$1"; first="$2"; count="${3:-3}"
out="${SEED_OUT_BASE:-/tmp/seed-out}/$pid"; round="${SEED_ROUND:-8}"
for n in $(seq 1 "$count"); do
  [ -f "$out/change$n.diff" ] || { echo "$pid change$n: missing"; continue; }
  needs="$(grep -m1 -E "^\W*NEEDS$n\W" "$out/notes.md" 2>/dev/null | sed -E "s/^\W*NEEDS$n\W*//" | cut -c1-400)"
  [ -n "$needs" ] || needs="see notes.md, change $n"
  store=$((first + n - 1))
  echo "== $pid change$n -> store $store: $needs"
  /verif/tools/ingest_seed.sh "$pid" "$n" "round $round: $needs" "$out" "$store" 2>&1 | tail -3
done
git -C /repo worktree remove --force "${SEED_WT_BASE:-/tmp/seed}-$pid" && echo "worktree ${SEED_WT_BASE:-/tmp/seed}-$pid removed"
