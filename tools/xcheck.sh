#!/bin/bash
# usage: tools/xcheck.sh <seed-dir-name> <PID>   -- applies seeded/<name>/patch.diff to a scratch copy and runs ANOTHER property's quick check
set -u
name="$1"; id="$2"; w="/var/tmp/xcheck-$name-$id"
rm -rf "$w"; mkdir -p "$w/repo"; rsync -a --exclude target --exclude .git /repo/ "$w/repo/"
(cd "$w/repo" && patch -p1 -s --no-backup-if-mismatch < "/verif/seeded/$name/patch.diff") || { echo "XCHECK $name vs $id: PATCH-DOES-NOT-APPLY"; rm -rf "$w"; exit 2; }
[ -d "$w/target" ] || cp -r /verif/target "$w/target"
out="$(VERIF_REPO="$w/repo" VERIF_TARGET="$w/target" VERIF_OUT_DIR="$w/out" /verif/check "$id" quick 2>&1)"; rc=$?
echo "XCHECK $name vs $id: rc=$rc violations=$(echo "$out" | grep -c '^VIOLATION') first_oracle=$(echo "$out" | grep '^VIOLATION' | head -1 | sed 's/.*oracle=\([^ ]*\).*/\1/')"
rm -rf "$w"
