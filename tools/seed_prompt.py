#!/usr/bin/env python3
"""Prints the prompt for an independent seeding agent: property text only."""
import json, sys
pid = sys.argv[1]; wt = sys.argv[2]
p = next(json.loads(l) for l in open('/verif/properties.jsonl') if json.loads(l)['id'] == pid)
print(f"""You are helping to test a verification effort by writing realistic BUGS. You work ONLY inside the git worktree {wt} (a checkout of the Rust library NLnetLabs/rpki-rs: parsing, validating and creating RPKI objects, plus RTR, RRDP and CA protocols). Do not read or write anything under /verif or /repo, and do not look at other /tmp/seed-* directories. Use `CARGO_TARGET_DIR={wt}/target` and `--offline` for every cargo command (no network exists).

Here is a semantic property the library is supposed to satisfy:

TITLE: {p['title']}
STATEMENT: {p['statement']}
QUANTIFIED OVER: {p['quantifier']['text']}
RELEVANT FILES: {', '.join(p['anchors']['files'])}

Your task: produce TWO different, independent changes to the library source (each a separate small patch against the worktree's HEAD, touching src/ only, not tests) such that each change
  (a) makes the library VIOLATE the property above,
  (b) still compiles (all features: `cargo build --offline --all-features`) and still passes the existing tests: `cargo test --offline` (the pinned default-feature suite, 35 tests) AND the feature-gated unit tests `cargo test --offline --all-features --lib` (if some of those fail already WITHOUT your change, ignore exactly those),
  (c) looks like a plausible mistake or well-meant refactoring/optimisation a maintainer could make (off-by-one, wrong comparison operator, a dropped or reordered check, a cache or buffer hoisted or reused, a cursor advanced at the wrong moment, two sites that each look fine alone) — not sabotage such as `return true`,
  (d) needs something SPECIFIC to manifest: an unusual input, a boundary value, a particular multi-step sequence of operations, a particular interleaving/fragmentation/fault point — not something that ordinary use or the first obvious test would expose at once. The two changes must use different mechanisms in different functions.

For each change also write a DEMONSTRATION: a small Rust test file or example program (placed under {wt}/tests/ or {wt}/examples/, using only the public API, built with the needed `--features`) that FAILS with the change applied and PASSES on the unchanged HEAD. Verify both directions yourself.

Deliver, under /tmp/seed-out/{pid.lower()}/ (create it): change1.diff and change2.diff (`git diff` of src/ only, each against the unchanged HEAD, each applying on its own with `git apply`), demo1.rs and demo2.rs (the demonstrations, with a first-line comment giving the exact cargo command that runs them), and notes.md saying for each change: what it breaks, what exactly is needed for it to manifest, which commands you ran and their results (build, both test commands, demo failing with / passing without). Leave the worktree clean (`git checkout -- . && git clean -fdq -e target`) when done. Your final message should summarise notes.md.""")
