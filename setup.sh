#!/bin/bash
# Offline build of the harness: the explorers of all claimed properties
# (tools/built.txt). Each ./check rebuilds incrementally against /repo anyway.
set -eu
cd "$(dirname "$0")"
export CARGO_NET_OFFLINE=true
export CARGO_TARGET_DIR="${VERIF_TARGET:-$PWD/target}"
bins=()
while read -r id; do
  case "$id" in ''|'#'*) continue;; esac
  bins+=(--bin "$(echo "$id" | tr 'A-Z' 'a-z')")
done < tools/built.txt
cargo build --release --offline --manifest-path harness/Cargo.toml "${bins[@]}"
