#!/bin/bash
# Offline build of the whole harness (all property explorers).
set -eu
cd "$(dirname "$0")"
export CARGO_NET_OFFLINE=true
export CARGO_TARGET_DIR="${VERIF_TARGET:-$PWD/target}"
cargo build --release --offline --manifest-path harness/Cargo.toml --bins
