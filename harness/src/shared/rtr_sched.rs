//! E3 — controlled single-thread scheduler for the RTR checks.
//!
//! Included by path from the bins that need it
//! (`#[path = "../shared/rtr_sched.rs"] mod rtr_sched;`); it is not part of
//! the `rpki_verif` library crate.
//!
//! Pieces:
//!
//! * [`Sched`]: a current-thread tokio runtime with a paused clock. All
//!   tasks run on the calling thread, so an execution is a function of the
//!   script that drives it.
//! * [`sock_pair`] → ([`ScriptedSock`], [`SockCtl`]): an in-memory socket.
//!   The subject owns the `ScriptedSock` (`AsyncRead + AsyncWrite + Unpin`,
//!   and `rpki::rtr::server::Socket`); the driver keeps the `SockCtl` and
//!   decides when octets become readable, when the peer closes, how much the
//!   next write accepts. Wakers are stored, every poll is counted.
//! * [`quiesce`]: yield until the poll counters of the given sockets have
//!   been stable for [`QUIESCE_STABLE`] consecutive yields.
//! * [`play`]: applies a script of [`Ev`] (deliver k octets / notify / close /
//!   short write / write budget / settle) and records the output length and octets consumed
//!   at every settle point.
//! * [`join_within`]: waits for a task with a simulated-time horizon; the
//!   paused clock auto-advances only when nothing is runnable, i.e. only to
//!   fire the subject's own timers or, failing those, the horizon.
//!
//! Guards that make waiting visible:
//!
//! * **livelock**: a read polled more than [`LIVELOCK_POLLS`] times after end
//!   of stream was already reported (or that many zero-length reads). The
//!   socket then sets the `livelock` flag and fails the read with
//!   `ErrorKind::Other("rtr_sched livelock guard")`, which is what gets a
//!   subject out of a loop that never leaves a single poll.
//! * **flood**: a subject that has written more than [`OUTPUT_CAP`] octets
//!   gets its writes failed and the `flood` flag set (a response loop that
//!   never waits for input).
//! * **spin**: [`quiesce`] gives up after [`QUIESCE_CAP`] yields (a task that
//!   keeps waking itself).
//! * **hang**: decided by the caller: the subject is still pending at
//!   quiescence although the peer has closed and the script is exhausted
//!   ([`SockCtl::dropped`] / `JoinHandle::is_finished`), and [`join_within`]
//!   runs into the horizon.
#![allow(dead_code)]

use std::collections::VecDeque;
use std::future::Future;
use std::io;
use std::pin::Pin;
use std::sync::{Arc, Mutex, MutexGuard};
use std::task::{Context, Poll, Waker};
use std::time::Duration;
use tokio::io::{AsyncRead, AsyncWrite, ReadBuf};
use tokio::task::JoinHandle;
use rpki::rtr::server::NotifySender;
use rpki::rtr::state::State;

/// Reads after a reported end of stream before the livelock guard trips.
pub const LIVELOCK_POLLS: u64 = 1000;
/// Consecutive yields without socket activity that count as quiescence.
pub const QUIESCE_STABLE: u32 = 2;
/// Yields after which `quiesce` reports a spin instead of quiescence.
pub const QUIESCE_CAP: u32 = 20_000;
/// Default simulated-time horizon.
pub const HORIZON: Duration = Duration::from_secs(3600);
/// Octets a subject may write before the flood guard fails its writes.
pub const OUTPUT_CAP: usize = 8 << 20;
/// Message of the error the livelock guard injects.
pub const LIVELOCK_MSG: &str = "rtr_sched livelock guard";


//------------ Sched ---------------------------------------------------------

/// A current-thread runtime with paused clock.
pub struct Sched { rt: tokio::runtime::Runtime }

impl Sched {
    pub fn new() -> Sched {
        Sched {
            rt: tokio::runtime::Builder::new_current_thread()
                .enable_time().start_paused(true).build()
                .expect("cannot build current-thread runtime"),
        }
    }

    /// Runs a driver future to completion. Tasks it spawns run on this
    /// thread whenever the driver yields.
    pub fn run<F: Future>(&self, f: F) -> F::Output { rpki_verif::watched(|| self.rt.block_on(f)) }
}


//------------ the scripted socket -------------------------------------------

#[derive(Default)]
struct Inner {
    inbox: VecDeque<u8>,
    peer_closed: bool,
    read_error: Option<io::ErrorKind>,
    write_error: Option<io::ErrorKind>,
    read_chunk: Option<usize>,
    write_chunk: Option<usize>,
    short_next: Option<usize>,
    write_blocked: bool,
    write_budget: Option<usize>,
    vectored: bool,
    vectored_calls: u64,
    read_waker: Option<Waker>,
    write_waker: Option<Waker>,
    read_polls: u64,
    write_polls: u64,
    flush_polls: u64,
    shutdown_polls: u64,
    consumed: u64,
    eof_reports: u64,
    polls_after_eof: u64,
    zero_len_reads: u64,
    livelock: bool,
    flood: bool,
    out: Vec<u8>,
    writes: u64,
    subject_shutdown: bool,
    dropped: bool,
    dropped_in_panic: bool,
    updates: Vec<(u16, u32, bool)>,
}

/// The subject's end of the scripted socket.
pub struct ScriptedSock(Arc<Mutex<Inner>>);

/// The driver's end of the scripted socket.
#[derive(Clone)]
pub struct SockCtl(Arc<Mutex<Inner>>);

/// Creates a scripted socket and its controller.
pub fn sock_pair() -> (ScriptedSock, SockCtl) {
    let inner = Arc::new(Mutex::new(Inner::default()));
    (ScriptedSock(inner.clone()), SockCtl(inner))
}

fn lock(m: &Arc<Mutex<Inner>>) -> MutexGuard<'_, Inner> {
    // A panic inside the subject never happens while the lock is held (the
    // socket code below does not call out), but be robust anyway.
    m.lock().unwrap_or_else(|e| e.into_inner())
}

impl AsyncRead for ScriptedSock {
    fn poll_read(
        self: Pin<&mut Self>, cx: &mut Context<'_>, buf: &mut ReadBuf<'_>,
    ) -> Poll<io::Result<()>> {
        let mut g = lock(&self.0);
        g.read_polls += 1;
        if buf.remaining() == 0 {
            g.zero_len_reads += 1;
            if g.zero_len_reads > LIVELOCK_POLLS {
                g.livelock = true;
                return Poll::Ready(Err(io::Error::other(LIVELOCK_MSG)))
            }
            return Poll::Ready(Ok(()))
        }
        if !g.inbox.is_empty() {
            let mut n = buf.remaining().min(g.inbox.len());
            if let Some(c) = g.read_chunk { n = n.min(c.max(1)) }
            let (a, b) = g.inbox.as_slices();
            if n <= a.len() { buf.put_slice(&a[..n]) }
            else { buf.put_slice(a); buf.put_slice(&b[..n - a.len()]) }
            g.inbox.drain(..n);
            g.consumed += n as u64;
            return Poll::Ready(Ok(()))
        }
        if let Some(kind) = g.read_error {
            return Poll::Ready(Err(kind.into()))
        }
        if g.peer_closed {
            if g.eof_reports > 0 {
                g.polls_after_eof += 1;
                if g.polls_after_eof > LIVELOCK_POLLS {
                    g.livelock = true;
                    return Poll::Ready(Err(io::Error::other(LIVELOCK_MSG)))
                }
            }
            g.eof_reports += 1;
            return Poll::Ready(Ok(()))
        }
        g.read_waker = Some(cx.waker().clone());
        Poll::Pending
    }
}

/// Decides how many of `total` offered octets a write call takes (the
/// bookkeeping common to plain and vectored writes).
fn accept(g: &mut Inner, cx: &mut Context<'_>, total: usize) -> Poll<io::Result<usize>> {
    g.write_polls += 1;
    if let Some(kind) = g.write_error {
        return Poll::Ready(Err(kind.into()))
    }
    if g.out.len() > OUTPUT_CAP {
        g.flood = true;
        return Poll::Ready(Err(io::Error::other("rtr_sched output cap")))
    }
    if g.write_blocked {
        g.write_waker = Some(cx.waker().clone());
        return Poll::Pending
    }
    let mut n = total;
    if let Some(left) = g.write_budget {
        if left == 0 {
            g.write_waker = Some(cx.waker().clone());
            return Poll::Pending
        }
        n = n.min(left);
    }
    if let Some(c) = g.short_next.take() { n = n.min(c.max(1)) }
    else if let Some(c) = g.write_chunk { n = n.min(c.max(1)) }
    if let Some(left) = g.write_budget { g.write_budget = Some(left - n) }
    g.writes += 1;
    Poll::Ready(Ok(n))
}

impl AsyncWrite for ScriptedSock {
    fn poll_write(
        self: Pin<&mut Self>, cx: &mut Context<'_>, buf: &[u8],
    ) -> Poll<io::Result<usize>> {
        let mut g = lock(&self.0);
        let n = match accept(&mut g, cx, buf.len()) { Poll::Ready(Ok(n)) => n, other => return other };
        g.out.extend_from_slice(&buf[..n]);
        Poll::Ready(Ok(n))
    }

    /// With `set_vectored(true)` the socket gathers from all slices (under
    /// the same chunk / short-write / budget limits, which then apply to the
    /// call as a whole); otherwise it behaves like a writer without vectored
    /// support: the first non-empty slice goes through `poll_write`.
    fn poll_write_vectored(
        self: Pin<&mut Self>, cx: &mut Context<'_>, bufs: &[io::IoSlice<'_>],
    ) -> Poll<io::Result<usize>> {
        let mut g = lock(&self.0);
        g.vectored_calls += 1;
        if !g.vectored {
            let buf = bufs.iter().find(|b| !b.is_empty()).map_or(&[][..], |b| &**b);
            let n = match accept(&mut g, cx, buf.len()) { Poll::Ready(Ok(n)) => n, other => return other };
            g.out.extend_from_slice(&buf[..n]);
            return Poll::Ready(Ok(n))
        }
        let total: usize = bufs.iter().map(|b| b.len()).sum();
        let n = match accept(&mut g, cx, total) { Poll::Ready(Ok(n)) => n, other => return other };
        let mut left = n;
        for b in bufs {
            if left == 0 { break }
            let k = left.min(b.len());
            g.out.extend_from_slice(&b[..k]);
            left -= k;
        }
        Poll::Ready(Ok(n))
    }

    fn is_write_vectored(&self) -> bool { lock(&self.0).vectored }

    fn poll_flush(
        self: Pin<&mut Self>, _cx: &mut Context<'_>,
    ) -> Poll<io::Result<()>> {
        lock(&self.0).flush_polls += 1;
        Poll::Ready(Ok(()))
    }

    fn poll_shutdown(
        self: Pin<&mut Self>, _cx: &mut Context<'_>,
    ) -> Poll<io::Result<()>> {
        let mut g = lock(&self.0);
        g.shutdown_polls += 1;
        g.subject_shutdown = true;
        Poll::Ready(Ok(()))
    }
}

impl rpki::rtr::server::Socket for ScriptedSock {
    fn update(&self, state: State, reset: bool) {
        lock(&self.0).updates.push((state.session(), state.serial().0, reset));
    }
}

impl Drop for ScriptedSock {
    fn drop(&mut self) {
        let mut g = lock(&self.0);
        g.dropped = true;
        g.dropped_in_panic = std::thread::panicking();
    }
}

impl SockCtl {
    //--- what the peer does

    /// Makes `data` readable (appended to what is still unread).
    pub fn deliver(&self, data: &[u8]) {
        let w = { let mut g = lock(&self.0); g.inbox.extend(data.iter().copied()); g.read_waker.take() };
        if let Some(w) = w { w.wake() }
    }

    /// The peer closes its sending side: end of stream after the unread octets.
    pub fn close(&self) {
        let w = { let mut g = lock(&self.0); g.peer_closed = true; g.read_waker.take() };
        if let Some(w) = w { w.wake() }
    }

    /// Reads fail with `kind` once the unread octets are drained.
    pub fn fail_reads(&self, kind: io::ErrorKind) {
        let w = { let mut g = lock(&self.0); g.read_error = Some(kind); g.read_waker.take() };
        if let Some(w) = w { w.wake() }
    }

    /// All further writes fail with `kind`.
    pub fn fail_writes(&self, kind: io::ErrorKind) {
        let w = { let mut g = lock(&self.0); g.write_error = Some(kind); g.write_waker.take() };
        if let Some(w) = w { w.wake() }
    }

    /// The next write accepts at most `n` (at least one) octets.
    pub fn short_next_write(&self, n: usize) { lock(&self.0).short_next = Some(n) }

    /// Every write accepts at most `n` octets (`None`: everything).
    pub fn set_write_chunk(&self, n: Option<usize>) { lock(&self.0).write_chunk = n }

    /// Every read returns at most `n` octets (`None`: everything available).
    pub fn set_read_chunk(&self, n: Option<usize>) { lock(&self.0).read_chunk = n }

    /// Back-pressure: while blocked, writes are pending.
    pub fn block_writes(&self, blocked: bool) {
        let w = { let mut g = lock(&self.0); g.write_blocked = blocked; if blocked { None } else { g.write_waker.take() } };
        if let Some(w) = w { w.wake() }
    }

    /// Back-pressure after `n` more octets: writes accept `n` octets in
    /// total and are pending from then on (`None`: no limit, wakes a parked
    /// writer).
    pub fn set_write_budget(&self, n: Option<usize>) {
        let w = { let mut g = lock(&self.0); g.write_budget = n; if n.is_some() { None } else { g.write_waker.take() } };
        if let Some(w) = w { w.wake() }
    }

    /// Native vectored writes on/off (off: like a writer that only has `poll_write`).
    pub fn set_vectored(&self, on: bool) { lock(&self.0).vectored = on }

    /// Number of `poll_write_vectored` calls.
    pub fn vectored_calls(&self) -> u64 { lock(&self.0).vectored_calls }

    /// A writer is parked on this socket.
    pub fn writer_parked(&self) -> bool { lock(&self.0).write_waker.is_some() }

    //--- what the subject did

    /// Everything the subject has written so far.
    pub fn output(&self) -> Vec<u8> { lock(&self.0).out.clone() }
    pub fn output_len(&self) -> usize { lock(&self.0).out.len() }
    pub fn take_output(&self) -> Vec<u8> { std::mem::take(&mut lock(&self.0).out) }
    /// Number of accepted write calls.
    pub fn writes(&self) -> u64 { lock(&self.0).writes }
    /// Octets the subject has read.
    pub fn consumed(&self) -> u64 { lock(&self.0).consumed }
    /// Octets delivered but not yet read.
    pub fn unread(&self) -> usize { lock(&self.0).inbox.len() }
    pub fn read_polls(&self) -> u64 { lock(&self.0).read_polls }
    pub fn write_polls(&self) -> u64 { lock(&self.0).write_polls }
    /// Number of reads that reported end of stream.
    pub fn eof_reports(&self) -> u64 { lock(&self.0).eof_reports }
    /// Reads polled after end of stream had already been reported.
    pub fn polls_after_eof(&self) -> u64 { lock(&self.0).polls_after_eof }
    /// The livelock guard has tripped.
    pub fn livelock(&self) -> bool { lock(&self.0).livelock }
    /// The subject wrote more than `OUTPUT_CAP` octets (its writes fail from then on).
    pub fn flood(&self) -> bool { lock(&self.0).flood }
    /// The subject called shutdown on the socket.
    pub fn subject_shutdown(&self) -> bool { lock(&self.0).subject_shutdown }
    /// The subject has dropped its end (for a server connection: the
    /// connection task has ended).
    pub fn dropped(&self) -> bool { lock(&self.0).dropped }
    /// The subject's end was dropped while its thread was unwinding.
    pub fn dropped_in_panic(&self) -> bool { lock(&self.0).dropped_in_panic }
    /// `Socket::update` calls: (session, serial, reset).
    pub fn updates(&self) -> Vec<(u16, u32, bool)> { lock(&self.0).updates.clone() }
    /// A reader is parked on this socket.
    pub fn reader_parked(&self) -> bool { lock(&self.0).read_waker.is_some() }

    /// Sum of all poll counters plus the dropped flag: changes whenever the
    /// subject touched the socket.
    pub fn activity(&self) -> u64 {
        let g = lock(&self.0);
        g.read_polls + g.write_polls + g.flush_polls + g.shutdown_polls + g.dropped as u64
    }
}


/// Moves everything `from`'s subject has written into `to`'s inbox (two
/// scripted sockets back to back make a duplex link whose transfer moments
/// the driver controls). Returns the number of octets moved.
pub fn pump(from: &SockCtl, to: &SockCtl) -> usize {
    let data = from.take_output();
    if !data.is_empty() { to.deliver(&data) }
    data.len()
}


//------------ quiescence ----------------------------------------------------

/// Result of a run to quiescence.
#[derive(Clone, Copy, Debug, PartialEq, Eq)]
pub struct Quiet {
    /// Yields it took.
    pub yields: u32,
    /// The cap was hit: something keeps polling the sockets.
    pub spin: bool,
}

/// Yields to the other tasks until none of the sockets has been touched for
/// `QUIESCE_STABLE` consecutive yields. Simulated time does not move.
pub async fn quiesce(ctls: &[&SockCtl]) -> Quiet {
    let act = |c: &[&SockCtl]| c.iter().map(|x| x.activity()).sum::<u64>();
    let mut last = act(ctls);
    let mut stable = 0u32;
    let mut yields = 0u32;
    while stable < QUIESCE_STABLE {
        tokio::task::yield_now().await;
        yields += 1;
        let now = act(ctls);
        if now == last { stable += 1 } else { stable = 0; last = now }
        if yields >= QUIESCE_CAP { return Quiet { yields, spin: true } }
    }
    Quiet { yields, spin: false }
}


//------------ scripts -------------------------------------------------------

/// One scripted event. Events up to the next `Settle` form a batch: they all
/// become visible to the subject in the same poll.
#[derive(Clone, Copy, Debug, PartialEq, Eq, Hash, PartialOrd, Ord)]
pub enum Ev {
    /// Deliver the next k octets of the stream.
    Deliver(usize),
    /// Fire the notify sender once.
    Notify,
    /// The peer closes.
    Close,
    /// The next write accepts at most k octets.
    ShortWrite(usize),
    /// Every further write accepts at most k octets.
    WriteChunk(usize),
    /// Every further read returns at most k octets.
    ReadChunk(usize),
    /// Writes accept k more octets and are pending after that.
    WriteBudget(usize),
    /// Lifts the write budget (a parked writer is woken).
    Unblock,
    /// The socket implements vectored writes natively from now on.
    Vectored,
    /// An event of the explorer's own (another participant acts: the data
    /// source advances, a second socket does something, ...); `play_with`
    /// hands it to the caller's hook, `play` ignores it.
    User(u8),
    /// Run to quiescence.
    Settle,
}

/// Canonical one-line rendering of a script: `d3 | N | d5 | C |`.
pub fn render_script(script: &[Ev]) -> String {
    let mut s = String::new();
    for (i, e) in script.iter().enumerate() {
        if i > 0 { s.push(' ') }
        match e {
            Ev::Deliver(k) => s.push_str(&format!("d{k}")),
            Ev::Notify => s.push('N'),
            Ev::Close => s.push('C'),
            Ev::ShortWrite(k) => s.push_str(&format!("w{k}")),
            Ev::WriteChunk(k) => s.push_str(&format!("W{k}")),
            Ev::ReadChunk(k) => s.push_str(&format!("R{k}")),
            Ev::WriteBudget(k) => s.push_str(&format!("B{k}")),
            Ev::Unblock => s.push('U'),
            Ev::Vectored => s.push('V'),
            Ev::User(k) => s.push_str(&format!("X{k}")),
            Ev::Settle => s.push('|'),
        }
    }
    s
}

/// Parses what `render_script` wrote.
pub fn parse_script(s: &str) -> Option<Vec<Ev>> {
    let mut out = Vec::new();
    for tok in s.split_whitespace() {
        let num = |t: &str| t[1..].parse::<usize>().ok();
        out.push(match tok.as_bytes()[0] {
            b'd' => Ev::Deliver(num(tok)?),
            b'N' => Ev::Notify,
            b'C' => Ev::Close,
            b'w' => Ev::ShortWrite(num(tok)?),
            b'W' => Ev::WriteChunk(num(tok)?),
            b'R' => Ev::ReadChunk(num(tok)?),
            b'B' => Ev::WriteBudget(num(tok)?),
            b'U' => Ev::Unblock,
            b'V' => Ev::Vectored,
            b'X' => Ev::User(num(tok)? as u8),
            b'|' => Ev::Settle,
            _ => return None,
        });
    }
    Some(out)
}

/// What was observed at one settle point.
#[derive(Clone, Copy, Debug, PartialEq, Eq)]
pub struct Mark {
    /// Index of the `Settle` event in the script.
    pub at: usize,
    /// Octets the subject had written by then.
    pub out_len: usize,
    /// Octets the subject had read by then.
    pub consumed: u64,
}

/// Observations of a played script.
#[derive(Clone, Debug, Default, PartialEq, Eq)]
pub struct Trace {
    pub marks: Vec<Mark>,
    /// Some run to quiescence hit the cap.
    pub spin: bool,
    /// Octets of the stream that were delivered.
    pub delivered: usize,
    /// Total yields.
    pub yields: u64,
}

/// Applies `script` to the socket: `Deliver(k)` hands over the next k octets
/// of `stream` (fewer if the stream runs out), `Notify` fires `notify` (which
/// must then be given), `Settle` runs to quiescence.
pub async fn play(
    ctl: &SockCtl, stream: &[u8], notify: Option<&mut NotifySender>, script: &[Ev],
) -> Trace {
    play_with(ctl, stream, notify, script, &mut |_| {}).await
}

/// Like `play`; `Ev::User(k)` events are handed to `hook` (synchronously, as
/// part of the batch they stand in).
pub async fn play_with(
    ctl: &SockCtl, stream: &[u8], mut notify: Option<&mut NotifySender>, script: &[Ev], hook: &mut dyn FnMut(u8),
) -> Trace {
    let mut tr = Trace::default();
    let mut pos = 0usize;
    for (i, ev) in script.iter().enumerate() {
        match *ev {
            Ev::Deliver(k) => {
                let end = (pos + k).min(stream.len());
                ctl.deliver(&stream[pos..end]);
                pos = end;
            }
            Ev::Notify => {
                notify.as_mut().expect("script fires notify but no sender was given").notify();
            }
            Ev::Close => ctl.close(),
            Ev::ShortWrite(k) => ctl.short_next_write(k),
            Ev::WriteChunk(k) => ctl.set_write_chunk(Some(k)),
            Ev::ReadChunk(k) => ctl.set_read_chunk(Some(k)),
            Ev::WriteBudget(k) => ctl.set_write_budget(Some(k)),
            Ev::Unblock => ctl.set_write_budget(None),
            Ev::Vectored => ctl.set_vectored(true),
            Ev::User(k) => hook(k),
            Ev::Settle => {
                let q = quiesce(&[ctl]).await;
                tr.spin |= q.spin;
                tr.yields += q.yields as u64;
                tr.marks.push(Mark { at: i, out_len: ctl.output_len(), consumed: ctl.consumed() });
            }
        }
    }
    tr.delivered = pos;
    tr
}


//------------ waiting for a task --------------------------------------------

/// How a task ended.
#[derive(Debug)]
pub enum Joined<T> {
    /// The task returned.
    Done(T),
    /// The task panicked (message as far as it can be recovered).
    Panicked(String),
    /// The task was still pending when simulated time reached the horizon:
    /// it waits for something that will never happen.
    Stuck,
}

/// Waits for `handle`, letting the paused clock auto-advance (only the
/// subject's own timers and the horizon exist). The task is aborted if the
/// horizon is reached.
pub async fn join_within<T>(mut handle: JoinHandle<T>, horizon: Duration) -> Joined<T> {
    match tokio::time::timeout(horizon, &mut handle).await {
        Ok(Ok(v)) => Joined::Done(v),
        Ok(Err(e)) => {
            if e.is_panic() {
                let p = e.into_panic();
                let msg = if let Some(s) = p.downcast_ref::<&str>() { s.to_string() }
                    else if let Some(s) = p.downcast_ref::<String>() { s.clone() }
                    else { "<non-string panic>".to_string() };
                // The harness' panic hook has recorded message and location
                // on this thread; `guard` hands them back when it catches
                // the re-raised payload (resume_unwind does not run the hook).
                let rec = rpki_verif::guard(move || -> () { std::panic::resume_unwind(p) });
                Joined::Panicked(match rec {
                    Err(m) if m.starts_with("panic at") => m,
                    _ => format!("panic: {msg}"),
                })
            } else {
                Joined::Panicked("task cancelled".into())
            }
        }
        Err(_) => { handle.abort(); let _ = handle.await; Joined::Stuck }
    }
}

/// Simulated time elapsed since `t0`.
pub fn sim_elapsed(t0: tokio::time::Instant) -> Duration { tokio::time::Instant::now() - t0 }
