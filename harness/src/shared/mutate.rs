//! E4 — deviation operators on raw octets and on a parsed TLV tree.
//!
//! Included by path from the bins that need it
//! (`#[path = "../shared/mutate.rs"] mod mutate;`); it is not part of the
//! `rpki_verif` library crate.
//!
//! Two families:
//!
//! * **raw octets**: every truncation length ([`truncate`]), every octet :=
//!   one of [`BYTE_VALUES`] ([`set_byte`]), every single-bit flip
//!   ([`flip_bit`]).
//! * **TLV tree** ([`Tree`], parsed with E5's lenient reader, never with
//!   bcder): at every node one [`Op`] — tag := each of [`TAG_MENU`];
//!   length := {−1, +1, 0, indefinite (with / without end-of-contents),
//!   non-minimal long form, `84 FF FF FF FF`}; content := {one octet short,
//!   empty, one zero octet, all `FF`, first/last octet ±1}; delete; duplicate;
//!   swap with next sibling; splice in the first node of every other tag
//!   found in the same object; wrap in `d` levels of constructed nesting;
//!   for primitive string-typed nodes the 24 BER "constructed string"
//!   spellings of [`CONS_VARIANTS`]; typed value menus, list-shape
//!   operators and size classes ([`SIZE_CLASSES`]: grow a value to 127 ...
//!   65537 octets of content by padding, filler elements or repetition).
//!
//! A deviation is *local*: when an operator changes the size of a node, the
//! length fields of all its ancestors are re-encoded (minimal definite form)
//! so that the object differs from the seed in exactly the stated way. The
//! length operators themselves are the ones that make a header disagree with
//! its content. [`Tree::apply`] takes any number of (node, op) pairs, so
//! bound-2 spaces are the same code path as bound 1; operators on an ancestor
//! act on the already rewritten content of its descendants.
//!
//! Everything is a pure function of (seed, node index, operator): a case can
//! be regenerated from its index in a worker process.

#![allow(dead_code)]

use rpki_verif::engine::der::{self, Node};

/// The tags a node's identifier octet is rewritten to.
pub const TAG_MENU: [u8; 16] = [
    0x00, // end-of-contents
    0x01, 0x02, 0x03, 0x04, 0x05, 0x06, // BOOLEAN INTEGER BIT-STRING OCTET-STRING NULL OID
    0x0c, 0x13, 0x16, 0x17, 0x18,       // UTF8String PrintableString IA5String UTCTime GeneralizedTime
    0x24,                               // constructed OCTET STRING (BER only)
    0x30, 0x31,                         // SEQUENCE SET
    0xa0,                               // [0] constructed
];

/// The values every octet is overwritten with.
pub const BYTE_VALUES: [u8; 4] = [0x00, 0x7f, 0x80, 0xff];

#[derive(Clone, Copy, Debug, PartialEq, Eq, Hash, PartialOrd, Ord)]
pub enum Op {
    Tag(u8),
    /// length field one less than the content
    LenDec,
    /// length field one more than the content
    LenInc,
    /// length field zero, content left in place
    LenZero,
    /// `80` + content + `00 00`
    LenIndef,
    /// `80` + content, no end-of-contents
    LenIndefNoEoc,
    /// long form with one superfluous leading length octet
    LenNonMin,
    /// `84 FF FF FF FF`
    LenHuge,
    /// length field unchanged, last content octet dropped
    ContentShort,
    Empty,
    OneZero,
    AllFf,
    FirstInc,
    FirstDec,
    LastInc,
    LastDec,
    Delete,
    Duplicate,
    SwapNext,
    /// replace by the (unmodified) node with this flat index
    Splice(u32),
    /// wrap in this many levels of indefinite-length constructed values of the node's own tag
    Nest(u32),
    /// wrap in this many levels of definite-length constructed values of the node's own tag
    NestDef(u32),
    /// re-encode a primitive string-typed value in the BER "constructed
    /// string" spelling; the variant number indexes [`CONS_VARIANTS`]
    Cons(u8),
    /// replace the value by entry k of the typed value menu of the node's
    /// tag ([`typed_values`]; time entries carry their own tag)
    Value(u16),
    /// reorder / extend the children of a constructed node
    List(ListOp),
    /// append this many zero octets to the content
    Pad(u32),
    /// bring the node's content length to size class k of [`SIZE_CLASSES`]
    /// (all ancestor lengths follow): `Size(how, k)` with how = 0: a
    /// primitive value is padded with zero octets (or cut), a constructed one
    /// gets a well-formed filler element appended (an unknown attribute
    /// `SEQUENCE { OID 1.2.3.4, SET { OCTET STRING } }` of the missing size);
    /// 1: the last element is repeated, a filler makes up the rest; 2: the
    /// last leaf inside the last element is padded.
    Size(u8, u8),
}

/// Content lengths a value is grown to: both sides of the short/long length
/// form boundaries and of the 16-bit boundary.
pub const SIZE_CLASSES: [usize; 7] = [127, 128, 255, 256, 65535, 65536, 65537];

/// Nodes the size-class operators are applied to: strings, integers,
/// SEQUENCE, SET and every context-tagged node.
pub fn is_sized_tag(tag: u8) -> bool {
    matches!(tag, 0x02 | 0x03 | 0x04 | 0x0c | 0x13 | 0x16 | 0x30 | 0x31) || tag & 0xc0 == 0x80
}

/// Well-formed filler of exactly `r` octets (r >= 2): one or two unknown
/// attributes `SEQUENCE { OID 1.2.3.4, SET { OCTET STRING (zeros) } }`; for
/// fewer than 11 octets a bare OCTET STRING.
pub fn filler(r: usize) -> Vec<u8> {
    let attr = |k: usize| der::seq(&[der::oid(&[1, 2, 3, 4]), der::set_unsorted(&[der::octets(&vec![0u8; k])])]);
    if r < 2 { return vec![0; r] }
    if r < 11 { return der::octets(&vec![0u8; r - 2]) }
    let fit = |r: usize| -> Option<Vec<u8>> {
        for k in (r.saturating_sub(24)..=r.saturating_sub(11)).rev() { let a = attr(k); if a.len() == r { return Some(a) } }
        None
    };
    if let Some(a) = fit(r) { return a }
    // the length form changes between two payload sizes: make up the difference with a second, empty attribute
    let small = attr(0);
    if r >= small.len() + 11 { if let Some(a) = fit(r - small.len()) { let mut o = small; o.extend(a); return o } }
    der::octets(&vec![0u8; r - 4.min(r)])
}

/// Grows the TLV by exactly `extra` octets by padding its last leaf.
fn grow_last_leaf(tlv: &[u8], extra: usize) -> Vec<u8> {
    let Some(t) = Tree::parse(tlv) else { let mut o = tlv.to_vec(); o.extend(filler(extra)); return o };
    let leaf = (0..t.len()).rev().find(|&i| t.nodes[i].children.is_empty()).unwrap_or(0);
    for p in (extra.saturating_sub(16)..=extra).rev() {
        let o = t.apply1(tlv, leaf, Op::Pad(p as u32));
        if o.len() == tlv.len() + extra { return o }
    }
    t.apply1(tlv, leaf, Op::Pad(extra as u32))
}

fn apply_size_op(kids: &mut Vec<Vec<u8>>, how: u8, target: usize) {
    let l: usize = kids.iter().map(|k| k.len()).sum();
    if l >= target || kids.is_empty() { return }
    match how {
        0 => kids.push(filler(target - l)),
        1 => {
            let last = kids.last().unwrap().clone();
            let mut l = l;
            while !last.is_empty() && l + last.len() <= target { kids.push(last.clone()); l += last.len() }
            if target - l >= 2 { kids.push(filler(target - l)) }
        }
        _ => { let last = kids.pop().unwrap(); kids.push(grow_last_leaf(&last, target - l)) }
    }
}

/// List-shape operators (at every constructed node: SEQUENCE OF / SET OF
/// cannot be told from SEQUENCE without the schema, so all are treated alike).
#[derive(Clone, Copy, Debug, PartialEq, Eq, Hash, PartialOrd, Ord)]
pub enum ListOp {
    Reverse,
    /// move the first element to the end
    RotL,
    /// move the last element to the front
    RotR,
    /// sort by encoding, descending
    SortDesc,
    /// duplicate the first / last element and add 1 to the last octet of the copy
    DupModFirst,
    DupModLast,
    /// insert, at the front / end, a copy of the first / last element whose
    /// INTEGER and BIT STRING leaves are set to boundary value k (< LIST_BOUNDARY)
    InsertFront(u8),
    InsertEnd(u8),
}

pub const LIST_BOUNDARY: u8 = 5;

//------------ typed value menus -------------------------------------------------

static OID_POOL: std::sync::OnceLock<Vec<Vec<u8>>> = std::sync::OnceLock::new();

/// Registers the contents of every OBJECT IDENTIFIER that occurs in any seed
/// (sorted, distinct); the OID value menu is this pool.
pub fn set_oid_pool(mut v: Vec<Vec<u8>>) { v.sort(); v.dedup(); let _ = OID_POOL.set(v); }
pub fn oid_pool() -> &'static [Vec<u8>] { OID_POOL.get().map(|v| v.as_slice()).unwrap_or(&[]) }

fn int_menu() -> Vec<Vec<u8>> {
    let mut v: Vec<Vec<u8>> = vec![
        vec![0], vec![1], vec![1, 0, 0], vec![0, 0xff, 0xff, 0xff, 0xff], vec![1, 0, 0, 0, 0],     // 0 1 65536 2^32-1 2^32 (list boundary values)
        vec![0x7f], vec![0, 0x80], vec![0, 0xff], vec![1, 0], vec![0, 0xff, 0xff],                // 127 128 255 256 65535
        vec![0x7f, 0xff, 0xff, 0xff], vec![0, 0x80, 0, 0, 0],                                     // 2^31-1 2^31
        vec![0, 0x80, 0, 0, 0, 0, 0, 0, 0], vec![1, 0, 0, 0, 0, 0, 0, 0, 0],                      // 2^63 2^64
    ];
    let mut twenty = vec![0x7f]; twenty.extend(vec![0xff; 19]); v.push(twenty);                   // largest 20-octet value
    let mut t21 = vec![0]; t21.extend(vec![0xff; 20]); v.push(t21);                               // 21 octets: 00 + 20 x FF
    let mut t21b = vec![1]; t21b.extend(vec![0; 20]); v.push(t21b);                               // 21 octets: 2^160
    v.push(vec![0xff]); v.push(vec![0x80]); v.push(vec![0x80, 0, 0, 0]);                          // -1 -128 -2^31
    v.push(vec![0, 1]); v.push(vec![0, 0]);                                                       // superfluous leading zero
    v
}

fn time_menu() -> Vec<(u8, Vec<u8>)> {
    let mut v: Vec<(u8, Vec<u8>)> = Vec::new();
    let g = |s: String| (0x18u8, s.into_bytes());
    let u = |s: String| (0x17u8, s.into_bytes());
    for y in [1900, 2000, 2100, 2400, 0, 9999] { for d in [28, 29, 30] { v.push(g(format!("{y:04}02{d:02}143955Z"))) } }
    for yy in [0, 49, 50, 99] { for d in [28, 29, 30] { v.push(u(format!("{yy:02}02{d:02}143955Z"))) } }
    for body in ["0014120000", "1314120000", "0100120000", "0132120000", "1114235959", "1114240000", "1114235960", "1114236059", "0431120000", "1231235959"] {
        v.push(g(format!("2023{body}Z")));
        v.push(u(format!("23{body}Z")));
    }
    for (y, rest) in [(2049, "1231235959"), (2050, "0101000000"), (1949, "1231235959"), (1950, "0101000000")] {
        v.push(g(format!("{y}{rest}Z")));
        v.push(u(format!("{:02}{rest}Z", y % 100)));
    }
    v
}

/// Number of entries of the typed value menu for a node with this tag.
pub fn typed_value_count(tag: u8) -> usize {
    match tag {
        0x01 => 3,
        0x02 => int_menu().len(),
        0x03 => 10,
        0x06 => oid_pool().len(),
        0x17 | 0x18 => time_menu().len(),
        t if is_string_tag(t) => 5,
        _ => 0,
    }
}

/// Entry k of the typed value menu: (tag to write, content).
pub fn typed_value(tag: u8, content: &[u8], k: usize) -> (u8, Vec<u8>) {
    let generic = |k: usize| -> Vec<u8> {
        match k {
            0 => vec![],
            1 => vec![0x41],
            2 => content[..content.len().saturating_sub(1)].to_vec(),
            3 => { let mut c = content.to_vec(); c.push(0x41); c }
            _ => vec![0xff; content.len().max(1)],
        }
    };
    match tag {
        0x01 => (tag, vec![[0x00u8, 0xff, 0x01][k % 3]]),
        0x02 => { let m = int_menu(); (tag, m[k % m.len()].clone()) }
        0x03 => {
            let b: [&[u8]; 5] = [&[0], &[0, 0], &[0, 0xff, 0xff, 0xff, 0xff],
                &[0, 0xff, 0xff, 0xff, 0xff, 0xff, 0xff, 0xff, 0xff, 0xff, 0xff, 0xff, 0xff, 0xff, 0xff, 0xff, 0xff], &[7, 0x80]];
            if k < 5 { (tag, b[k].to_vec()) } else { (tag, generic(k - 5)) }
        }
        0x06 => { let p = oid_pool(); if p.is_empty() { (tag, content.to_vec()) } else { (tag, p[k % p.len()].clone()) } }
        0x17 | 0x18 => { let m = time_menu(); m[k % m.len()].clone() }
        _ => (tag, generic(k)),
    }
}

/// Readable name of entry k of the typed value menu for `tag`.
pub fn value_name(tag: u8, k: usize) -> String {
    let generic = ["empty", "one-octet", "one-octet-short", "one-octet-more", "all-ones"];
    let hexs = |b: &[u8]| b.iter().map(|x| format!("{x:02x}")).collect::<String>();
    match tag {
        0x17 | 0x18 => { let (t, c) = typed_value(tag, &[], k); format!("value={}:{}", if t == 0x17 { "utc" } else { "gen" }, String::from_utf8_lossy(&c)) }
        0x01 | 0x02 | 0x06 => format!("value={}", hexs(&typed_value(tag, &[], k).1)),
        0x03 if k < 5 => format!("value={}", hexs(&typed_value(tag, &[], k).1)),
        0x03 => format!("value={}", generic[(k - 5) % 5]),
        _ => format!("value={}", generic[k % 5]),
    }
}

/// The constructed-string variants: (what, indefinite outer length).
///
/// * `Split(k)`: two parts, cut after the first octet (0), in the middle (1),
///   before the last octet (2);
/// * the others cut in the middle and then: repeat the last part (more
///   octets than the original), drop the last octet (fewer), append an extra
///   part of 1 / 4 / 64 octets, insert an empty part, make the first part a
///   constructed string of two parts itself (depth 2), give the second part
///   a wrong tag (INTEGER), or use a single part.
#[derive(Clone, Copy, Debug, PartialEq, Eq)]
pub enum ConsKind { Split(u8), DupLast, DropLastOctet, Extra(u8), EmptyPart, Nested, WrongInnerTag, SinglePart }

pub const CONS_VARIANTS: [(ConsKind, bool); 24] = {
    use ConsKind::*;
    [
        (Split(0), false), (Split(0), true), (Split(1), false), (Split(1), true), (Split(2), false), (Split(2), true),
        (DupLast, false), (DupLast, true), (DropLastOctet, false), (DropLastOctet, true),
        (Extra(1), false), (Extra(1), true), (Extra(4), false), (Extra(4), true), (Extra(64), false), (Extra(64), true),
        (EmptyPart, false), (EmptyPart, true), (Nested, false), (Nested, true),
        (WrongInnerTag, false), (WrongInnerTag, true), (SinglePart, false), (SinglePart, true),
    ]
};
/// Variant numbers used where only representatives are wanted.
pub const CONS_SPLIT_MID: u8 = 2;
pub const CONS_DUP_LAST: u8 = 6;

/// Primitive values of a string type: OCTET STRING, BIT STRING, the
/// restricted character strings and times (universal 12..30), and every
/// primitive context-tagged value (IMPLICIT strings such as the `[0]`
/// subjectKeyIdentifier of a SignerInfo).
pub fn is_string_tag(tag: u8) -> bool {
    tag & 0x20 == 0 && (matches!(tag, 0x03 | 0x04 | 0x0c | 0x12..=0x1e) || tag & 0xc0 == 0x80)
}

/// The constructed spelling of a primitive string with `content`.
pub fn constructed_string(tag: u8, content: &[u8], variant: u8) -> Vec<u8> {
    let (kind, indef) = CONS_VARIANTS[variant as usize % CONS_VARIANTS.len()];
    // BIT STRING parts are BIT STRINGs with their own unused-bits octet, all others OCTET STRINGs
    let bits = tag == 0x03 && !content.is_empty();
    let (ptag, unused, data) = if bits { (0x03u8, content[0], &content[1..]) } else { (0x04u8, 0u8, content) };
    let part = |t: u8, chunk: &[u8], last: bool| -> Vec<u8> {
        let mut c = Vec::with_capacity(chunk.len() + 1);
        if bits { c.push(if last { unused } else { 0 }) }
        c.extend_from_slice(chunk);
        der::tlv(t, &c)
    };
    let l = data.len();
    let mid = l / 2;
    let mut parts: Vec<Vec<u8>> = Vec::new();
    match kind {
        ConsKind::Split(k) => {
            let p = match k { 0 => 1.min(l), 1 => mid, _ => l.saturating_sub(1) };
            parts.push(part(ptag, &data[..p], false)); parts.push(part(ptag, &data[p..], true));
        }
        ConsKind::DupLast => {
            parts.push(part(ptag, &data[..mid], false)); parts.push(part(ptag, &data[mid..], false)); parts.push(part(ptag, &data[mid..], true));
        }
        ConsKind::DropLastOctet => {
            parts.push(part(ptag, &data[..mid], false)); parts.push(part(ptag, &data[mid..l.saturating_sub(1).max(mid)], true));
        }
        ConsKind::Extra(n) => {
            parts.push(part(ptag, &data[..mid], false)); parts.push(part(ptag, &data[mid..], false));
            parts.push(part(ptag, &vec![0x5a; n as usize], true));
        }
        ConsKind::EmptyPart => {
            parts.push(part(ptag, &data[..mid], false)); parts.push(part(ptag, &[], false)); parts.push(part(ptag, &data[mid..], true));
        }
        ConsKind::Nested => {
            let q = mid / 2;
            let inner = der::cat(&[part(ptag, &data[..q], false), part(ptag, &data[q..mid], false)]);
            parts.push(der::tlv(ptag | 0x20, &inner)); parts.push(part(ptag, &data[mid..], true));
        }
        ConsKind::WrongInnerTag => {
            parts.push(part(ptag, &data[..mid], false)); parts.push(part(0x02, &data[mid..], true));
        }
        ConsKind::SinglePart => parts.push(part(ptag, data, true)),
    }
    let body = der::cat(&parts);
    let mut out = vec![tag | 0x20];
    if indef { out.push(0x80); out.extend_from_slice(&body); out.extend_from_slice(&[0, 0]) }
    else { out.extend(der::len_octets(body.len())); out.extend_from_slice(&body) }
    out
}

impl Op {
    pub fn is_length_form(self) -> bool {
        matches!(self, Op::LenIndef | Op::LenNonMin | Op::Cons(_))
    }
    pub fn is_length(self) -> bool {
        matches!(self, Op::LenDec | Op::LenInc | Op::LenZero | Op::LenIndef | Op::LenIndefNoEoc | Op::LenNonMin | Op::LenHuge)
    }
    pub fn name(self, tree: &Tree) -> String {
        match self {
            Op::Tag(t) => format!("tag={t:02x}"),
            Op::LenDec => "len-1".into(),
            Op::LenInc => "len+1".into(),
            Op::LenZero => "len=0".into(),
            Op::LenIndef => "len=indef".into(),
            Op::LenIndefNoEoc => "len=indef-noeoc".into(),
            Op::LenNonMin => "len=nonminimal".into(),
            Op::LenHuge => "len=84ffffffff".into(),
            Op::ContentShort => "content-1".into(),
            Op::Empty => "empty".into(),
            Op::OneZero => "zero".into(),
            Op::AllFf => "allff".into(),
            Op::FirstInc => "first+1".into(),
            Op::FirstDec => "first-1".into(),
            Op::LastInc => "last+1".into(),
            Op::LastDec => "last-1".into(),
            Op::Delete => "delete".into(),
            Op::Duplicate => "dup".into(),
            Op::SwapNext => "swapnext".into(),
            Op::Splice(s) => {
                let n = &tree.nodes[s as usize];
                format!("splice<-{}(tag{:02x})", n.path_str(), n.tag)
            }
            Op::Nest(d) => format!("nest-indef{d}"),
            Op::NestDef(d) => format!("nest-def{d}"),
            Op::Value(k) => format!("value#{k}"),
            Op::Pad(p) => format!("pad+{p}"),
            Op::Size(how, k) => format!("size:{}={}", ["pad-or-filler", "repeat-last", "grow-last-leaf"][how as usize % 3], SIZE_CLASSES[k as usize % SIZE_CLASSES.len()]),
            Op::List(l) => match l {
                ListOp::Reverse => "list:reverse".into(), ListOp::RotL => "list:first-to-end".into(), ListOp::RotR => "list:last-to-front".into(),
                ListOp::SortDesc => "list:sort-descending".into(), ListOp::DupModFirst => "list:dup-first-modified".into(), ListOp::DupModLast => "list:dup-last-modified".into(),
                ListOp::InsertFront(k) => format!("list:insert-front-boundary{k}"), ListOp::InsertEnd(k) => format!("list:insert-end-boundary{k}"),
            },
            Op::Cons(v) => {
                let (k, indef) = CONS_VARIANTS[v as usize % CONS_VARIANTS.len()];
                let k = match k {
                    ConsKind::Split(0) => "split-after-first".to_string(), ConsKind::Split(1) => "split-mid".into(), ConsKind::Split(_) => "split-before-last".into(),
                    ConsKind::DupLast => "last-part-twice".into(), ConsKind::DropLastOctet => "last-octet-dropped".into(),
                    ConsKind::Extra(n) => format!("extra-part{n}"), ConsKind::EmptyPart => "empty-part".into(), ConsKind::Nested => "nested-depth2".into(),
                    ConsKind::WrongInnerTag => "inner-tag02".into(), ConsKind::SinglePart => "single-part".into(),
                };
                format!("constructed:{k}{}", if indef { ":indef" } else { "" })
            }
        }
    }
}

/// One node of the flattened (pre-order) tree.
#[derive(Clone, Debug)]
pub struct Flat {
    pub tag: u8,
    pub start: usize,
    pub hdr: usize,
    /// content length (for an indefinite-length node: without the end-of-contents octets)
    pub len: usize,
    /// indefinite length form in the seed (header `80`, closed by `00 00`)
    pub indef: bool,
    pub parent: Option<usize>,
    pub children: Vec<usize>,
    /// number of nodes in the subtree including this one: descendants are
    /// the flat indexes `i+1 .. i+size`
    pub size: usize,
    pub path: Vec<usize>,
}

impl Flat {
    pub fn end(&self) -> usize { self.start + self.hdr + self.len + if self.indef { 2 } else { 0 } }
    pub fn content_end(&self) -> usize { self.start + self.hdr + self.len }
    pub fn path_str(&self) -> String {
        if self.path.is_empty() { "r".into() }
        else { self.path.iter().map(|x| x.to_string()).collect::<Vec<_>>().join(".") }
    }
}

#[derive(Clone, Debug)]
pub struct Tree {
    pub nodes: Vec<Flat>,
}

/// Reader node (definite or indefinite length).
struct RNode { tag: u8, start: usize, hdr: usize, len: usize, indef: bool, children: Vec<RNode> }

impl RNode {
    fn from_der(n: &Node) -> RNode {
        RNode { tag: n.tag, start: n.start, hdr: n.hdr, len: n.len, indef: false, children: n.children.iter().map(RNode::from_der).collect() }
    }
}

/// Parses TLVs in buf[pos..end]; with `until_eoc` stops at (and does not
/// consume) an end-of-contents marker. Returns the nodes and the position
/// reached.
fn parse_ber(buf: &[u8], mut pos: usize, end: usize, until_eoc: bool, depth: u32) -> Option<(Vec<RNode>, usize)> {
    let mut out = Vec::new();
    if depth > 48 { return None }
    loop {
        if pos >= end { return if until_eoc { None } else { Some((out, pos)) } }
        if until_eoc && pos + 1 < end && buf[pos] == 0 && buf[pos + 1] == 0 { return Some((out, pos)) }
        let tag = buf[pos];
        if tag & 0x1f == 0x1f || pos + 1 >= end { return None }
        let l0 = buf[pos + 1];
        if l0 == 0x80 {
            if tag & 0x20 == 0 { return None }
            let (children, p) = parse_ber(buf, pos + 2, end, true, depth + 1)?;
            out.push(RNode { tag, start: pos, hdr: 2, len: p - (pos + 2), indef: true, children });
            pos = p + 2;
            continue;
        }
        let (hdr, len) = if l0 < 0x80 { (2, l0 as usize) } else {
            let n = (l0 & 0x7f) as usize;
            if n > 4 || pos + 2 + n > end { return None }
            let mut v = 0usize;
            for k in 0..n { v = (v << 8) | buf[pos + 2 + k] as usize }
            (2 + n, v)
        };
        if pos + hdr + len > end { return None }
        let mut node = RNode { tag, start: pos, hdr, len, indef: false, children: Vec::new() };
        if tag & 0x20 != 0 {
            let (ch, p) = parse_ber(buf, pos + hdr, pos + hdr + len, false, depth + 1)?;
            if p != pos + hdr + len { return None }
            node.children = ch;
        } else if tag == 0x04 && len >= 2 {
            if let Some((ch, p)) = parse_ber(buf, pos + hdr, pos + hdr + len, false, depth + 1) {
                if p == pos + hdr + len && ch.len() == 1 && ch[0].tag & 0x20 != 0 { node.children = ch }
            }
        }
        out.push(node);
        pos += hdr + len;
    }
}

impl Tree {
    /// Parses `buf` as exactly one TLV, descending into constructed values
    /// and into primitive OCTET STRINGs that hold exactly one constructed
    /// TLV (extension values, eContent). The reader is E5's (`der::parse_one`)
    /// for definite-length input and an equally lenient one of our own when
    /// the object uses indefinite lengths (the BER objects in test-data);
    /// bcder is never involved.
    pub fn parse(buf: &[u8]) -> Option<Tree> {
        let root = match der::parse_one(buf, true) {
            Some(n) => RNode::from_der(&n),
            None => {
                let (v, end) = parse_ber(buf, 0, buf.len(), false, 0)?;
                if v.len() != 1 || end != buf.len() { return None }
                v.into_iter().next()?
            }
        };
        let mut nodes = Vec::new();
        fn rec(n: &RNode, parent: Option<usize>, path: &mut Vec<usize>, out: &mut Vec<Flat>) -> usize {
            let me = out.len();
            out.push(Flat { tag: n.tag, start: n.start, hdr: n.hdr, len: n.len, indef: n.indef, parent, children: Vec::new(), size: 1, path: path.clone() });
            let mut kids = Vec::new();
            for (k, c) in n.children.iter().enumerate() {
                path.push(k);
                kids.push(rec(c, Some(me), path, out));
                path.pop();
            }
            out[me].children = kids;
            out[me].size = out.len() - me;
            me
        }
        rec(&root, None, &mut Vec::new(), &mut nodes);
        Some(Tree { nodes })
    }

    pub fn len(&self) -> usize { self.nodes.len() }

    pub fn next_sibling(&self, i: usize) -> Option<usize> {
        let p = self.nodes[i].parent?;
        let ch = &self.nodes[p].children;
        let k = ch.iter().position(|&c| c == i)?;
        ch.get(k + 1).copied()
    }

    /// The first node (pre-order) of every distinct tag in the object.
    pub fn first_of_each_tag(&self) -> Vec<usize> {
        let mut seen = [false; 256];
        let mut out = Vec::new();
        for (i, n) in self.nodes.iter().enumerate() {
            if !seen[n.tag as usize] { seen[n.tag as usize] = true; out.push(i) }
        }
        out
    }

    /// The complete bound-1 operator menu at node `i` (operators that cannot
    /// change anything at this node are left out).
    pub fn full_menu(&self, i: usize, splice_src: &[usize]) -> Vec<Op> {
        let n = &self.nodes[i];
        let mut v = Vec::with_capacity(56);
        for &t in TAG_MENU.iter() { if t != n.tag { v.push(Op::Tag(t)) } }
        if n.len > 0 { v.push(Op::LenDec) }
        v.push(Op::LenInc);
        if n.len > 0 { v.push(Op::LenZero) }
        v.push(Op::LenIndef);
        v.push(Op::LenIndefNoEoc);
        v.push(Op::LenNonMin);
        v.push(Op::LenHuge);
        if n.len > 0 {
            v.push(Op::ContentShort);
            v.push(Op::Empty);
            v.push(Op::AllFf);
            v.push(Op::FirstInc);
            v.push(Op::FirstDec);
            v.push(Op::LastInc);
            v.push(Op::LastDec);
        }
        v.push(Op::OneZero);
        if is_string_tag(n.tag) { for k in 0..CONS_VARIANTS.len() as u8 { v.push(Op::Cons(k)) } }
        if n.children.is_empty() || n.tag & 0x20 == 0 { for k in 0..typed_value_count(n.tag) { v.push(Op::Value(k as u16)) } }
        for l in self.list_menu(i) { v.push(Op::List(l)) }
        if is_sized_tag(n.tag) {
            let constructed = n.tag & 0x20 != 0 && !n.children.is_empty();
            for k in 0..SIZE_CLASSES.len() as u8 {
                v.push(Op::Size(0, k));
                if constructed { v.push(Op::Size(1, k)); v.push(Op::Size(2, k)) }
            }
        }
        if n.parent.is_some() {
            v.push(Op::Delete);
            v.push(Op::Duplicate);
            if self.next_sibling(i).is_some() { v.push(Op::SwapNext) }
        }
        for &s in splice_src {
            if s != i && self.nodes[s].tag != n.tag { v.push(Op::Splice(s as u32)) }
        }
        v
    }

    /// A reduced menu (one representative per operator class) for the
    /// all-pairs spaces.
    pub fn reduced_menu(&self, i: usize) -> Vec<Op> {
        let n = &self.nodes[i];
        let mut v = Vec::with_capacity(20);
        for t in [0x02u8, 0x04, 0x30, 0x05] { if t != n.tag { v.push(Op::Tag(t)) } }
        if n.len > 0 { v.push(Op::LenDec) }
        v.push(Op::LenInc);
        if n.len > 0 { v.push(Op::LenZero) }
        v.push(Op::LenIndef);
        v.push(Op::LenNonMin);
        if n.len > 0 {
            v.push(Op::ContentShort);
            v.push(Op::Empty);
            v.push(Op::AllFf);
            v.push(Op::FirstInc);
            v.push(Op::LastDec);
        }
        v.push(Op::OneZero);
        if is_string_tag(n.tag) { v.push(Op::Cons(CONS_SPLIT_MID)); v.push(Op::Cons(CONS_DUP_LAST)) }
        if n.tag & 0x20 != 0 && n.children.len() >= 2 { v.push(Op::List(ListOp::Reverse)) }
        if n.parent.is_some() {
            v.push(Op::Delete);
            v.push(Op::Duplicate);
            if self.next_sibling(i).is_some() { v.push(Op::SwapNext) }
        }
        v
    }

    /// The list-shape operators applicable at node `i`.
    pub fn list_menu(&self, i: usize) -> Vec<ListOp> {
        let n = &self.nodes[i];
        let mut v = Vec::new();
        if n.tag & 0x20 == 0 || n.children.is_empty() { return v }
        let k = n.children.len();
        if k >= 2 { v.push(ListOp::Reverse); v.push(ListOp::RotL); if k >= 3 { v.push(ListOp::RotR) } v.push(ListOp::SortDesc); v.push(ListOp::DupModFirst) }
        v.push(ListOp::DupModLast);
        let has_leaf = |c: usize| (c..c + self.nodes[c].size).any(|j| matches!(self.nodes[j].tag, 0x02 | 0x03));
        if has_leaf(n.children[0]) { for b in 0..LIST_BOUNDARY { v.push(ListOp::InsertFront(b)) } }
        if has_leaf(*n.children.last().unwrap()) { for b in 0..LIST_BOUNDARY { v.push(ListOp::InsertEnd(b)) } }
        v
    }

    /// Applies all `ops` (at most one per node) to `seed`.
    pub fn apply(&self, seed: &[u8], ops: &[(usize, Op)]) -> Vec<u8> {
        let mut out = Vec::with_capacity(seed.len() + 16);
        self.emit(seed, 0, ops, &mut out);
        out
    }

    pub fn apply1(&self, seed: &[u8], i: usize, op: Op) -> Vec<u8> {
        self.apply(seed, &[(i, op)])
    }

    fn op_at(ops: &[(usize, Op)], i: usize) -> Option<Op> {
        ops.iter().find(|(j, _)| *j == i).map(|(_, o)| *o)
    }

    fn emit(&self, seed: &[u8], i: usize, ops: &[(usize, Op)], out: &mut Vec<u8>) {
        let n = &self.nodes[i];
        let mine = Self::op_at(ops, i);
        let below = ops.iter().any(|(j, _)| *j > i && *j < i + n.size);
        if mine.is_none() && !below {
            out.extend_from_slice(&seed[n.start..n.end()]);
            return;
        }
        // content, with the descendants' deviations applied
        let raw_content = &seed[n.start + n.hdr..n.content_end()];
        let listop = match mine { Some(Op::List(l)) if !n.children.is_empty() => Some(l), _ => None };
        let sizeop = match mine { Some(Op::Size(how, k)) if n.tag & 0x20 != 0 && !n.children.is_empty() => Some((how, SIZE_CLASSES[k as usize % SIZE_CLASSES.len()])), _ => None };
        let rebuilt: Option<Vec<u8>> = if below || listop.is_some() || sizeop.is_some() {
            let mut order: Vec<usize> = n.children.clone();
            let mut k = 0;
            while k + 1 < order.len() {
                if Self::op_at(ops, order[k]) == Some(Op::SwapNext) { order.swap(k, k + 1); k += 2 } else { k += 1 }
            }
            let mut kids: Vec<Vec<u8>> = order.iter().map(|&ch| { let mut c = Vec::new(); self.emit(seed, ch, ops, &mut c); c }).collect();
            if let Some(l) = listop { apply_list_op(&mut kids, l) }
            if let Some((how, target)) = sizeop { apply_size_op(&mut kids, how, target) }
            Some(kids.concat())
        } else { None };
        let content: &[u8] = rebuilt.as_deref().unwrap_or(raw_content);
        let raw_lenfield = &seed[n.start + 1..n.start + n.hdr];
        // the length octets that describe `content` truthfully
        // (an indefinite-length node keeps `80` ... `00 00`)
        let true_len: Vec<u8> = if n.indef { vec![0x80] } else if rebuilt.is_some() { der::len_octets(content.len()) } else { raw_lenfield.to_vec() };
        let eoc: &[u8] = if n.indef { &[0, 0] } else { &[] };
        let plain = |tag: u8, o: &mut Vec<u8>| {
            o.push(tag); o.extend_from_slice(&true_len); o.extend_from_slice(content); o.extend_from_slice(eoc);
        };
        let with_len = |lf: &[u8], c: &[u8], o: &mut Vec<u8>| {
            o.push(n.tag); o.extend_from_slice(lf); o.extend_from_slice(c);
            if lf == [0x80u8].as_slice() && n.indef { o.extend_from_slice(&[0, 0]) }
        };
        let l = content.len();
        match mine {
            None | Some(Op::SwapNext) | Some(Op::List(_)) => plain(n.tag, out),
            Some(Op::Size(_, _)) if sizeop.is_some() => plain(n.tag, out),
            Some(Op::Size(_, k)) => {
                let mut c = content.to_vec(); c.resize(SIZE_CLASSES[k as usize % SIZE_CLASSES.len()], 0);
                out.push(n.tag); out.extend(der::len_octets(c.len())); out.extend_from_slice(&c);
            }
            Some(Op::Pad(p)) => {
                let mut c = content.to_vec(); c.resize(l + p as usize, 0);
                out.push(n.tag); out.extend(der::len_octets(c.len())); out.extend_from_slice(&c);
            }
            Some(Op::Value(k)) => {
                let (t, c) = typed_value(n.tag, content, k as usize);
                out.push(t); out.extend(der::len_octets(c.len())); out.extend_from_slice(&c);
            }
            Some(Op::Tag(t)) => plain(t, out),
            Some(Op::LenDec) => with_len(&der::len_octets(l.saturating_sub(1)), content, out),
            Some(Op::LenInc) => with_len(&der::len_octets(l + 1), content, out),
            Some(Op::LenZero) => with_len(&[0], content, out),
            Some(Op::LenIndef) => { out.push(n.tag); out.push(0x80); out.extend_from_slice(content); out.extend_from_slice(&[0, 0]) }
            Some(Op::LenIndefNoEoc) => { out.push(n.tag); out.push(0x80); out.extend_from_slice(content) }
            Some(Op::LenNonMin) => with_len(&non_minimal_len(l), content, out),
            Some(Op::LenHuge) => with_len(&[0x84, 0xff, 0xff, 0xff, 0xff], content, out),
            Some(Op::ContentShort) => with_len(&true_len, &content[..l.saturating_sub(1)], out),
            Some(Op::Empty) => with_len(&[0], &[], out),
            Some(Op::OneZero) => with_len(&[1], &[0], out),
            Some(Op::AllFf) => with_len(&true_len, &vec![0xff; l], out),
            Some(op @ (Op::FirstInc | Op::FirstDec | Op::LastInc | Op::LastDec)) => {
                let mut c = content.to_vec();
                if l > 0 {
                    let (pos, d) = match op {
                        Op::FirstInc => (0, 1u8), Op::FirstDec => (0, 0xff),
                        Op::LastInc => (l - 1, 1), _ => (l - 1, 0xff),
                    };
                    c[pos] = c[pos].wrapping_add(d);
                }
                with_len(&true_len, &c, out)
            }
            Some(Op::Delete) => {}
            Some(Op::Duplicate) => { plain(n.tag, out); plain(n.tag, out) }
            Some(Op::Splice(s)) => {
                let src = &self.nodes[s as usize];
                out.extend_from_slice(&seed[src.start..src.end()]);
            }
            Some(Op::Nest(d)) => {
                for _ in 0..d { out.push(n.tag | 0x20); out.push(0x80) }
                plain(n.tag, out);
                for _ in 0..d { out.extend_from_slice(&[0, 0]) }
            }
            Some(Op::Cons(v)) => out.extend_from_slice(&constructed_string(n.tag, content, v)),
            Some(Op::NestDef(d)) => {
                let mut inner = Vec::new();
                plain(n.tag, &mut inner);
                // headers from the inside out
                let mut hdrs: Vec<Vec<u8>> = Vec::with_capacity(d as usize);
                let mut size = inner.len();
                for _ in 0..d {
                    let mut h = vec![n.tag | 0x20];
                    h.extend(der::len_octets(size));
                    size += h.len();
                    hdrs.push(h);
                }
                for h in hdrs.iter().rev() { out.extend_from_slice(h) }
                out.extend_from_slice(&inner);
            }
        }
    }
}

fn apply_list_op(kids: &mut Vec<Vec<u8>>, l: ListOp) {
    if kids.is_empty() { return }
    let bump = |e: &[u8]| { let mut c = e.to_vec(); if let Some(x) = c.last_mut() { *x = x.wrapping_add(1) } c };
    match l {
        ListOp::Reverse => kids.reverse(),
        ListOp::RotL => kids.rotate_left(1),
        ListOp::RotR => kids.rotate_right(1),
        ListOp::SortDesc => { kids.sort(); kids.reverse() }
        ListOp::DupModFirst => { let c = bump(&kids[0]); kids.insert(1, c) }
        ListOp::DupModLast => { let c = bump(kids.last().unwrap()); kids.push(c) }
        ListOp::InsertFront(b) => { let c = boundary_element(&kids[0], b); kids.insert(0, c) }
        ListOp::InsertEnd(b) => { let c = boundary_element(kids.last().unwrap(), b); kids.push(c) }
    }
}

/// A copy of `element` with every INTEGER and BIT STRING leaf set to
/// boundary value `b` (entries 0..5 of the respective typed value menus).
pub fn boundary_element(element: &[u8], b: u8) -> Vec<u8> {
    let Some(t) = Tree::parse(element) else { return element.to_vec() };
    let ops: Vec<(usize, Op)> = t.nodes.iter().enumerate()
        .filter(|(_, n)| n.tag == 0x02 || n.tag == 0x03)
        .map(|(i, _)| (i, Op::Value(b as u16))).collect();
    t.apply(element, &ops)
}

/// Long-form length with one superfluous leading octet: 5 → `81 05`,
/// 200 → `82 00 C8`.
pub fn non_minimal_len(n: usize) -> Vec<u8> {
    if n < 0x80 { return vec![0x81, n as u8] }
    let min = der::len_octets(n);
    let k = (min[0] & 0x7f) + 1;
    let mut out = vec![0x80 | k, 0x00];
    out.extend_from_slice(&min[1..]);
    out
}

//------------ raw octets -----------------------------------------------------

pub fn truncate(seed: &[u8], k: usize) -> &[u8] { &seed[..k.min(seed.len())] }

pub fn set_byte(seed: &[u8], pos: usize, v: u8) -> Vec<u8> {
    let mut o = seed.to_vec(); o[pos] = v; o
}

pub fn flip_bit(seed: &[u8], pos: usize, bit: u8) -> Vec<u8> {
    let mut o = seed.to_vec(); o[pos] ^= 1 << (bit & 7); o
}

/// The offsets at which raw-octet operators are applied: every offset for
/// seeds of at most `full_below` octets; for larger seeds the first and last
/// 512 octets plus, for every TLV node, its header octets and its first and
/// last two content octets.
pub fn byte_positions(seed: &[u8], tree: Option<&Tree>, full_below: usize) -> Vec<usize> {
    if seed.len() <= full_below { return (0..seed.len()).collect() }
    let mut mark = vec![false; seed.len()];
    for p in 0..512.min(seed.len()) { mark[p] = true }
    for p in seed.len().saturating_sub(512)..seed.len() { mark[p] = true }
    if let Some(t) = tree {
        for n in &t.nodes {
            for p in n.start..n.start + n.hdr { mark[p] = true }
            let (a, b) = (n.start + n.hdr, n.end());
            for p in a..(a + 2).min(b) { mark[p] = true }
            for p in b.saturating_sub(2).max(a)..b { mark[p] = true }
        }
    }
    (0..seed.len()).filter(|&p| mark[p]).collect()
}

/// All octet strings of length 0..=max_len in shortlex order, by index.
pub fn short_string(mut idx: u64, out: &mut Vec<u8>) {
    out.clear();
    let mut n = 0u32;
    loop {
        let c = 256u64.pow(n);
        if idx < c { break }
        idx -= c; n += 1;
    }
    for k in (0..n).rev() { out.push((idx >> (8 * k)) as u8) }
}

pub fn short_string_count(max_len: u32) -> u64 { (0..=max_len).map(|n| 256u64.pow(n)).sum() }

//------------ token-level operators for text entry points ------------------------

#[derive(Clone, Copy, Debug, PartialEq, Eq)]
pub enum TokOp { Reverse, RotL, RotR, SortDesc, Dup(u16), Delete(u16), SwapNext(u16), Replace(u16, u16), Insert(u16, u16) }

pub fn split_tokens<'a>(text: &'a [u8], delim: &[u8]) -> Vec<&'a [u8]> {
    let mut out = Vec::new();
    let mut start = 0;
    let mut i = 0;
    while i + delim.len() <= text.len() {
        if &text[i..i + delim.len()] == delim { out.push(&text[start..i]); i += delim.len(); start = i } else { i += 1 }
    }
    out.push(&text[start..]);
    out
}

/// Every token-level case for `ntok` tokens and a replacement menu of `nmenu` tokens.
pub fn token_ops(ntok: usize, nmenu: usize) -> Vec<TokOp> {
    let mut v = vec![TokOp::Reverse, TokOp::RotL, TokOp::RotR, TokOp::SortDesc];
    for k in 0..ntok as u16 {
        v.push(TokOp::Dup(k)); v.push(TokOp::Delete(k));
        if (k as usize) + 1 < ntok { v.push(TokOp::SwapNext(k)) }
        for m in 0..nmenu as u16 { v.push(TokOp::Replace(k, m)) }
    }
    for pos in 0..=ntok as u16 { for m in 0..nmenu as u16 { v.push(TokOp::Insert(pos, m)) } }
    v
}

pub fn token_apply(tokens: &[&[u8]], delim: &[u8], op: TokOp, menu: &[&[u8]]) -> Vec<u8> {
    let mut t: Vec<Vec<u8>> = tokens.iter().map(|x| x.to_vec()).collect();
    match op {
        TokOp::Reverse => t.reverse(),
        TokOp::RotL => { if !t.is_empty() { t.rotate_left(1) } }
        TokOp::RotR => { if !t.is_empty() { t.rotate_right(1) } }
        TokOp::SortDesc => { t.sort(); t.reverse() }
        TokOp::Dup(k) => { let c = t[k as usize].clone(); t.insert(k as usize, c) }
        TokOp::Delete(k) => { t.remove(k as usize); }
        TokOp::SwapNext(k) => t.swap(k as usize, k as usize + 1),
        TokOp::Replace(k, m) => t[k as usize] = menu[m as usize].to_vec(),
        TokOp::Insert(p, m) => t.insert(p as usize, menu[m as usize].to_vec()),
    }
    t.join(delim)
}

pub fn tok_name(op: TokOp, menu: &[&[u8]]) -> String {
    let m = |i: u16| String::from_utf8_lossy(menu[i as usize]).replace(' ', "_").replace('\n', "\\n");
    match op {
        TokOp::Reverse => "tok:reverse".into(), TokOp::RotL => "tok:first-to-end".into(), TokOp::RotR => "tok:last-to-front".into(), TokOp::SortDesc => "tok:sort-descending".into(),
        TokOp::Dup(k) => format!("tok[{k}]:dup"), TokOp::Delete(k) => format!("tok[{k}]:delete"), TokOp::SwapNext(k) => format!("tok[{k}]:swapnext"),
        TokOp::Replace(k, i) => format!("tok[{k}]:=<{}>", m(i)), TokOp::Insert(p, i) => format!("tok:insert@{p}<{}>", m(i)),
    }
}
