//! C04 — decoders never panic or run away on arbitrary input; every accessor
//! of a successfully decoded value is panic-free.
//!
//! Level: fault_enumeration. Nothing here is sampled: every space is a finite
//! list of cases, each a pure function of (seed, index).
//!
//! Seeds: every file of a decodable type under `<repo>/test-data` (empty
//! files skipped; base64 payloads of `serde-compat/*.json` included) plus
//! freshly built objects of every type (library builders and, for objects
//! whose signed parts are to be rewritten, the independent encoder E5).
//!
//! Entry points (21 with modes; the last two are AsBlocks::from_str and
//! IpBlocks::from_str): Cert, Crl, Manifest s/r, Roa s/r, Aspa s/r,
//! Rta s/r, Tal::read_named, PublicKey, RpkiCaCsr, BgpsecCsr, IdCert,
//! SignedMessage s/r, ProvisioningCms, PublicationCms.
//!
//! Spaces:
//!  * bound0.seeds — the seeds themselves;
//!  * bound1.single_deviation — every E4 operator at every TLV node, every
//!    truncation, every octet := {00,7F,80,FF} (thorough: every bit flip);
//!  * bound1.resigned — every operator at every node of a to-be-signed part
//!    of a fresh object, which is then signed again with the pool keys, so
//!    that the code behind the signature checks (revocation lookup of a
//!    signed message, resource verification, content verification) is
//!    reached with deviating input;
//!  * bound2.* (thorough) — all pairs from a reduced menu and (length-form
//!    operator) x (any operator) on one seed per type;
//!  * strings.short — all octet strings up to 2 (3) octets into every entry
//!    point;
//!  * worker.selftest — a planted abort / address-space exhaustion / hang /
//!    stack overflow must each be isolated by the machinery;
//!  * time.growth — the time clause: per-thread CPU time of the decode and of
//!    every accessor on crafted objects of n = 1k / 4k / 16k (CRLs 64k)
//!    elements next to an ordinary object of the same size. Judged (growth
//!    well above linear, or far above the ordinary object, each with an
//!    absolute margin) are the decoding entry points; what is done with the
//!    decoded value is held to panic-freedom and to returning, its growth is
//!    recorded in the evidence; an accessor the property names that needs
//!    20x and a second more than on the ordinary object of the same size has
//!    not returned in any time commensurate with its input (accessor_runaway).
//!    Crafted families include, for every keyed collection (CRL serials,
//!    manifest names and hashes, ASPA providers, ROA prefixes, certificate
//!    resource entries), keys that agree in their low / high k octets, in all
//!    but every k-th octet, in the middle, or under word-wise XOR / sum;
//!  * rta.validation.matrix — fresh RTAs over chains of depth 0..3 with every
//!    inherit / blocks / absent combination per family and certificate, issuers
//!    embedded or supplied, overclaim policies, one or two signers; after
//!    `Validation::new_at` every order of `supply_tal` / `supply_ca` calls with
//!    `finalize` at every point;
//!  * bound1.segmented_strings — the segmentation dimension: every primitive
//!    string-typed node (length L) re-spelled as a BER constructed string whose
//!    pieces total L-1, L, L+1, L+L/2 or 2L: all two-piece splits at every
//!    position, a three-piece menu, one level of nested pieces, indefinite
//!    outer length; into the relaxed entry points (thorough: all);
//!  * environment.logging / environment.logging.resigned — what an earlier
//!    call may have left switched on: every other space runs with the `log`
//!    crate's process-global level at Off; here the worker raises it to Trace
//!    with a logger that formats every record, and runs every seed as it is,
//!    the complete bound-1 list of one seed per type and of every text seed,
//!    a reduced bound-1 list of all others, and the reduced menu on the
//!    to-be-signed parts (re-signed);
//!  * accessor.sequences — every sequence of up to three (thorough: four)
//!    calls over the methods of a decoded Crl / Manifest / Roa / Aspa / Cert /
//!    Tal / Rta / block list, and every interleaving of two live iterators.
//!
//! After EVERY successful decode the full accessor sweep of the decoded type
//! runs, each accessor group under its own oracle (`C04.reencode`,
//! `C04.crl.contains`, `C04.mft.iter_uris`, ...). A witness starts with
//! `mode=<strict|relaxed|der|text>;cause=<captured-mode|panic|bound|abort|hang>`
//! so that a known finding can be keyed narrowly.
//!
//! Every case runs in a worker subprocess (this binary re-executed with
//! `--c04-worker`, RLIMIT_AS 2 GiB, a wall budget per batch, a Source-call
//! budget per decode). A worker that dies or stalls gets its batch bisected
//! to the single input, which is confirmed alone on a fresh worker and then
//! reported as a violation (`C04.worker.abort` / `C04.worker.hang`); failures
//! of the worker machinery itself are machinery errors (exit 2).

#![allow(deprecated)]

#[path = "../shared/mutate.rs"]
mod mutate;

use std::cell::Cell;
use std::collections::{BTreeMap, HashMap, HashSet, VecDeque};
use std::io::{BufRead, BufReader, Read, Write};
use std::process::{Child, ChildStdin, Command, Stdio};
use std::str::FromStr;
use std::sync::mpsc::{self, Receiver, RecvTimeoutError};
use std::sync::{Arc, Mutex};
use std::time::{Duration, Instant};

use base64::Engine as _;
use bcder::decode::{Pos, Source};
use bcder::encode::Values as _;
use bcder::encode::PrimitiveContent as _;
use bcder::Mode;
use bytes::Bytes;
use rayon::prelude::*;
use serde_json::{json, Value};

use rpki::ca::csr::{BgpsecCsr, Csr, RpkiCaCsr};
use rpki::ca::idcert::IdCert;
use rpki::ca::provisioning::{self, ProvisioningCms};
use rpki::ca::publication::{self, PublicationCms};
use rpki::ca::sigmsg::SignedMessage;
use rpki::crypto::keys::PublicKey;
use rpki::crypto::{DigestAlgorithm, RpkiSignature, RpkiSignatureAlgorithm};
use rpki::repository::aspa::{Aspa, AspaBuilder};
use rpki::repository::cert::{Cert, Overclaim, ResourceCert};
use rpki::repository::crl::{Crl, CrlEntry, CrlStore, TbsCertList};
use rpki::repository::manifest::{FileAndHash, Manifest, ManifestContent};
use rpki::repository::resources::{AsBlocks, AsResources, Asn, IpBlock, IpBlocks, IpResources, Ipv4Blocks, Ipv6Blocks, Prefix};
use rpki::repository::roa::{Roa, RoaBuilder};
use rpki::repository::rta;
use rpki::repository::sigobj::SignedObjectBuilder;
use rpki::repository::tal::Tal;
use rpki::repository::x509::{Serial, Time, Validity};
use rpki::uri;

use rpki_verif::engine::der;
use rpki_verif::engine::pki::{self, Claim, Res, Spec};
use rpki_verif::engine::report::{install_quiet_panic_hook, repo_dir};
use rpki_verif::engine::signer::{self, Kid, PoolSigner};
use rpki_verif::{guard, hex, trunc, Ctx};

use mutate::{Op, Tree};

const WORKER_ARG: &str = "--c04-worker";
/// Address-space cap of a worker.
const WORKER_AS_LIMIT: u64 = 2 << 30;
/// Seeds up to this size get raw-octet operators at every offset.
const FULL_BYTES_BELOW: usize = 16 * 1024;
/// Source calls allowed for decoding n octets: STEP_C * n + STEP_K.
const STEP_C: u64 = 64;
const STEP_K: u64 = 1024;

//============ seeds ============================================================

#[derive(Clone, Copy, Debug, PartialEq, Eq, PartialOrd, Ord, Hash)]
enum Kind { Cert, Crl, Mft, Roa, Aspa, Rta, Tal, Key, CsrCa, CsrBgp, IdCert, Sig, AsText, IpText }

#[derive(Clone, Copy, Debug, PartialEq, Eq, PartialOrd, Ord, Hash)]
enum Ep {
    Cert, Crl, MftS, MftR, RoaS, RoaR, AspaS, AspaR, RtaS, RtaR, Tal, Key, CsrCa, CsrBgp, IdCert,
    SigS, SigR, ProvCms, PubCms, AsText, IpText,
}

const ALL_EPS: [Ep; 21] = [
    Ep::Cert, Ep::Crl, Ep::MftS, Ep::MftR, Ep::RoaS, Ep::RoaR, Ep::AspaS, Ep::AspaR, Ep::RtaS, Ep::RtaR,
    Ep::Tal, Ep::Key, Ep::CsrCa, Ep::CsrBgp, Ep::IdCert, Ep::SigS, Ep::SigR, Ep::ProvCms, Ep::PubCms, Ep::AsText, Ep::IpText,
];

impl Ep {
    fn name(self) -> &'static str {
        match self {
            Ep::Cert => "cert", Ep::Crl => "crl", Ep::MftS | Ep::MftR => "mft", Ep::RoaS | Ep::RoaR => "roa",
            Ep::AspaS | Ep::AspaR => "aspa", Ep::RtaS | Ep::RtaR => "rta", Ep::Tal => "tal", Ep::Key => "pubkey",
            Ep::CsrCa => "csr-ca", Ep::CsrBgp => "csr-bgpsec", Ep::IdCert => "idcert",
            Ep::SigS | Ep::SigR => "sigmsg", Ep::ProvCms => "provcms", Ep::PubCms => "pubcms",
            Ep::AsText => "asblocks-text", Ep::IpText => "ipblocks-text",
        }
    }
    /// The decode mode as it appears at the front of every witness.
    fn mode(self) -> &'static str {
        match self {
            Ep::MftS | Ep::RoaS | Ep::AspaS | Ep::RtaS | Ep::SigS => "strict",
            Ep::MftR | Ep::RoaR | Ep::AspaR | Ep::RtaR | Ep::SigR | Ep::ProvCms | Ep::PubCms => "relaxed",
            Ep::Tal | Ep::AsText | Ep::IpText => "text",
            _ => "der",
        }
    }
    fn idx(self) -> usize { ALL_EPS.iter().position(|e| *e == self).unwrap() }
}

fn eps_for(kind: Kind) -> &'static [Ep] {
    match kind {
        Kind::Cert => &[Ep::Cert, Ep::IdCert],
        Kind::IdCert => &[Ep::IdCert, Ep::Cert],
        Kind::Crl => &[Ep::Crl],
        Kind::Mft => &[Ep::MftS, Ep::MftR],
        Kind::Roa => &[Ep::RoaS, Ep::RoaR],
        Kind::Aspa => &[Ep::AspaS, Ep::AspaR],
        Kind::Rta => &[Ep::RtaS, Ep::RtaR],
        Kind::Tal => &[Ep::Tal],
        Kind::Key => &[Ep::Key],
        Kind::CsrCa => &[Ep::CsrCa, Ep::CsrBgp],
        Kind::CsrBgp => &[Ep::CsrBgp, Ep::CsrCa],
        Kind::Sig => &[Ep::SigS, Ep::SigR, Ep::ProvCms, Ep::PubCms],
        Kind::AsText => &[Ep::AsText],
        Kind::IpText => &[Ep::IpText],
    }
}

struct Seed {
    name: String,
    kind: Kind,
    /// the octets handed to the entry point
    bytes: Vec<u8>,
    /// for TAL seeds: the text before the base64 block; the TLV tree is then
    /// that of the decoded key and a node-level case is re-wrapped as
    /// `prefix + base64(mutated key)`
    tal_prefix: Option<Vec<u8>>,
    /// the DER the tree operators work on (== bytes unless TAL)
    der: Vec<u8>,
    tree: Option<Tree>,
    fresh: bool,
    /// run as it is only (its own space), not mutated
    own_space: bool,
    /// part of the count / scale sweep: run as it is (space scale.lists), not mutated
    no_mutate: bool,
}

impl Seed {
    fn new(name: &str, kind: Kind, bytes: Vec<u8>, fresh: bool) -> Seed {
        let (tal_prefix, der) = if kind == Kind::Tal { split_tal(&bytes) } else { (None, bytes.clone()) };
        let tree = if matches!(kind, Kind::AsText | Kind::IpText) { None } else { Tree::parse(&der) };
        Seed { name: name.to_string(), kind, bytes, tal_prefix, der, tree, fresh, own_space: false, no_mutate: false }
    }
    fn wrap(&self, der: Vec<u8>) -> Vec<u8> {
        match &self.tal_prefix {
            None => der,
            Some(p) => {
                let mut out = p.clone();
                let b64 = base64::engine::general_purpose::STANDARD.encode(&der);
                for chunk in b64.as_bytes().chunks(64) { out.extend_from_slice(chunk); out.push(b'\n') }
                out
            }
        }
    }
}

/// Splits a TAL into (text up to and including the empty line, decoded key).
fn split_tal(text: &[u8]) -> (Option<Vec<u8>>, Vec<u8>) {
    let mut pos = 0;
    let mut split = None;
    while pos < text.len() {
        let end = text[pos..].iter().position(|&c| c == b'\n').map(|k| pos + k + 1).unwrap_or(text.len());
        let line = &text[pos..end];
        let trimmed: Vec<u8> = line.iter().copied().filter(|c| *c != b'\r' && *c != b'\n').collect();
        if trimmed.is_empty() { split = Some(end); break }
        pos = end;
    }
    match split {
        Some(s) => {
            let b64: Vec<u8> = text[s..].iter().copied().filter(|c| !c.is_ascii_whitespace()).collect();
            match base64::engine::general_purpose::STANDARD.decode(&b64) {
                Ok(d) => (Some(text[..s].to_vec()), d),
                Err(_) => (None, Vec::new()),
            }
        }
        None => (None, Vec::new()),
    }
}

fn classify(rel: &str) -> Option<Kind> {
    let ext = rel.rsplit('.').next().unwrap_or("");
    if rel.contains("aspa-content") || rel.contains("private") { return None }
    match ext {
        "cer" => Some(if rel.starts_with("ca/") { Kind::IdCert } else { Kind::Cert }),
        "crl" => Some(Kind::Crl),
        "mft" | "bad-filename" => Some(Kind::Mft),
        "roa" => Some(Kind::Roa),
        "asa" => Some(Kind::Aspa),
        "tal" => Some(Kind::Tal),
        "ber" => Some(Kind::Sig),
        "der" => {
            if rel.contains("rfc6492/") || rel.contains("sigmsg/") { Some(Kind::Sig) }
            else if rel.ends_with("router-csr.der") { Some(Kind::CsrBgp) }
            else if rel.ends_with("-csr.der") { Some(Kind::CsrCa) }
            else if rel.contains("public") { Some(Kind::Key) }
            else { None }
        }
        _ => None,
    }
}

fn load_test_data(seeds: &mut Vec<Seed>, skipped: &mut Vec<String>) {
    let root = format!("{}/test-data", repo_dir());
    let mut files = Vec::new();
    fn walk(dir: &std::path::Path, out: &mut Vec<std::path::PathBuf>) {
        let mut ents: Vec<_> = match std::fs::read_dir(dir) { Ok(r) => r.filter_map(|e| e.ok()).map(|e| e.path()).collect(), Err(_) => return };
        ents.sort();
        for p in ents { if p.is_dir() { walk(&p, out) } else { out.push(p) } }
    }
    walk(std::path::Path::new(&root), &mut files);
    for p in files {
        let rel = p.strip_prefix(&root).unwrap().to_string_lossy().to_string();
        let Ok(bytes) = std::fs::read(&p) else { continue };
        if bytes.is_empty() { continue }
        if rel.contains("serde-compat/") && rel.ends_with(".json") {
            // a JSON string holding the base64 of the DER object
            let kind = if rel.ends_with("cert.json") { Kind::Cert } else if rel.ends_with("crl.json") { Kind::Crl }
                else if rel.ends_with("manifest.json") { Kind::Mft } else if rel.ends_with("roa.json") { Kind::Roa } else { continue };
            if let Ok(Value::String(s)) = serde_json::from_slice::<Value>(&bytes) {
                if let Ok(d) = base64::engine::general_purpose::STANDARD.decode(s.as_bytes()) {
                    seeds.push(Seed::new(&format!("{rel}#b64"), kind, d, false));
                    continue;
                }
            }
            skipped.push(rel);
            continue;
        }
        match classify(&rel) {
            Some(k) => seeds.push(Seed::new(&rel, k, bytes, false)),
            None => {
                let ext = rel.rsplit('.').next().unwrap_or("");
                if matches!(ext, "der" | "cer" | "ber") { skipped.push(rel) }
            }
        }
    }
}

//============ environment (identical in parent and workers) =====================

struct Env {
    signer: PoolSigner,
    seeds: Vec<Seed>,
    skipped: Vec<String>,
    /// fixed issuers with the instant at which they are used
    issuers: Vec<(ResourceCert, Time)>,
    /// fixed issuer keys (identity certificates, CRLs, signed messages)
    keys: Vec<(PublicKey, Time)>,
    tal: Option<Tal>,
    base: uri::Rsync,
    some_sig: RpkiSignature,
    rs: Vec<RsSeed>,
    fx: Fixtures,
}

/// Pre-built parts of the E5-assembled fresh objects.
struct Fixtures {
    ee_cert_der: Vec<u8>,   // EE under the pool CA, key 2, 10.0.0.0/24 + AS64496
    ee_inherit_der: Vec<u8>,// EE with inherited resources (manifest)
    ee_as_der: Vec<u8>,     // EE with AS64496 only (ASPA)
    id_ee_der: Vec<u8>,     // identity EE, key 7, issued by key 0
    id_tbs: Vec<u8>,
    sig_crl_tbs: Vec<u8>,
    prov_xml: Vec<u8>,
    roa_econtent: Vec<u8>,
    mft_econtent: Vec<u8>,
    aspa_econtent: Vec<u8>,
    // parts of the E5-assembled RTAs
    ca_cert_der: Vec<u8>,
    ca_crl_der: Vec<u8>,
    edge_ee_der: Vec<u8>,
    att_single: Vec<u8>,
    att_multi: Vec<u8>,
    /// EE under the pool CA with one covering block per family (objects of the time space)
    tm_ee_der: Vec<u8>,
}

fn t0() -> Time { pki::time(pki::T0) }
fn long_validity() -> Validity { Validity::new(pki::time(pki::T0 - 86_400), Time::utc(2123, 11, 14, 0, 0, 0)) }
fn rsync(s: &str) -> uri::Rsync { uri::Rsync::from_str(s).unwrap() }

fn civil(y: i32, mo: u32, d: u32) -> der::Civil { der::Civil { y, mo, d, h: 0, mi: 0, s: 0 } }

fn ca_res() -> Res {
    Res {
        v4: Claim::Blocks(vec![(0x0a00_0000, 0x0aff_ffff), (0xc000_0200, 0xc000_024d)]),
        v6: Claim::Blocks(vec![(0x2001_0db8u128 << 96, (0x2001_0db8u128 << 96) | ((1u128 << 96) - 1))]),
        asn: Claim::Blocks(vec![(64496, 64511), (65000, 65000)]),
    }
}

fn spec_with(mut s: Spec, serial: u128) -> Spec { s.validity = long_validity(); s.serial = serial; s }

/// CMS SignedData assembled with the independent encoder and signed with pool keys.
fn e5_signed_object(signer: &PoolSigner, ct: &[u64], econtent: &[u8], ee_cert: &[u8], ee_key: usize,
                    crls: Vec<Vec<u8>>, real_sig: bool) -> Vec<u8> {
    let digest = signer::sha256(econtent);
    let attrs = vec![
        der::attr_content_type(ct),
        der::attr_signing_time(der::utctime(der::Civil { y: 2023, mo: 11, d: 14, h: 22, mi: 13, s: 20 })),
        der::attr_message_digest(&digest),
    ];
    let signature = if real_sig { signer.sign_raw(ee_key, &der::signed_attrs_tbs(&attrs)) } else { vec![0u8; 256] };
    der::signed_data(&der::SignedDataParts {
        version: 3,
        digest_alg_set: der::set_of(&[der::alg_sha256(false)]),
        econtent_type: ct.to_vec(),
        econtent: econtent.to_vec(),
        certificates: vec![ee_cert.to_vec()],
        crls,
        si_version: 3,
        sid: signer.ski(ee_key).as_slice().to_vec(),
        si_digest_alg: der::alg_sha256(false),
        signed_attrs: attrs,
        sig_alg: der::alg_rsa_encryption(),
        signature,
    })
}

const OID_CT_RTA: &[u64] = &[1, 2, 840, 113549, 1, 9, 16, 1, 36];

fn rta_attrs(content: &[u8]) -> Vec<Vec<u8>> {
    vec![
        der::attr_content_type(OID_CT_RTA),
        der::attr_signing_time(der::utctime(der::Civil { y: 2023, mo: 11, d: 14, h: 22, mi: 13, s: 20 })),
        der::attr_message_digest(&signer::sha256(content)),
    ]
}

/// A multi-signer RTA by the independent encoder. `attrs_tbs` replaces the
/// signed attributes of the first signer (given in their to-be-signed SET form).
fn e5_rta(signer: &PoolSigner, content: &[u8], certs: &[&[u8]], crls: &[&[u8]], signers: &[usize], real_sig: bool, attrs_tbs: Option<&[u8]>) -> Vec<u8> {
    let infos: Vec<Vec<u8>> = signers.iter().enumerate().map(|(i, &k)| {
        let tbs = match (i, attrs_tbs) { (0, Some(t)) => t.to_vec(), _ => der::signed_attrs_tbs(&rta_attrs(content)) };
        let sig = if real_sig { signer.sign_raw(k, &tbs) } else { vec![0u8; 256] };
        // on the wire the attributes are [0] IMPLICIT
        let mut wire = tbs.clone();
        if wire.first() == Some(&0x31) { wire[0] = 0xa0 }
        der::seq(&[der::int_u(3), der::ctx(0, false, signer.ski(k).as_slice()), der::alg_sha256(false), wire, der::alg_rsa_encryption(), der::octets(&sig)])
    }).collect();
    let mut sd = vec![
        der::int_u(3),
        der::set_of(&[der::alg_sha256(false)]),
        der::seq(&[der::oid(OID_CT_RTA), der::ctx(0, true, &der::octets(content))]),
        der::ctx(0, true, &certs.concat()),
    ];
    if !crls.is_empty() { sd.push(der::ctx(1, true, &crls.concat())) }
    sd.push(der::set_unsorted(&infos));
    der::seq(&[der::oid(der::OID_SIGNED_DATA), der::ctx(0, true, &der::seq(&sd))])
}

fn sign_wrap(signer: &PoolSigner, key: usize, tbs: &[u8], real_sig: bool) -> Vec<u8> {
    if real_sig { pki::sign_tbs(signer, key, tbs) }
    else { der::seq(&[tbs.to_vec(), der::alg_sha256_with_rsa(), der::bitstring(0, &[0u8; 256])]) }
}

/// TBSCertList for the CRL inside a signed message, by the independent encoder.
fn e5_sig_crl_tbs(signer: &PoolSigner) -> Vec<u8> {
    let name = der::seq(&[der::set_unsorted(&[der::seq(&[
        der::oid(&[2, 5, 4, 3]),
        der::printable(&hex(signer.ski(0).as_slice())),
    ])])]);
    let entry = |serial: u128, day: u32| der::seq(&[der::int_u(serial), der::utctime(civil(2023, 11, day))]);
    let exts = der::ctx(0, true, &der::seq(&[
        der::seq(&[der::oid(&[2, 5, 29, 35]), der::octets(&der::seq(&[der::ctx(0, false, signer.ski(0).as_slice())]))]),
        der::seq(&[der::oid(&[2, 5, 29, 20]), der::octets(&der::int_u(7))]),
    ]));
    der::seq(&[
        der::int_u(1),
        der::alg_sha256_with_rsa(),
        name,
        der::utctime(civil(2023, 11, 13)),
        der::gentime(civil(2123, 11, 14)),
        der::seq(&[entry(3, 1), entry(0x1234_5678_9abc, 2), entry(77, 3)]),
        exts,
    ])
}

fn tlv_child<'a>(buf: &'a [u8], path: &[usize]) -> &'a [u8] {
    let root = der::parse_one(buf, false).expect("well-formed DER");
    let mut n = &root;
    for &k in path { n = &n.children[k] }
    n.whole(buf)
}

fn build_env(thorough: bool) -> Env {
    let signer = PoolSigner::load();
    let mut seeds = Vec::new();
    let mut skipped = Vec::new();
    load_test_data(&mut seeds, &mut skipped);

    //--- fresh certificate chain: TA(key0) -> CA(key1) -> EE(key2) / router
    let ta_spec = spec_with(Spec::ta(0, Res::all()), 1);
    let ta_der = pki::build_cert_der(&signer, &ta_spec);
    let ta = Cert::decode(ta_der.as_slice()).expect("fresh TA decodes")
        .validate_ta_at(pki::tal(), true, t0()).expect("fresh TA validates");
    let ca_spec = spec_with(Spec::issued(pki::Kind::Ca, 1, 0, ta.subject_key_identifier(), ca_res(), Overclaim::Refuse), 2);
    let ca_der = pki::build_cert_der(&signer, &ca_spec);
    let ca = Cert::decode(ca_der.as_slice()).expect("fresh CA decodes")
        .validate_ca_at(&ta, true, t0()).expect("fresh CA validates");
    let ee_res = Res { v4: Claim::Blocks(vec![(0x0a00_0000, 0x0a00_01ff)]), v6: Claim::Blocks(vec![(0x2001_0db8u128 << 96, (0x2001_0db8u128 << 96) | ((1u128 << 80) - 1))]), asn: Claim::Missing };
    let ee_spec = spec_with(Spec::issued(pki::Kind::Ee, 2, 1, ca.subject_key_identifier(), ee_res, Overclaim::Refuse), 3);
    let ee_der = pki::build_cert_der(&signer, &ee_spec);
    let ee_inh = spec_with(Spec::issued(pki::Kind::Ee, 2, 1, ca.subject_key_identifier(),
        Res { v4: Claim::Inherit, v6: Claim::Inherit, asn: Claim::Inherit }, Overclaim::Refuse), 4);
    let ee_inh_der = pki::build_cert_der(&signer, &ee_inh);
    let ee_as = spec_with(Spec::issued(pki::Kind::Ee, 2, 1, ca.subject_key_identifier(),
        Res { v4: Claim::Missing, v6: Claim::Missing, asn: Claim::Blocks(vec![(64496, 64496)]) }, Overclaim::Refuse), 5);
    let ee_as_der = pki::build_cert_der(&signer, &ee_as);
    let router_spec = spec_with(Spec::issued(pki::Kind::Router, 3, 1, ca.subject_key_identifier(),
        Res { v4: Claim::Missing, v6: Claim::Missing, asn: Claim::Blocks(vec![(64496, 64497)]) }, Overclaim::Refuse), 6);
    let router_der = pki::build_cert_der(&signer, &router_spec);
    seeds.push(Seed::new("fresh/ta.cer", Kind::Cert, ta_der.clone(), true));
    seeds.push(Seed::new("fresh/ca.cer", Kind::Cert, ca_der.clone(), true));
    seeds.push(Seed::new("fresh/ee.cer", Kind::Cert, ee_der.clone(), true));
    seeds.push(Seed::new("fresh/router.cer", Kind::Cert, router_der.clone(), true));

    //--- CRL of the CA (library builder)
    let crl = TbsCertList::new(
        RpkiSignatureAlgorithm::default(), signer.public(1).to_subject_name(), pki::time(pki::T0 - 3600),
        Time::utc(2123, 11, 14, 0, 0, 0),
        vec![CrlEntry::new(Serial::from(9u64), pki::time(pki::T0 - 7200)),
             CrlEntry::new(Serial::from(0x7fff_ffff_ffff_ffffu64), pki::time(pki::T0 - 7000)),
             CrlEntry::new(Serial::from(12345u64), pki::time(pki::T0 - 6000))],
        signer.public(1).key_identifier(), Serial::from(7u64),
    ).into_crl(&signer, &Kid(1)).expect("crl");
    let crl_der = crl.to_captured().as_slice().to_vec();
    seeds.push(Seed::new("fresh/ca.crl", Kind::Crl, crl_der.clone(), true));

    //--- signed objects (library builders; EE key = the signer's one-off key)
    let sob = |serial: u64, name: &str| {
        let mut b = SignedObjectBuilder::new(Serial::from(serial), long_validity(), rsync("rsync://example.net/repo/ca/ca.crl"),
            rsync("rsync://example.net/repo/ca.cer"), rsync(&format!("rsync://example.net/repo/ca/{name}")));
        b.set_signing_time(t0());
        b
    };
    let mut rb = RoaBuilder::new(Asn::from_u32(64496));
    rb.push_v4_addr(std::net::Ipv4Addr::new(10, 0, 0, 0), 24, Some(28));
    rb.push_v4_addr(std::net::Ipv4Addr::new(10, 0, 1, 0), 24, None);
    rb.push_v6_addr(std::net::Ipv6Addr::new(0x2001, 0xdb8, 0, 0, 0, 0, 0, 0), 48, Some(56));
    let roa = rb.finalize(sob(11, "obj.roa"), &signer, &Kid(1)).expect("roa");
    seeds.push(Seed::new("fresh/obj.roa", Kind::Roa, roa.to_captured().as_slice().to_vec(), true));
    let h = |b: u8| Bytes::from(vec![b; 32]);
    let mft = ManifestContent::new(Serial::from(5u64), t0(), Time::utc(2123, 1, 1, 0, 0, 0), DigestAlgorithm::default(),
        [FileAndHash::new(Bytes::from_static(b"obj.roa"), h(1)), FileAndHash::new(Bytes::from_static(b"ca.crl"), h(2)),
         FileAndHash::new(Bytes::from_static(b"a_b-C9.asa"), h(3))].iter(),
    ).into_manifest(sob(12, "ca.mft"), &signer, &Kid(1)).expect("mft");
    seeds.push(Seed::new("fresh/ca.mft", Kind::Mft, mft.to_captured().as_slice().to_vec(), true));
    let mut ab = AspaBuilder::empty(Asn::from_u32(64496));
    for p in [64497u32, 64498, 65000] { ab.add_provider(Asn::from_u32(p)).expect("provider") }
    let aspa = ab.finalize(sob(13, "obj.asa"), &signer, &Kid(1)).expect("aspa");
    seeds.push(Seed::new("fresh/obj.asa", Kind::Aspa, aspa.to_captured().as_slice().to_vec(), true));

    //--- RTAs (library builder). The attested resources are exactly those of the signing
    // EE certificates, so that validation can run to completion:
    //   obj.rta      EE + its CA certificate + the CA's CRL embedded, the TA supplied from outside
    //   ee-only.rta  EE only, the CA supplied from outside
    let attestation = |keys: &[usize], v4: &[(u128, u128)], v6: &[(u128, u128)], asn: &[(u128, u128)]| {
        let digest = DigestAlgorithm::default().digest(b"attested document");
        let mut att = rta::AttestationBuilder::new(DigestAlgorithm::default(), digest.into());
        for &k in keys { att.push_key(signer.public(k).key_identifier()) }
        for b in pki::ip_blocks(32, v4).iter() { att.push_v4(b) }
        for b in pki::ip_blocks(128, v6).iter() { att.push_v6(b) }
        for b in pki::as_blocks(asn).iter() { att.push_as(b) }
        att
    };
    let ee_v4 = [(0x0a00_0000u128, 0x0a00_01ffu128)];
    let ee_v6 = [(0x2001_0db8u128 << 96, (0x2001_0db8u128 << 96) | ((1u128 << 80) - 1))];
    let rta_der = {
        let mut b = attestation(&[2], &ee_v4, &ee_v6, &[]).into_rta_builder();
        b.push_cert(Cert::decode(ee_der.as_slice()).unwrap());
        b.push_cert(Cert::decode(ca_der.as_slice()).unwrap());
        b.push_crl(Crl::decode(crl_der.as_slice()).unwrap());
        b.sign(&signer, &Kid(2), t0()).expect("rta sign");
        b.finalize().to_captured().as_slice().to_vec()
    };
    seeds.push(Seed::new("fresh/obj.rta", Kind::Rta, rta_der, true));
    let rta_ee_only = {
        let mut b = attestation(&[2], &ee_v4, &ee_v6, &[]).into_rta_builder();
        b.push_cert(Cert::decode(ee_der.as_slice()).unwrap());
        b.sign(&signer, &Kid(2), t0()).expect("rta sign");
        b.finalize().to_captured().as_slice().to_vec()
    };
    seeds.push(Seed::new("fresh/ee-only.rta", Kind::Rta, rta_ee_only, true));
    let att_single = attestation(&[2], &ee_v4, &ee_v6, &[]).into_attestation().encode_ref().to_captured(Mode::Der).as_slice().to_vec();

    //--- CSR, keys, TAL
    let csr = Csr::construct_rpki_ca(&signer, &Kid(3), &rsync("rsync://example.net/repo/ca3/"),
        &rsync("rsync://example.net/repo/ca3/ca3.mft"), Some(&uri::Https::from_str("https://example.net/rrdp/notify.xml").unwrap())).expect("csr");
    seeds.push(Seed::new("fresh/ca.csr", Kind::CsrCa, csr.as_slice().to_vec(), true));
    seeds.push(Seed::new("fresh/rsa.spki", Kind::Key, signer.key(0).spki_der.clone(), true));
    seeds.push(Seed::new("fresh/ec.spki", Kind::Key, signer::ec_public(0).to_info_bytes().to_vec(), true));
    let tal_text = {
        let mut t = b"# comment line\nrsync://example.net/repo/ta.cer\nhttps://example.net/repo/ta.cer\n\n".to_vec();
        let b64 = base64::engine::general_purpose::STANDARD.encode(&signer.key(0).spki_der);
        for c in b64.as_bytes().chunks(64) { t.extend_from_slice(c); t.push(b'\n') }
        t
    };
    seeds.push(Seed::new("fresh/ta.tal", Kind::Tal, tal_text.clone(), true));
    // the fixture for RTA validation is the plainest possible TAL (no comment lines)
    let tal = {
        let (_, rest) = tal_text.split_at(tal_text.iter().position(|&c| c == b'\n').unwrap() + 1);
        guard(|| Tal::read_named("fresh".into(), &mut &rest[..]).ok()).ok().flatten()
    };

    //--- identity certificates and signed messages (E5 assembly)
    let id_ta = IdCert::new_ta(long_validity(), &Kid(0), &signer).expect("id ta");
    seeds.push(Seed::new("fresh/id_ta.cer", Kind::IdCert, id_ta.to_bytes().to_vec(), true));
    let id_ee = IdCert::new_ee(&signer.public(7), long_validity(), &Kid(0), &signer).expect("id ee");
    let id_ee_der = id_ee.to_bytes().to_vec();
    seeds.push(Seed::new("fresh/id_ee.cer", Kind::IdCert, id_ee_der.clone(), true));
    let id_tbs = tlv_child(&id_ee_der, &[0]).to_vec();
    let sig_crl_tbs = e5_sig_crl_tbs(&signer);
    let sig_crl = pki::sign_tbs(&signer, 0, &sig_crl_tbs);
    let prov_xml = provisioning::Message::list(
        rpki::ca::idexchange::SenderHandle::from_str("child").unwrap(), rpki::ca::idexchange::RecipientHandle::from_str("parent").unwrap(),
    ).to_xml_bytes().to_vec();
    let pub_xml = publication::Message::list_query().to_xml_bytes().to_vec();
    let prov = e5_signed_object(&signer, der::OID_CT_PROTOCOL, &prov_xml, &id_ee_der, 7, vec![sig_crl.clone()], true);
    let pubm = e5_signed_object(&signer, der::OID_CT_PROTOCOL, &pub_xml, &id_ee_der, 7, vec![sig_crl.clone()], true);
    seeds.push(Seed::new("fresh/prov-list.cms", Kind::Sig, prov, true));
    seeds.push(Seed::new("fresh/pub-list.cms", Kind::Sig, pubm, true));

    //--- E5 econtent for the re-signed spaces
    let roa_econtent = der::roa_content(None, 64496,
        Some(&[der::roa_addr_from(0x0a00_0000, 24, 32, Some(28)), der::roa_addr_from(0x0a00_0100, 24, 32, None)]),
        Some(&[der::roa_addr_from(0x2001_0db8u128 << 96, 48, 128, Some(56))]));
    let mft_econtent = der::manifest_content(None, &[5], der::gentime(civil(2023, 11, 14)), der::gentime(civil(2123, 1, 1)), der::OID_SHA256,
        &[der::MftEntry { name: b"obj.roa".to_vec(), hash_unused: 0, hash: vec![1; 32] },
          der::MftEntry { name: b"ca.crl".to_vec(), hash_unused: 0, hash: vec![2; 32] }]);
    let aspa_econtent = der::aspa_content(Some(1), 64496, &[64497, 64498, 65000]);
    let mut fx = Fixtures {
        ee_cert_der: ee_der.clone(), ee_inherit_der: ee_inh_der, ee_as_der, id_ee_der, id_tbs, sig_crl_tbs,
        prov_xml, roa_econtent, mft_econtent, aspa_econtent,
        ca_cert_der: ca_der.clone(), ca_crl_der: crl_der.clone(), edge_ee_der: Vec::new(), att_single: att_single.clone(), att_multi: Vec::new(),
        tm_ee_der: pki::build_cert_der(&signer, &spec_with(Spec::issued(pki::Kind::Ee, 2, 1, ca.subject_key_identifier(),
            Res { v4: Claim::Blocks(vec![(0x0a00_0000, 0x0aff_ffff)]), v6: Claim::Blocks(vec![(0x2001_0db8u128 << 96, (0x2001_0db8u128 << 96) | ((1u128 << 96) - 1))]), asn: Claim::Blocks(vec![(64496, 64496)]) }, Overclaim::Refuse), 401)),
    };
    seeds.push(Seed::new("fresh/e5.roa", Kind::Roa, e5_signed_object(&signer, der::OID_CT_ROA, &fx.roa_econtent, &fx.ee_cert_der, 2, vec![], true), true));
    seeds.push(Seed::new("fresh/e5.mft", Kind::Mft, e5_signed_object(&signer, der::OID_CT_MANIFEST, &fx.mft_econtent, &fx.ee_inherit_der, 2, vec![], true), true));
    seeds.push(Seed::new("fresh/e5.asa", Kind::Aspa, e5_signed_object(&signer, der::OID_CT_ASPA, &fx.aspa_econtent, &fx.ee_as_der, 2, vec![], true), true));

    //--- boundary-rich chain: resource lists with several entries touching 0 and the maxima
    let m96 = (1u128 << 96) - 1;
    let edge_ta_res = Res {
        v4: Claim::Blocks(vec![(0, 0x00ff_ffff), (0x0a00_0000, 0x0aff_ffff), (0xffff_ff00, 0xffff_ffff)]),
        v6: Claim::Blocks(vec![(0, (1u128 << 112) - 1), (0x2001_0db8u128 << 96, (0x2001_0db8u128 << 96) | m96), (0xffffu128 << 112, u128::MAX)]),
        asn: Claim::Blocks(vec![(0, 0), (5, 100), (64496, 65535), (4294967290, 4294967295)]),
    };
    let edge_ca_res = Res {
        v4: Claim::Blocks(vec![(0, 0x00ff_ffff), (0x0a00_0000, 0x0a00_01ff), (0xffff_ffff, 0xffff_ffff)]),
        v6: Claim::Blocks(vec![(0, (1u128 << 112) - 1), (0x2001_0db8u128 << 96, (0x2001_0db8u128 << 96) | m96), (0xffffu128 << 112, u128::MAX)]),
        asn: Claim::Blocks(vec![(0, 0), (5, 6), (64496, 64511), (4294967295, 4294967295)]),
    };
    let edge_ee_res = Res {
        v4: Claim::Blocks(vec![(0, 0x00ff_ffff), (0xffff_ffff, 0xffff_ffff)]),
        v6: Claim::Blocks(vec![(0, (1u128 << 112) - 1), (0xffffu128 << 112, u128::MAX)]),
        asn: Claim::Blocks(vec![(0, 0), (5, 6), (4294967295, 4294967295)]),
    };
    let edge_ta_der = pki::build_cert_der(&signer, &spec_with(Spec::ta(4, edge_ta_res), 21));
    let edge_ta = Cert::decode(edge_ta_der.as_slice()).expect("edge TA decodes").validate_ta_at(pki::tal(), true, t0()).expect("edge TA validates");
    let edge_ca_der = pki::build_cert_der(&signer, &spec_with(Spec::issued(pki::Kind::Ca, 5, 4, edge_ta.subject_key_identifier(), edge_ca_res, Overclaim::Refuse), 22));
    let edge_ca = Cert::decode(edge_ca_der.as_slice()).expect("edge CA decodes").validate_ca_at(&edge_ta, true, t0()).expect("edge CA validates");
    let edge_ee_der = pki::build_cert_der(&signer, &spec_with(Spec::issued(pki::Kind::Ee, 6, 5, edge_ca.subject_key_identifier(), edge_ee_res, Overclaim::Refuse), 23));
    let edge_router_der = pki::build_cert_der(&signer, &spec_with(Spec::issued(pki::Kind::Router, 3, 5, edge_ca.subject_key_identifier(),
        Res { v4: Claim::Missing, v6: Claim::Missing, asn: Claim::Blocks(vec![(0, 0), (6, 6), (4294967295, 4294967295)]) }, Overclaim::Refuse), 24));
    seeds.push(Seed::new("fresh/edge-ta.cer", Kind::Cert, edge_ta_der, true));
    seeds.push(Seed::new("fresh/edge-ca.cer", Kind::Cert, edge_ca_der.clone(), true));
    seeds.push(Seed::new("fresh/edge-ee.cer", Kind::Cert, edge_ee_der.clone(), true));
    seeds.push(Seed::new("fresh/edge-router.cer", Kind::Cert, edge_router_der, true));
    let sob5 = |serial: u64, name: &str| {
        let mut b = SignedObjectBuilder::new(Serial::from(serial), long_validity(), rsync("rsync://example.net/repo/edge/edge.crl"),
            rsync("rsync://example.net/repo/edge.cer"), rsync(&format!("rsync://example.net/repo/edge/{name}")));
        b.set_signing_time(t0());
        b
    };
    let mut rb = RoaBuilder::new(Asn::from_u32(4294967295));
    rb.push_v4_addr(std::net::Ipv4Addr::new(0, 0, 0, 0), 8, Some(32));
    rb.push_v4_addr(std::net::Ipv4Addr::new(10, 0, 0, 0), 24, None);
    rb.push_v4_addr(std::net::Ipv4Addr::new(255, 255, 255, 255), 32, Some(32));
    rb.push_v6_addr(std::net::Ipv6Addr::new(0, 0, 0, 0, 0, 0, 0, 0), 16, Some(128));
    rb.push_v6_addr(std::net::Ipv6Addr::new(0xffff, 0, 0, 0, 0, 0, 0, 0), 16, None);
    let edge_roa = rb.finalize(sob5(31, "edge.roa"), &signer, &Kid(5)).expect("edge roa");
    seeds.push(Seed::new("fresh/edge.roa", Kind::Roa, edge_roa.to_captured().as_slice().to_vec(), true));
    let mut ab = AspaBuilder::empty(Asn::from_u32(5));
    for p in [0u32, 6, 65535, 65536, 4294967295] { ab.add_provider(Asn::from_u32(p)).expect("provider") }
    let edge_aspa = ab.finalize(sob5(32, "edge.asa"), &signer, &Kid(5)).expect("edge aspa");
    seeds.push(Seed::new("fresh/edge.asa", Kind::Aspa, edge_aspa.to_captured().as_slice().to_vec(), true));
    // two signers under two different CAs (both supplied from outside); the attestation is
    // the union of both EE certificates' resources
    let multi_att = || {
        let digest = DigestAlgorithm::default().digest(b"attested document");
        let mut att = rta::AttestationBuilder::new(DigestAlgorithm::default(), digest.into());
        att.push_key(signer.public(2).key_identifier());
        att.push_key(signer.public(6).key_identifier());
        for b in pki::ip_blocks(32, &[(0, 0x00ff_ffff), (0x0a00_0000, 0x0a00_01ff), (0xffff_ffff, 0xffff_ffff)]).iter() { att.push_v4(b) }
        for b in pki::ip_blocks(128, &[(0, (1u128 << 112) - 1), (0x2001_0db8u128 << 96, (0x2001_0db8u128 << 96) | ((1u128 << 80) - 1)), (0xffffu128 << 112, u128::MAX)]).iter() { att.push_v6(b) }
        for b in pki::as_blocks(&[(0, 0), (5, 6), (4294967295, 4294967295)]).iter() { att.push_as(b) }
        att
    };
    let edge_rta_der = {
        let mut b = multi_att().into_rta_builder();
        b.push_cert(Cert::decode(ee_der.as_slice()).unwrap());
        b.push_cert(Cert::decode(edge_ee_der.as_slice()).unwrap());
        b.sign(&signer, &Kid(2), t0()).expect("multi rta sign 1");
        b.sign(&signer, &Kid(6), t0()).expect("multi rta sign 2");
        b.finalize().to_captured().as_slice().to_vec()
    };
    seeds.push(Seed::new("fresh/multi-signer.rta", Kind::Rta, edge_rta_der, true));
    let att_multi = multi_att().into_attestation().encode_ref().to_captured(Mode::Der).as_slice().to_vec();

    fx.edge_ee_der = edge_ee_der.clone();
    fx.att_multi = att_multi;
    seeds.push(Seed::new("fresh/e5-multi-signer.rta", Kind::Rta, e5_rta(&signer, &fx.att_multi, &[&fx.ee_cert_der, &fx.edge_ee_der], &[], &[2, 6], true, None), true));

    //--- the scale dimension: certificates with 17 / 33 / 65 disjoint blocks per family (gaps
    // between all of them), and signed objects under them whose content asks for a resource
    // below the first block, at the first / a middle / the last block, in a gap, above the last
    // block. The EE resources are independent of the content (E5 assembly).
    let mut scale_issuers: Vec<ResourceCert> = Vec::new();
    for &n in &[17usize, 33, 65] {
        let v4: Vec<(u128, u128)> = (1..=n as u128).map(|k| (0x0a00_0000 + (k << 16), 0x0a00_0000 + (k << 16) + 255)).collect();          // 10.k.0.0/24
        let v6: Vec<(u128, u128)> = (1..=n as u128).map(|k| { let b = (0x2001_0db8u128 << 96) | (k << 81); (b, b | ((1u128 << 80) - 1)) }).collect(); // 2001:db8:2k::/48
        let asn: Vec<(u128, u128)> = (1..=n as u128).map(|k| (64496 + 4 * k, 64496 + 4 * k + 1)).collect();
        let res = || Res { v4: Claim::Blocks(v4.clone()), v6: Claim::Blocks(v6.clone()), asn: Claim::Blocks(asn.clone()) };
        let sca_der = pki::build_cert_der(&signer, &spec_with(Spec::issued(pki::Kind::Ca, 3, 0, ta.subject_key_identifier(), res(), Overclaim::Refuse), 100 + n as u128));
        let sca = Cert::decode(sca_der.as_slice()).expect("scale CA decodes").validate_ca_at(&ta, true, t0()).expect("scale CA validates");
        let see_der = pki::build_cert_der(&signer, &spec_with(Spec::issued(pki::Kind::Ee, 2, 3, sca.subject_key_identifier(), res(), Overclaim::Refuse), 200 + n as u128));
        let see_as_der = pki::build_cert_der(&signer, &spec_with(Spec::issued(pki::Kind::Ee, 2, 3, sca.subject_key_identifier(),
            Res { v4: Claim::Missing, v6: Claim::Missing, asn: Claim::Blocks(asn.clone()) }, Overclaim::Refuse), 300 + n as u128));
        let mut push = |name: String, kind: Kind, bytes: Vec<u8>| { let mut sd = Seed::new(&name, kind, bytes, true); sd.no_mutate = true; seeds.push(sd) };
        push(format!("scale/{n}-blocks-ca.cer"), Kind::Cert, sca_der);
        push(format!("scale/{n}-blocks-ee.cer"), Kind::Cert, see_der.clone());
        let mid = (n as u128 + 1) / 2;
        // (placement, block number k, offset inside / beside the block)
        let places: [(&str, u128, i64); 7] = [("below-first", 1, -256), ("first", 1, 0), ("gap-after-first", 1, 256), ("middle", mid, 0), ("gap-after-middle", mid, 256), ("last", n as u128, 0), ("above-last", n as u128, 256)];
        for (what, k, off) in places {
            let a4 = ((0x0a00_0000 + (k << 16)) as i64 + off) as u128;
            let a6 = (((0x2001_0db8u128 << 96) | (k << 81)) as i128 + ((off as i128) << 72)) as u128;   // off = +-256 -> the neighbouring (unallocated) /48
            let econtent = der::roa_content(None, 64500, Some(&[der::roa_addr_from(a4, 24, 32, Some(24))]), Some(&[der::roa_addr_from(a6, 48, 128, None)]));
            push(format!("scale/{n}-blocks-{what}.roa"), Kind::Roa, e5_signed_object(&signer, der::OID_CT_ROA, &econtent, &see_der, 2, vec![], true));
            let cust = (64496 + 4 * k) as i64 + if off < 0 { -1 } else if off > 0 { 2 } else { 0 };
            let econtent = der::aspa_content(Some(1), cust as u128, &[64000, 64001]);
            push(format!("scale/{n}-blocks-{what}.asa"), Kind::Aspa, e5_signed_object(&signer, der::OID_CT_ASPA, &econtent, &see_as_der, 2, vec![], true));
        }
        scale_issuers.push(sca);
    }

    //--- the count dimension: every list the accessors walk, with 0..=40 and 255..=257 entries
    // (thorough: also the neighbourhoods of 64, 128, 1024, 4096); provider sets additionally
    // around the documented maximum of 16380
    {
        let mut counts: Vec<usize> = (0..=40).collect();
        counts.extend([255, 256, 257]);
        if thorough { counts.extend([63, 64, 65, 127, 128, 129, 1023, 1024, 1025, 4095, 4096, 4097]) }
        let mut push = |name: String, kind: Kind, bytes: Vec<u8>| { let mut sd = Seed::new(&name, kind, bytes, true); sd.no_mutate = true; seeds.push(sd) };
        let wide_ee = pki::build_cert_der(&signer, &spec_with(Spec::issued(pki::Kind::Ee, 2, 1, ca.subject_key_identifier(),
            Res { v4: Claim::Blocks(vec![(0x0a00_0000, 0x0aff_ffff)]), v6: Claim::Missing, asn: Claim::Missing }, Overclaim::Refuse), 400));
        for &n in &counts {
            let entries: Vec<CrlEntry> = (0..n).map(|i| CrlEntry::new(Serial::from(10 + 3 * i as u64), pki::time(pki::T0 - 7200))).collect();
            let c = TbsCertList::new(RpkiSignatureAlgorithm::default(), signer.public(1).to_subject_name(), pki::time(pki::T0 - 3600), Time::utc(2123, 11, 14, 0, 0, 0),
                entries, signer.public(1).key_identifier(), Serial::from(n as u64 + 1)).into_crl(&signer, &Kid(1)).expect("count crl");
            push(format!("count/{n:05}-entries.crl"), Kind::Crl, c.to_captured().as_slice().to_vec());
            let files: Vec<FileAndHash<Bytes, Bytes>> = (0..n).map(|i| FileAndHash::new(Bytes::from(format!("f{i:05}.roa")), Bytes::from(vec![(i % 251) as u8; 32]))).collect();
            let m = ManifestContent::new(Serial::from(n as u64 + 1), t0(), Time::utc(2123, 1, 1, 0, 0, 0), DigestAlgorithm::default(), files.iter())
                .into_manifest(sob(500 + n as u64, "count.mft"), &signer, &Kid(1)).expect("count mft");
            push(format!("count/{n:05}-entries.mft"), Kind::Mft, m.to_captured().as_slice().to_vec());
            let addrs: Vec<der::RoaAddr> = (0..n as u128).map(|i| der::roa_addr_from(0x0a00_0000 + (i << 8), 24, 32, if i % 2 == 0 { Some(24) } else { None })).collect();
            let econtent = der::roa_content(None, 64496, Some(&addrs), None);
            push(format!("count/{n:05}-prefixes.roa"), Kind::Roa, e5_signed_object(&signer, der::OID_CT_ROA, &econtent, &wide_ee, 2, vec![], true));
        }
        let mut pcounts: Vec<usize> = (1..=40).collect();
        pcounts.extend([255, 256, 257, 16379, 16380, 16381]);
        if thorough { pcounts.extend([63, 64, 65, 127, 128, 129, 1023, 1024, 1025, 4095, 4096, 4097, 8191, 8192, 8193, 16383, 16384, 16385]) }
        for &n in &pcounts {
            let provs: Vec<u128> = (0..n as u128).map(|i| 100_000 + 2 * i).collect();
            let econtent = der::aspa_content(Some(1), 64496, &provs);
            push(format!("count/{n:05}-providers.asa"), Kind::Aspa, e5_signed_object(&signer, der::OID_CT_ASPA, &econtent, &fx.ee_as_der, 2, vec![], true));
        }
        // TALs with 0..=3, 40 and 257 URIs (the reader accepts an empty URI section)
        for n in [0usize, 1, 2, 3, 40, 257] {
            let mut t: Vec<u8> = Vec::new();
            for j in 0..n { t.extend_from_slice(format!("{}://example.net/repo/ta-{j}.cer\n", if j % 2 == 0 { "rsync" } else { "https" }).as_bytes()) }
            t.push(b'\n');
            let b64 = base64::engine::general_purpose::STANDARD.encode(&signer.key(0).spki_der);
            for c in b64.as_bytes().chunks(64) { t.extend_from_slice(c); t.push(b'\n') }
            push(format!("count/{n:05}-uris.tal"), Kind::Tal, t);
        }
    }

    //--- text lists for the FromStr decoders
    seeds.push(Seed::new("fresh/as-list.txt", Kind::AsText, b"AS0, AS5-AS6, AS64496-AS64511, AS4294967295".to_vec(), true));
    seeds.push(Seed::new("fresh/ipv4-list.txt", Kind::IpText, b"0.0.0.0/8, 10.0.0.0-10.0.1.255, 192.0.2.7, 255.255.255.255/32".to_vec(), true));
    seeds.push(Seed::new("fresh/ipv6-list.txt", Kind::IpText, b"::/16, 2001:db8::/32, 2001:db9::1-2001:db9::ffff, ffff::/16".to_vec(), true));

    //--- an RTA whose two embedded CA certificates name each other as issuer
    // (A: key 3 issued by key 6; B: key 6 issued by key 3; both with inherited
    // resources and a CRL each), EE (key 2) under A signs. Run in its own space.
    {
        let inherit = || Res { v4: Claim::Inherit, v6: Claim::Inherit, asn: Claim::Inherit };
        let a_der = pki::build_cert_der(&signer, &spec_with(Spec::issued(pki::Kind::Ca, 3, 6, signer.ski(6), inherit(), Overclaim::Refuse), 41));
        let b_der = pki::build_cert_der(&signer, &spec_with(Spec::issued(pki::Kind::Ca, 6, 3, signer.ski(3), inherit(), Overclaim::Refuse), 42));
        let e_der = pki::build_cert_der(&signer, &spec_with(Spec::issued(pki::Kind::Ee, 2, 3, signer.ski(3), inherit(), Overclaim::Refuse), 43));
        let crl_of = |k: usize| TbsCertList::new(
            RpkiSignatureAlgorithm::default(), signer.public(k).to_subject_name(), pki::time(pki::T0 - 3600), Time::utc(2123, 11, 14, 0, 0, 0),
            vec![CrlEntry::new(Serial::from(999u64), pki::time(pki::T0 - 7200))], signer.public(k).key_identifier(), Serial::from(1u64),
        ).into_crl(&signer, &Kid(k)).expect("cycle crl");
        let digest = DigestAlgorithm::default().digest(b"attested document");
        let mut att = rta::AttestationBuilder::new(DigestAlgorithm::default(), digest.into());
        att.push_key(signer.public(2).key_identifier());
        att.push_v4(IpBlock::from(Prefix::new(std::net::Ipv4Addr::new(10, 0, 0, 0), 24)));
        let mut b = att.into_rta_builder();
        b.push_cert(Cert::decode(e_der.as_slice()).unwrap());
        b.push_cert(Cert::decode(a_der.as_slice()).unwrap());
        b.push_cert(Cert::decode(b_der.as_slice()).unwrap());
        b.push_crl(crl_of(3));
        b.push_crl(crl_of(6));
        b.sign(&signer, &Kid(2), t0()).expect("cycle rta sign");
        let mut sd = Seed::new("fresh/ca-cycle.rta", Kind::Rta, b.finalize().to_captured().as_slice().to_vec(), true);
        sd.own_space = true;
        seeds.push(sd);
    }

    //--- fixed issuers
    let mut issuers = vec![(ta.clone(), t0()), (ca.clone(), t0()), (edge_ca.clone(), t0())];
    for sca in scale_issuers { issuers.push((sca, t0())) }
    let at2019 = Time::utc(2019, 5, 1, 0, 0, 0);
    let find = |name: &str| seeds.iter().find(|s| s.name == name).map(|s| s.bytes.clone());
    if let Some(b) = find("repository/ta.cer") {
        if let Ok(c) = Cert::decode(b.as_slice()) {
            if let Ok(rc) = c.validate_ta_at(pki::tal(), false, at2019) { issuers.push((rc, at2019)) }
        }
    }
    let mut keys = vec![(signer.public(0), t0())];
    for (name, t) in [("ca/sigmsg/cms_ta.cer", Time::utc(2012, 1, 1, 0, 0, 0)), ("ca/id_ta.cer", Time::utc(2012, 1, 1, 0, 0, 0)),
                      ("ca/id_afrinic.cer", Time::utc(2022, 10, 25, 15, 0, 0))] {
        if let Some(b) = find(name) { if let Ok(c) = IdCert::decode(b.as_slice()) { keys.push((c.public_key().clone(), t)) } }
    }
    let some_sig = RpkiSignature::new(RpkiSignatureAlgorithm::default(), Bytes::from(signer.sign_raw(0, b"C04")));

    //--- re-signed seeds
    let rs = vec![
        RsSeed::new("rs/ee.cer#tbs", RsKind::CertTbs(1), tlv_child(&ee_der, &[0]).to_vec()),
        RsSeed::new("rs/ca.cer#tbs", RsKind::CertTbs(0), tlv_child(&ca_der, &[0]).to_vec()),
        RsSeed::new("rs/router.cer#tbs", RsKind::CertTbs(1), tlv_child(&router_der, &[0]).to_vec()),
        RsSeed::new("rs/id_ee.cer#tbs", RsKind::IdTbs, fx.id_tbs.clone()),
        RsSeed::new("rs/prov.cms#crl-tbs", RsKind::SigCrlTbs, fx.sig_crl_tbs.clone()),
        RsSeed::new("rs/prov.cms#idcert-tbs", RsKind::SigIdTbs, fx.id_tbs.clone()),
        RsSeed::new("rs/e5.roa#econtent", RsKind::RoaContent, fx.roa_econtent.clone()),
        RsSeed::new("rs/e5.mft#econtent", RsKind::MftContent, fx.mft_econtent.clone()),
        RsSeed::new("rs/e5.asa#econtent", RsKind::AspaContent, fx.aspa_econtent.clone()),
        RsSeed::new("rs/edge-ca.cer#tbs", RsKind::CertTbs(4), tlv_child(&edge_ca_der, &[0]).to_vec()),
        RsSeed::new("rs/edge-ee.cer#tbs", RsKind::CertTbs(5), tlv_child(&edge_ee_der, &[0]).to_vec()),
        RsSeed::new("rs/multi.rta#attestation", RsKind::RtaContent, fx.att_multi.clone()),
        RsSeed::new("rs/ee-only.rta#ee-tbs", RsKind::RtaEeTbs, tlv_child(&ee_der, &[0]).to_vec()),
        RsSeed::new("rs/obj.rta#ca-tbs", RsKind::RtaCaTbs, tlv_child(&ca_der, &[0]).to_vec()),
        RsSeed::new("rs/obj.rta#crl-tbs", RsKind::RtaCrlTbs, tlv_child(&crl_der, &[0]).to_vec()),
        RsSeed::new("rs/ee-only.rta#signed-attrs", RsKind::RtaAttrs, der::signed_attrs_tbs(&rta_attrs(&fx.att_single))),
    ];
    // the OID value menu: every OBJECT IDENTIFIER that occurs in any seed
    {
        let mut pool: Vec<Vec<u8>> = Vec::new();
        for (t, buf) in seeds.iter().filter_map(|s| s.tree.as_ref().map(|t| (t, &s.der))).chain(rs.iter().map(|r| (&r.tree, &r.inner))) {
            for n in &t.nodes { if n.tag == 0x06 { pool.push(buf[n.start + n.hdr..n.content_end()].to_vec()) } }
        }
        mutate::set_oid_pool(pool);
    }

    Env { signer, seeds, skipped, issuers, keys, tal, base: rsync("rsync://example.net/repo/ca/"), some_sig, rs, fx }
}

//------------ re-signed seeds ---------------------------------------------------

#[derive(Clone, Copy, Debug, PartialEq, Eq)]
enum RsKind {
    /// a certificate TBS, signed by this pool key
    CertTbs(usize),
    IdTbs,
    /// the CRL inside a signed message
    SigCrlTbs,
    /// the identity EE certificate inside a signed message
    SigIdTbs,
    RoaContent, MftContent, AspaContent,
    /// parts of E5-assembled RTAs: the attestation (two signers), the EE / CA
    /// certificate TBS, the CRL TBS, the signed attributes
    RtaContent, RtaEeTbs, RtaCaTbs, RtaCrlTbs, RtaAttrs,
}

struct RsSeed { name: String, kind: RsKind, inner: Vec<u8>, tree: Tree }

impl RsSeed {
    fn new(name: &str, kind: RsKind, inner: Vec<u8>) -> RsSeed {
        let tree = Tree::parse(&inner).expect("re-signed seed is well-formed DER");
        RsSeed { name: name.into(), kind, inner, tree }
    }
    fn eps(&self) -> &'static [Ep] {
        match self.kind {
            RsKind::CertTbs(_) => &[Ep::Cert],
            RsKind::IdTbs => &[Ep::IdCert],
            RsKind::SigCrlTbs | RsKind::SigIdTbs => &[Ep::SigS, Ep::SigR, Ep::ProvCms],
            RsKind::RoaContent => &[Ep::RoaS, Ep::RoaR],
            RsKind::MftContent => &[Ep::MftS, Ep::MftR],
            RsKind::AspaContent => &[Ep::AspaS, Ep::AspaR],
            RsKind::RtaContent | RsKind::RtaEeTbs | RsKind::RtaCaTbs | RsKind::RtaCrlTbs | RsKind::RtaAttrs => &[Ep::RtaS, Ep::RtaR],
        }
    }
    /// Wraps the (mutated) inner part into the complete object; with
    /// `real_sig` all signatures over it are computed, otherwise zero-filled.
    fn assemble(&self, env: &Env, inner: &[u8], real_sig: bool) -> Vec<u8> {
        let s = &env.signer;
        match self.kind {
            RsKind::CertTbs(k) => sign_wrap(s, k, inner, real_sig),
            RsKind::IdTbs => sign_wrap(s, 0, inner, real_sig),
            RsKind::SigCrlTbs => {
                let crl = sign_wrap(s, 0, inner, real_sig);
                e5_signed_object(s, der::OID_CT_PROTOCOL, &env.fx.prov_xml, &env.fx.id_ee_der, 7, vec![crl], real_sig)
            }
            RsKind::SigIdTbs => {
                let crl = sign_wrap(s, 0, &env.fx.sig_crl_tbs, real_sig);
                let id = sign_wrap(s, 0, inner, real_sig);
                e5_signed_object(s, der::OID_CT_PROTOCOL, &env.fx.prov_xml, &id, 7, vec![crl], real_sig)
            }
            RsKind::RoaContent => e5_signed_object(s, der::OID_CT_ROA, inner, &env.fx.ee_cert_der, 2, vec![], real_sig),
            RsKind::MftContent => e5_signed_object(s, der::OID_CT_MANIFEST, inner, &env.fx.ee_inherit_der, 2, vec![], real_sig),
            RsKind::AspaContent => e5_signed_object(s, der::OID_CT_ASPA, inner, &env.fx.ee_as_der, 2, vec![], real_sig),
            RsKind::RtaContent => e5_rta(s, inner, &[&env.fx.ee_cert_der, &env.fx.edge_ee_der], &[], &[2, 6], real_sig, None),
            RsKind::RtaEeTbs => { let ee = sign_wrap(s, 1, inner, real_sig); e5_rta(s, &env.fx.att_single, &[&ee], &[], &[2], real_sig, None) }
            RsKind::RtaCaTbs => { let ca = sign_wrap(s, 0, inner, real_sig); e5_rta(s, &env.fx.att_single, &[&env.fx.ee_cert_der, &ca], &[&env.fx.ca_crl_der], &[2], real_sig, None) }
            RsKind::RtaCrlTbs => { let crl = sign_wrap(s, 1, inner, real_sig); e5_rta(s, &env.fx.att_single, &[&env.fx.ee_cert_der, &env.fx.ca_cert_der], &[&crl], &[2], real_sig, None) }
            RsKind::RtaAttrs => e5_rta(s, &env.fx.att_single, &[&env.fx.ee_cert_der], &[], &[2], real_sig, Some(inner)),
        }
    }
}

//============ counting source =====================================================

#[derive(Debug)]
struct StepBudget;
impl std::fmt::Display for StepBudget {
    fn fmt(&self, f: &mut std::fmt::Formatter) -> std::fmt::Result { f.write_str("source step budget exhausted") }
}
impl std::error::Error for StepBudget {}

/// A slice source that counts how often the decoder touches it and refuses
/// to continue beyond a budget.
struct CountSource<'a> { data: &'a [u8], pos: usize, calls: &'a Cell<u64>, budget: u64 }

impl Source for CountSource<'_> {
    type Error = StepBudget;
    fn pos(&self) -> Pos { self.pos.into() }
    fn request(&mut self, _len: usize) -> Result<usize, StepBudget> {
        let c = self.calls.get() + 1;
        self.calls.set(c);
        if c > self.budget { Err(StepBudget) } else { Ok(self.data.len()) }
    }
    fn advance(&mut self, len: usize) {
        self.calls.set(self.calls.get() + 1);
        assert!(len <= self.data.len());
        self.data = &self.data[len..];
        self.pos += len;
    }
    fn slice(&self) -> &[u8] { self.data }
    fn bytes(&self, start: usize, end: usize) -> Bytes { Bytes::copy_from_slice(&self.data[start..end]) }
}

struct CountRead<'a> { data: &'a [u8], calls: u64 }
impl Read for CountRead<'_> {
    fn read(&mut self, buf: &mut [u8]) -> std::io::Result<usize> {
        self.calls += 1;
        let n = buf.len().min(self.data.len());
        buf[..n].copy_from_slice(&self.data[..n]);
        self.data = &self.data[n..];
        Ok(n)
    }
}

//============ entry points and accessor sweeps ====================================

struct Fail { oracle: &'static str, acc: &'static str, detail: String }

struct CaseOut {
    decoded: bool,
    /// class of the rejection (error text without positions and numbers)
    reject: String,
    fails: Vec<Fail>,
    steps: u64,
    /// validations that succeeded (evidence that the sweep got behind the signature checks)
    marks: Vec<&'static str>,
}

/// Optional per-accessor-group timing (C04_PROFILE=1, printed by the worker when it ends).
struct Prof(Option<(&'static str, Instant)>);
static PROF: Mutex<BTreeMap<&'static str, (u128, u64)>> = Mutex::new(BTreeMap::new());
static PROF_ON: std::sync::OnceLock<bool> = std::sync::OnceLock::new();
impl Prof {
    fn start(label: &'static str) -> Prof {
        if *PROF_ON.get_or_init(|| std::env::var("C04_PROFILE").is_ok()) { Prof(Some((label, Instant::now()))) } else { Prof(None) }
    }
}
impl Drop for Prof {
    fn drop(&mut self) {
        if let Some((l, t)) = self.0 { let mut p = PROF.lock().unwrap(); let e = p.entry(l).or_insert((0, 0)); e.0 += t.elapsed().as_nanos(); e.1 += 1; }
    }
}

struct Sweep<'e> { env: &'e Env, n: usize, bytes: &'e [u8], relaxed: bool, ep: Ep, fails: Vec<Fail>, marks: Vec<&'static str> }

fn count_bounded<I: Iterator>(it: I, n: usize) -> Result<usize, String> {
    let mut c = 0usize;
    for _ in it {
        c += 1;
        if c > n { return Err(format!("iterator yielded more than {n} items for {n} input octets")) }
    }
    Ok(c)
}

fn err_class(s: &str) -> String {
    let s = match s.find(" (at position") { Some(p) => &s[..p], None => s };
    let mut out = String::with_capacity(48);
    for ch in s.chars() {
        if ch.is_ascii_digit() { continue }
        if ch.is_control() { out.push(' ') } else { out.push(ch) }
        if out.len() >= 56 { break }
    }
    out
}

impl<'e> Sweep<'e> {
    fn mark(&mut self, m: &'static str) { if !self.marks.contains(&m) { self.marks.push(m) } }
    fn push(&mut self, oracle: &'static str, acc: &'static str, detail: String) {
        if !self.fails.iter().any(|f| f.oracle == oracle) { self.fails.push(Fail { oracle, acc, detail }) }
    }
    /// Runs one accessor group under the panic guard.
    fn run<T>(&mut self, oracle: &'static str, acc: &'static str, f: impl FnOnce() -> T) -> Option<T> {
        let _p = Prof::start(acc);
        match guard(f) { Ok(v) => Some(v), Err(p) => { self.push(oracle, acc, p); None } }
    }
    /// Like `run`, for groups that also check an iterator bound.
    fn check(&mut self, oracle: &'static str, acc: &'static str, f: impl FnOnce() -> Result<(), String>) {
        let _p = Prof::start(acc);
        match guard(f) { Ok(Ok(())) => {}, Ok(Err(d)) => self.push(oracle, acc, d), Err(p) => self.push(oracle, acc, p) }
    }

    //--- resources

    fn ip_blocks(&mut self, b: &IpBlocks, v4: bool) {
        let n = self.n;
        let other = if v4 { self.env.issuers[1].0.v4_resources().clone() } else { self.env.issuers[1].0.v6_resources().clone() };
        self.check("C04.ip.iter", "IpBlocks::iter", || {
            count_bounded(b.iter(), n)?;
            for blk in b.iter() {
                let _ = (blk.min(), blk.max(), blk.is_slash_zero());
                let _ = if v4 { blk.display_v4().to_string() } else { blk.display_v6().to_string() };
                match blk {
                    IpBlock::Prefix(p) => { let _ = (p.addr(), p.addr_len(), p.to_v4(), p.to_v6(), p.range(), p.min(), p.max()); }
                    IpBlock::Range(r) => {
                        let _ = (r.min(), r.max(), r.into_prefix());
                        let c = if v4 { r.to_v4_prefixes().count() } else { r.to_v6_prefixes().count() };
                        if c > 256 { return Err(format!("range decomposes into {c} prefixes")) }
                    }
                }
            }
            Ok(())
        });
        self.run("C04.ip.display", "IpBlocks::as_v4/as_v6", || {
            let _ = if v4 { b.as_v4().to_string() } else { b.as_v6().to_string() };
            if v4 { let x = Ipv4Blocks::from(b.clone()); let s = x.to_string(); let _ = Ipv4Blocks::from_str(&s); let _ = serde_json::to_string(&x); }
            else { let x = Ipv6Blocks::from(b.clone()); let s = x.to_string(); let _ = Ipv6Blocks::from_str(&s); let _ = serde_json::to_string(&x); }
        });
        self.run("C04.ip.setops", "IpBlocks set operations", || {
            let _ = (b.is_empty(), b.contains(&other), other.contains(b), b.contains(b));
            let _ = b.intersection(&other); let _ = other.intersection(b);
            let _ = b.difference(&other); let _ = other.difference(b);
            let _ = b.union(&other); let _ = b.union(b);
            let mut c = b.clone(); c.intersection_assign(&other);
            if let Some(first) = b.iter().next() { let _ = (b.contains_block(first), other.intersects_block(first)); }
        });
        self.run("C04.ip.probes", "IpBlocks::contains_block/intersects_block/contains_roa at and around the first, middle and last block", || {
            use rpki::repository::resources::Addr;
            use rpki::repository::roa::RoaIpAddress;
            let v: Vec<IpBlock> = b.iter().collect();
            let mut probes: Vec<Addr> = vec![Addr::from_bits(0), Addr::from_bits(u128::MAX)];
            if !v.is_empty() {
                for idx in [0, v.len() / 2, v.len() - 1] {
                    let (lo, hi) = (v[idx].min().to_bits(), v[idx].max().to_bits());
                    probes.push(Addr::from_bits(lo)); probes.push(Addr::from_bits(hi));
                    if lo > 0 { probes.push(Addr::from_bits(lo - 1)) }
                    if hi < u128::MAX { probes.push(Addr::from_bits(hi + 1)) }
                }
            }
            let host = if v4 { 32 } else { 128 };
            for a in probes {
                for len in [host, host - 8, 0] {
                    let p = Prefix::new(a, len);
                    let _ = (b.contains_block(p), b.intersects_block(p), b.contains_roa(&RoaIpAddress::new(p, None)), b.contains_roa(&RoaIpAddress::new(p, Some(host))));
                }
            }
            if v.len() >= 2 { let span = IpBlock::from((v[0].min(), v[v.len() - 1].max())); let _ = (b.contains_block(span), b.intersects_block(span)); }
        });
        self.run("C04.ip.verify_issued", "IpBlocks::verify_issued/verify_covered", || {
            let res = IpResources::blocks(b.clone());
            let _ = other.verify_issued(&res, Overclaim::Refuse);
            let _ = other.verify_issued(&res, Overclaim::Trim);
            let _ = b.verify_covered(&IpResources::blocks(other.clone()));
        });
        self.run("C04.reencode.resources", "IpBlocks::encode_ref", || { b.encode_ref().to_captured(Mode::Der).len() });
    }

    fn as_blocks(&mut self, b: &AsBlocks) {
        let n = self.n;
        let other = self.env.issuers[1].0.as_resources().clone();
        self.check("C04.as.iter", "AsBlocks::iter", || {
            count_bounded(b.iter(), n)?;
            for blk in b.iter() {
                let _ = (blk.min(), blk.max(), blk.is_whole_range(), blk.to_string());
                let _ = blk.iter().take(3).count();
            }
            let _ = b.iter_asns().take(5).count();
            Ok(())
        });
        self.run("C04.as.asn_count", "AsBlocks::asn_count", || {
            for blk in b.iter() { let _ = blk.asn_count(); }
            b.asn_count()
        });
        self.run("C04.as.display", "AsBlocks Display/serde", || {
            let s = b.to_string(); let _ = AsBlocks::from_str(&s); let _ = serde_json::to_string(b);
        });
        self.run("C04.as.setops", "AsBlocks set operations", || {
            let _ = (b.is_empty(), b.contains(&other), other.contains(b), b.contains_asn(Asn::from_u32(64496)), b.contains_asn(Asn::from_u32(0)));
            let _ = b.intersection(&other); let _ = other.intersection(b);
            let _ = b.difference(&other); let _ = other.difference(b);
            let _ = b.union(&other); let _ = b.union(b);
            let mut c = b.clone(); c.intersection_assign(&other);
        });
        self.run("C04.as.probes", "AsBlocks::contains_asn at and around the first, middle and last block", || {
            let v: Vec<rpki::repository::resources::AsBlock> = b.iter().collect();
            let mut probes: Vec<u32> = vec![0, u32::MAX];
            if !v.is_empty() {
                for idx in [0, v.len() / 2, v.len() - 1] {
                    let (lo, hi) = (v[idx].min().into_u32(), v[idx].max().into_u32());
                    probes.extend([lo, hi, lo.wrapping_sub(1), hi.wrapping_add(1)]);
                }
            }
            for a in probes {
                let one: AsBlocks = std::iter::once(rpki::repository::resources::AsBlock::Id(Asn::from_u32(a))).collect();
                let _ = (b.contains_asn(Asn::from_u32(a)), b.contains(&one), b.intersection(&one).is_empty(), b.difference(&one).is_empty());
            }
        });
        self.run("C04.as.verify_issued", "AsBlocks::verify_issued/verify_covered", || {
            let res = AsResources::blocks(b.clone());
            let _ = other.verify_issued(&res, Overclaim::Refuse);
            let _ = other.verify_issued(&res, Overclaim::Trim);
            let _ = b.verify_covered(&AsResources::blocks(other.clone()));
        });
        self.run("C04.reencode.resources", "AsBlocks::encode_ref", || { b.encode_ref().to_captured(Mode::Der).len() });
    }

    fn resource_cert(&mut self, rc: &ResourceCert) {
        let (v4, v6, asn) = (rc.v4_resources().clone(), rc.v6_resources().clone(), rc.as_resources().clone());
        self.ip_blocks(&v4, true); self.ip_blocks(&v6, false); self.as_blocks(&asn);
    }

    /// Optional / generic siblings of the top-level decoders give the same verdict and value.
    fn top_siblings(&mut self, cert: bool, reencoded: &[u8]) {
        let bytes = self.bytes;
        self.check("C04.variant", "take_opt_from / SignedData::decode", || {
            use rpki::repository::x509::SignedData;
            let sd = SignedData::<RpkiSignatureAlgorithm>::decode(bytes).map_err(|e| format!("SignedData::decode rejects a decodable object: {e}"))?;
            let sd2 = Mode::Der.decode(bytes, |c| SignedData::<RpkiSignatureAlgorithm>::take_from(c)).map_err(|e| format!("SignedData::take_from: {e}"))?;
            if sd != sd2 { return Err("SignedData::decode and take_from differ".into()) }
            if cert {
                match Mode::Der.decode(bytes, |c| Cert::take_opt_from(c)) {
                    Ok(Some(c2)) => if c2.to_captured().as_slice() == reencoded { Ok(()) } else { Err("Cert::take_opt_from gives a different certificate".into()) },
                    Ok(None) => Err("Cert::take_opt_from finds nothing in a decodable certificate".into()),
                    Err(e) => Err(format!("Cert::take_opt_from rejects a decodable certificate: {e}")),
                }
            } else {
                match Mode::Der.decode(bytes, |c| Crl::take_opt_from(c)) {
                    Ok(Some(c2)) => if *c2.signed_data() == sd && c2.to_captured().as_slice() == reencoded { Ok(()) } else { Err("Crl::take_opt_from gives a different CRL".into()) },
                    Ok(None) => Err("Crl::take_opt_from finds nothing in a decodable CRL".into()),
                    Err(e) => Err(format!("Crl::take_opt_from rejects a decodable CRL: {e}")),
                }
            }
        });
    }

    //--- certificates

    fn public_key(&mut self, k: &PublicKey) {
        let sig = self.env.some_sig.clone();
        self.run("C04.key.accessors", "PublicKey accessors", || {
            let _ = (k.algorithm(), k.bits().len(), k.bits_bytes(), k.allow_rpki_cert(), k.allow_router_cert());
            let _ = k.key_identifier().to_string();
            let _ = k.to_subject_name();
            let _ = k.encode_subject_name().to_captured(Mode::Der);
            let _ = k.verify(b"C04", &sig);
            let _ = k == k;
        });
        self.check("C04.variant", "PublicKey constructors / KeyIdentifier and DigestAlgorithm siblings", || {
            use rpki::crypto::keys::{KeyIdentifier, PublicKeyFormat};
            // by-value encoder == by-reference encoder
            if k.clone().encode().to_captured(Mode::Der).as_slice() != k.encode_ref().to_captured(Mode::Der).as_slice() { return Err("PublicKey::encode differs from encode_ref".into()) }
            if k.bits_bytes().as_ref() != k.bits() { return Err("bits_bytes differs from bits".into()) }
            if k.algorithm() == PublicKeyFormat::Rsa {
                // the key's own bits must give back the same key, if they are an RSA key at all
                if let Ok(k2) = PublicKey::rsa_from_bits_bytes(k.bits_bytes()) {
                    if k2.bits() != k.bits() || k2.algorithm() != k.algorithm() { return Err("rsa_from_bits_bytes(bits_bytes()) gives a different key".into()) }
                    if let Some(t) = Tree::parse(k.bits()) {
                        if t.nodes.len() == 3 && t.nodes[1].tag == 2 && t.nodes[2].tag == 2 {
                            let part = |i: usize| { let n = &t.nodes[i]; &k.bits()[n.start + n.hdr..n.content_end()] };
                            if let Ok(k3) = PublicKey::rsa_from_components(part(1), part(2)) {
                                if k3.key_identifier() != k.key_identifier() && k3.bits().len() == k.bits().len() { return Err("rsa_from_components(n, e) gives a different key".into()) }
                            }
                        }
                    }
                }
            }
            // key identifier: optional / skipping siblings of take_from on its own encoding
            let ki = k.key_identifier();
            let enc = ki.encode_ref().to_captured(Mode::Der);
            match Mode::Der.decode(enc.as_slice(), |c| KeyIdentifier::take_opt_from(c)) { Ok(Some(x)) if x == ki => {}, other => return Err(format!("KeyIdentifier::take_opt_from on its own encoding: {:?}", other.map(|o| o.map(|k| k.to_string())).map_err(|e| e.to_string()))) }
            match Mode::Der.decode(enc.as_slice(), |c| KeyIdentifier::skip_opt_in(c)) { Ok(Some(())) => {}, _ => return Err("KeyIdentifier::skip_opt_in on its own encoding".into()) }
            match Mode::Der.decode(enc.as_slice(), |c| KeyIdentifier::take_from(c)) { Ok(x) if x == ki => {}, _ => return Err("KeyIdentifier::take_from on its own encoding".into()) }
            // digest algorithm siblings
            let alg = DigestAlgorithm::default();
            let one = alg.encode().to_captured(Mode::Der);
            match Mode::Der.decode(one.as_slice(), |c| DigestAlgorithm::take_opt_from(c)) { Ok(Some(a)) if a == alg => {}, _ => return Err("DigestAlgorithm::take_opt_from on its own encoding".into()) }
            let set = alg.encode_set().to_captured(Mode::Der);
            if Mode::Der.decode(set.as_slice(), |c| DigestAlgorithm::skip_set(c)).is_err() || Mode::Der.decode(set.as_slice(), |c| DigestAlgorithm::take_set_from(c)).is_err() { return Err("DigestAlgorithm::skip_set / take_set_from on its own set encoding".into()) }
            let mut ctx = rpki::crypto::digest::start_sha1(); ctx.update(k.bits());
            if ctx.finish().as_ref() != rpki::crypto::digest::sha1_digest(k.bits()).as_ref() || rpki::crypto::digest::sha1_digest(k.bits()).as_ref() != ki.as_slice() { return Err("sha1_digest / start_sha1 / key_identifier disagree".into()) }
            Ok(())
        });
        if self.run("C04.reencode.key", "PublicKey::to_info_bytes", || k.to_info_bytes().len()).is_some() {
            self.run("C04.serde", "PublicKey serde", || {
                if let Ok(s) = serde_json::to_string(k) { let _ = serde_json::from_str::<PublicKey>(&s); }
            });
        }
    }

    fn cert(&mut self, c: &Cert) {
        let env = self.env;
        if self.run("C04.reencode", "Cert::to_captured", || c.to_captured().len()).is_some() {
            self.run("C04.serde", "Cert serde", || {
                if let Ok(s) = serde_json::to_string(c) { let _ = serde_json::from_str::<Cert>(&s); }
            });
        }
        self.run("C04.cert.accessors", "TbsCert accessors", || {
            let sn = c.serial_number();
            let _ = (sn.to_string(), format!("{sn:?}"), String::from(sn), sn.into_array());
            let _ = Serial::from_str(&sn.to_string());
            let _ = serde_json::to_string(&sn);
            let _ = (c.issuer() == c.subject(), serde_json::to_string(c.issuer()), serde_json::to_string(c.subject()));
            let v = c.validity();
            let _ = (v.not_before(), v.not_after(), v.verify_at(t0()), v.not_before().to_binary_time(), v.not_after().timestamp());
            let _ = (c.basic_ca(), c.subject_key_identifier().to_string(), c.authority_key_identifier().map(|k| k.to_string()), c.key_usage());
            let _ = c.extended_key_usage().map(|e| e.inspect_router().is_ok());
            let _ = (c.crl_uri().map(|u| u.to_string()), c.ca_issuer().map(|u| u.to_string()), c.ca_repository().map(|u| u.to_string()),
                     c.rpki_manifest().map(|u| u.to_string()), c.signed_object().map(|u| u.to_string()), c.rpki_notify().map(|u| u.to_string()));
            let _ = (c.overclaim(), c.has_ip_resources(), c.is_ca(), c.is_self_signed());
            let _ = format!("{:?}", c.validity());
        });
        let key = c.subject_public_key_info().clone();
        self.public_key(&key);
        self.run("C04.cert.inspect", "Cert::inspect_*", || {
            for strict in [false, true] {
                let _ = c.inspect_ta(strict); let _ = c.inspect_ca(strict); let _ = c.inspect_ee(strict);
                let _ = c.inspect_detached_ee(strict); let _ = c.inspect_router(strict);
                let _ = c.issuer().inspect_rpki(strict); let _ = c.subject().inspect_router(strict);
            }
        });
        // resources as claimed
        let v4 = self.run("C04.cert.resources", "TbsCert::v4_resources", || { let r = c.v4_resources(); let _ = (r.is_inherited(), r.is_present()); r.to_blocks().ok() }).flatten();
        let v6 = self.run("C04.cert.resources", "TbsCert::v6_resources", || { let r = c.v6_resources(); let _ = (r.is_inherited(), r.is_present()); r.to_blocks().ok() }).flatten();
        let asn = self.run("C04.cert.resources", "TbsCert::as_resources", || { let r = c.as_resources(); let _ = (r.is_inherited(), r.is_present(), r.to_string()); r.to_blocks().ok() }).flatten();
        if let Some(b) = v4 { self.ip_blocks(&b, true) }
        if let Some(b) = v6 { self.ip_blocks(&b, false) }
        if let Some(b) = asn { self.as_blocks(&b) }
        // validation against the fixed issuers
        let mut validated: Vec<ResourceCert> = Vec::new();
        self.run("C04.cert.validate_at", "Cert::validate_*_at", || {
            // the trust-anchor forms do not depend on an issuer: once per instant
            let mut seen_t: Vec<i64> = Vec::new();
            for (_, t) in env.issuers.iter() {
                if seen_t.contains(&t.timestamp()) { continue }
                seen_t.push(t.timestamp());
                for strict in [false, true] {
                    let _ = c.verify_ta_ref_at(strict, *t);
                    if let Ok(rc) = c.clone().validate_ta_at(pki::tal(), strict, *t) { validated.push(rc) }
                }
            }
            for (issuer, t) in env.issuers.iter() {
                let _ = c.verify_validity(*t);
                for strict in [false, true] {
                    let _ = c.verify_issuer_claim(issuer, strict);
                    if let Ok(rc) = c.clone().validate_ca_at(issuer, strict, *t) { validated.push(rc) }
                    if let Ok(rc) = c.clone().validate_ee_at(issuer, strict, *t) { validated.push(rc) }
                    if let Ok(rc) = c.clone().validate_detached_ee_at(issuer, strict, *t) { validated.push(rc) }
                    let _ = c.validate_router_at(issuer, strict, *t);
                }
            }
        });
        if let Some(rc) = validated.first() {
            let rc = rc.clone(); self.mark("Cert::validate_*_at ok"); self.resource_cert(&rc);
            self.check("C04.variant", "ResourceCert::into_tal", || {
                let name = rc.tal().name().to_string();
                if rc.clone().into_tal().name() != name { return Err("into_tal differs from tal()".into()) }
                let _ = rc.as_cert().subject_key_identifier();
                Ok(())
            });
        }
        // wall-clock siblings give the verdict of their *_at(now) forms; compared for every input of
        // the certificate entry point (certificates embedded in signed objects go through the same
        // functions via Roa::process / Aspa::process / Manifest::validate)
        if self.ep == Ep::Cert { self.check("C04.variant", "Cert::validate_* / verify_* (wall clock)", || {
            let now = Time::now();
            let d = |what: &str, a: bool, b: bool| if a != b { Err(format!("{what}: wall-clock form says {a}, *_at(now) says {b}")) } else { Ok(()) };
            d("Validity::verify", c.validity().verify().is_ok(), c.validity().verify_at(now).is_ok())?;
            d("verify_ta_ref", c.verify_ta_ref(true).is_ok(), c.verify_ta_ref_at(true, now).is_ok())?;
            if c.is_self_signed() {
                d("validate_ta", c.clone().validate_ta(pki::tal(), true).is_ok(), c.clone().validate_ta_at(pki::tal(), true, now).is_ok())?;
                d("verify_ta", c.clone().verify_ta(pki::tal(), true).is_ok(), c.clone().verify_ta_at(pki::tal(), true, now).is_ok())?;
            }
            for (issuer, _) in env.issuers.iter() {
                for strict in [true] {
                    // these need the issuer's signature: only where the issuer is named
                    if c.verify_issuer_claim(issuer, strict).is_err() { continue }
                    d("validate_ca", c.clone().validate_ca(issuer, strict).is_ok(), c.clone().validate_ca_at(issuer, strict, now).is_ok())?;
                    d("verify_ca", c.clone().verify_ca(issuer, strict).is_ok(), c.clone().verify_ca_at(issuer, strict, now).is_ok())?;
                    d("validate_ee", c.clone().validate_ee(issuer, strict).is_ok(), c.clone().validate_ee_at(issuer, strict, now).is_ok())?;
                    d("verify_ee", c.clone().verify_ee(issuer, strict).is_ok(), c.clone().verify_ee_at(issuer, strict, now).is_ok())?;
                    d("validate_detached_ee", c.clone().validate_detached_ee(issuer, strict).is_ok(), c.clone().validate_detached_ee_at(issuer, strict, now).is_ok())?;
                    d("validate_router", c.validate_router(issuer, strict).is_ok(), c.validate_router_at(issuer, strict, now).is_ok())?;
                    d("verify_router", c.verify_router(issuer, strict).is_ok(), c.verify_router_at(issuer, strict, now).is_ok())?;
                }
            }
            Ok(())
        }) }
    }

    fn id_cert(&mut self, c: &IdCert) {
        let env = self.env;
        if self.run("C04.reencode", "IdCert::to_captured", || { let _ = c.to_bytes(); c.to_captured().len() }).is_some() {
            self.run("C04.serde", "IdCert serde", || {
                if let Ok(s) = serde_json::to_string(c) { let _ = serde_json::from_str::<IdCert>(&s); }
            });
        }
        self.run("C04.idcert.accessors", "TbsIdCert accessors", || {
            let _ = (c.serial_number().to_string(), c.subject_key_identifier().to_string(), c.subject_key_id(), c.authority_key_id());
            let _ = (serde_json::to_string(c.subject()), c.validity().not_before(), c.validity().not_after(), c == c);
        });
        let key = c.public_key().clone();
        self.public_key(&key);
        let ok = self.run("C04.idcert.validate_at", "IdCert::validate_*_at", || {
            let mut ok = false;
            for (k, t) in env.keys.iter() {
                ok |= c.validate_ta_at(*t).is_ok(); ok |= c.validate_ee_at(k, *t).is_ok(); let _ = c.verify_validity(*t);
            }
            ok
        });
        if ok == Some(true) { self.mark("IdCert::validate_*_at ok") }
        self.check("C04.variant", "IdCert::validate_ta / validate_ee (wall clock)", || {
            let now = Time::now();
            if c.validate_ta().is_ok() != c.validate_ta_at(now).is_ok() { return Err("validate_ta differs from validate_ta_at(now)".into()) }
            for (k, _) in env.keys.iter() {
                if c.validate_ee(k).is_ok() != c.validate_ee_at(k, now).is_ok() { return Err("validate_ee differs from validate_ee_at(now)".into()) }
            }
            Ok(())
        });
    }

    //--- CRL

    fn crl(&mut self, crl: &Crl) {
        let env = self.env; let n = self.n;
        let first = self.run("C04.crl.iter", "RevokedCertificates::iter (first)", || crl.revoked_certs().iter().next().map(|e| e.user_certificate)).flatten();
        let n0 = self.n;
        let (mid, last) = self.run("C04.crl.iter", "RevokedCertificates::iter (middle, last)", || {
            let v: Vec<Serial> = crl.revoked_certs().iter().take(n0 + 1).map(|e| e.user_certificate).collect();
            (v.get(v.len() / 2).copied(), v.last().copied())
        }).unwrap_or((None, None));
        let serials = [first.unwrap_or(Serial::from(9u64)), mid.unwrap_or(Serial::from(11u64)), last.unwrap_or(Serial::from(12u64)), Serial::from(0u64), Serial::from(11u64), Serial::from(u128::MAX >> 1)];
        self.run("C04.crl.contains", "Crl::contains", || {
            for s in serials { let _ = crl.contains(s); let _ = crl.revoked_certs().contains(s); }
        });
        self.check("C04.crl.iter", "RevokedCertificates::iter", || {
            count_bounded(crl.revoked_certs().iter(), n)?;
            for e in crl.revoked_certs().iter() { let _ = (e.user_certificate.to_string(), e.revocation_date); }
            Ok(())
        });
        self.run("C04.crl.cache_serials", "Crl::cache_serials", || {
            let mut c2 = crl.clone(); c2.cache_serials();
            for s in serials { let _ = c2.contains(s); }
            let mut store = CrlStore::new(); store.enable_serial_caching();
            store.push(rsync("rsync://example.net/repo/ca/ca.crl"), crl.clone());
            let _ = store.get(&rsync("rsync://example.net/repo/ca/ca.crl")).map(|c| c.contains(serials[0]));
        });
        self.check("C04.variant", "RevokedCertificates::empty / CrlEntry::take_from", || {
            let e = rpki::repository::crl::RevokedCertificates::empty();
            if e.contains(serials[0]) || e.iter().next().is_some() { return Err("the empty list contains something".into()) }
            // every listed entry decodes with the mandatory sibling as well and is found by contains
            let total = crl.revoked_certs().iter().count();
            for (i, entry) in crl.revoked_certs().iter().enumerate() {
                if i >= 6 && i + 2 < total { continue }     // the first six and the last two (contains is linear)
                let enc = entry.encode().to_captured(Mode::Der);
                match Mode::Der.decode(enc.as_slice(), |c| CrlEntry::take_from(c)) {
                    Ok(x) if x.user_certificate == entry.user_certificate => {}
                    _ => return Err("CrlEntry::take_from on an entry's own encoding".into()),
                }
                if !crl.contains(entry.user_certificate) { return Err(format!("entry {} is listed by iter but not found by contains", entry.user_certificate)) }
            }
            Ok(())
        });
        self.run("C04.crl.accessors", "TbsCertList accessors", || {
            let _ = (crl.signature(), serde_json::to_string(crl.issuer()), crl.this_update(), crl.next_update(), crl.is_stale(),
                     crl.authority_key_identifier().to_string(), crl.crl_number().to_string());
            let _ = crl.signed_data().signature().value().len();
        });
        let ok = self.run("C04.crl.verify_signature", "Crl::verify_signature", || {
            let mut ok = false;
            for (k, _) in env.keys.iter() { ok |= crl.verify_signature(k).is_ok(); }
            for (rc, _) in env.issuers.iter() { ok |= crl.verify_signature(rc.as_cert().subject_public_key_info()).is_ok(); }
            ok
        });
        if ok == Some(true) { self.mark("Crl::verify_signature ok") }
        self.run("C04.reencode.content", "TbsCertList::encode_ref", || crl.as_cert_list().encode_ref().to_captured(Mode::Der).len());
        if self.run("C04.reencode", "Crl::to_captured", || crl.to_captured().len()).is_some() {
            self.run("C04.serde", "Crl serde", || {
                if let Ok(s) = serde_json::to_string(crl) { let _ = serde_json::from_str::<Crl>(&s); }
            });
        }
    }

    //--- signed objects

    fn manifest(&mut self, m: &Manifest) {
        let env = self.env; let n = self.n;
        if self.run("C04.reencode", "Manifest::to_captured", || m.to_captured().len()).is_some() {
            self.run("C04.serde", "Manifest serde", || {
                if let Ok(s) = serde_json::to_string(m) { let _ = serde_json::from_str::<Manifest>(&s); }
            });
        }
        self.run("C04.reencode.content", "ManifestContent::encode_ref", || m.content().encode_ref().to_captured(Mode::Der).len());
        self.run("C04.mft.accessors", "ManifestContent accessors", || {
            let _ = (m.manifest_number().to_string(), m.this_update(), m.next_update(), m.file_hash_alg(), m.len(), m.is_empty(), m.is_stale());
        });
        self.check("C04.mft.iter", "ManifestContent::iter", || {
            count_bounded(m.iter(), n)?;
            for f in m.iter() {
                let _ = (f.file().len(), f.hash().len());
                let _ = f.encode_ref().to_captured(Mode::Der);
                let _ = f.into_pair();
            }
            Ok(())
        });
        self.check("C04.mft.iter_uris", "ManifestContent::iter_uris", || {
            count_bounded(m.iter_uris(&env.base), n)?;
            for (u, h) in m.iter_uris(&env.base) { let _ = (u.to_string(), h.algorithm(), h.as_slice().len(), h.verify(b"x").is_ok()); }
            Ok(())
        });
        let ok = self.run("C04.mft.validate_at", "Manifest::validate_at", || {
            let mut ok = false;
            for (i, (issuer, t)) in env.issuers.iter().enumerate() {
                // every call verifies the object's signature first: all issuers that are named, plus one that is not
                if i > 0 && m.cert().verify_issuer_claim(issuer, false).is_err() { continue }
                for strict in [false, true] {
                    if let Ok((rc, content)) = m.clone().validate_at(issuer, strict, *t) {
                        ok = true;
                        let _ = (rc.v4_resources().is_empty(), content.len(), content.iter().count());
                    }
                }
            }
            ok
        });
        if ok == Some(true) { self.mark("Manifest::validate_at ok") }
        self.check("C04.variant", "Manifest::validate (wall clock)", || {
            let now = Time::now();
            for (issuer, _) in env.issuers.iter() {
                if m.cert().verify_issuer_claim(issuer, false).is_err() { continue }
                for strict in [false, true] {
                    if m.clone().validate(issuer, strict).is_ok() != m.clone().validate_at(issuer, strict, now).is_ok() { return Err("validate differs from validate_at(now)".into()) }
                }
            }
            Ok(())
        });
        let c = m.cert().clone();
        self.cert(&c);
    }

    fn roa(&mut self, r: &Roa) {
        let env = self.env; let n = self.n;
        if self.run("C04.reencode", "Roa::to_captured", || r.to_captured().len()).is_some() {
            self.run("C04.serde", "Roa serde", || {
                if let Ok(s) = serde_json::to_string(r) { let _ = serde_json::from_str::<Roa>(&s); }
            });
        }
        self.run("C04.reencode.content", "RouteOriginAttestation::encode_ref", || r.content().encode_ref().to_captured(Mode::Der).len());
        self.check("C04.roa.addrs", "RoaIpAddresses::iter", || {
            let c = r.content();
            let _ = (c.as_id().to_string(), c.v4_addrs().is_empty(), c.v6_addrs().is_empty());
            count_bounded(c.v4_addrs().iter(), n)?;
            count_bounded(c.v6_addrs().iter(), n)?;
            for a in c.v4_addrs().iter().chain(c.v6_addrs().iter()) {
                let p = a.prefix();
                let _ = (p.addr(), p.addr_len(), p.to_v4(), p.to_v6(), p.range(), a.range(), a.max_length());
            }
            Ok(())
        });
        self.check("C04.roa.iter", "RouteOriginAttestation::iter", || {
            count_bounded(r.content().iter(), n)?;
            for f in r.content().iter() { let _ = (f.prefix(), f.is_v4(), f.address(), f.address_length(), f.max_length(), f.to_string()); }
            Ok(())
        });
        self.check("C04.roa.iter_origins", "RouteOriginAttestation::iter_origins", || {
            count_bounded(r.content().iter_origins(), n)?;
            for o in r.content().iter_origins() { let _ = format!("{o:?}"); }
            Ok(())
        });
        self.run("C04.ip.contains_roa", "IpBlocks::contains_roa", || {
            for (issuer, _) in env.issuers.iter() {
                for a in r.content().v4_addrs().iter() { let _ = issuer.v4_resources().contains_roa(&a); }
                for a in r.content().v6_addrs().iter() { let _ = issuer.v6_resources().contains_roa(&a); }
            }
        });
        let ok = self.run("C04.roa.process", "Roa::process", || {
            let mut ok = false;
            for (i, (issuer, _)) in env.issuers.iter().enumerate() {
                if i > 0 && r.cert().verify_issuer_claim(issuer, false).is_err() { continue }
                for strict in [false, true] {
                    if let Ok((rc, att)) = r.clone().process(issuer, strict, |_| Ok(())) {
                        ok = true;
                        let _ = (rc.v4_resources().is_empty(), att.iter().count());
                    }
                }
            }
            ok
        });
        if ok == Some(true) { self.mark("Roa::process ok") }
        let c = r.cert().clone();
        self.cert(&c);
    }

    fn aspa(&mut self, a: &Aspa) {
        let env = self.env; let n = self.n;
        if self.run("C04.reencode", "Aspa::to_captured", || a.to_captured().len()).is_some() {
            self.run("C04.serde", "Aspa serde", || {
                if let Ok(s) = serde_json::to_string(a) { let _ = serde_json::from_str::<Aspa>(&s); }
            });
        }
        self.run("C04.reencode.content", "AsProviderAttestation::encode_ref", || a.content().encode_ref().to_captured(Mode::Der).len());
        self.check("C04.aspa.providers", "ProviderAsSet::iter", || {
            let c = a.content();
            let _ = (c.customer_as().to_string(), c.provider_as_set().len());
            count_bounded(c.provider_as_set().iter(), n)?;
            let set = c.provider_as_set().to_set();
            let _ = (set.len(), set.iter().count(), set.contains(Asn::from_u32(64497)));
            Ok(())
        });
        let res = self.run("C04.aspa.as_resources", "AsProviderAttestation::as_resources", || a.content().as_resources().to_blocks().ok()).flatten();
        if let Some(b) = res { self.as_blocks(&b) }
        let ok = self.run("C04.aspa.process", "Aspa::process", || {
            let mut ok = false;
            for (i, (issuer, _)) in env.issuers.iter().enumerate() {
                if i > 0 && a.cert().verify_issuer_claim(issuer, false).is_err() { continue }
                for strict in [false, true] {
                    if let Ok((_, att)) = a.clone().process(issuer, strict, |_| Ok(())) { ok = true; let _ = att.provider_as_set().iter().count(); }
                }
            }
            ok
        });
        if ok == Some(true) { self.mark("Aspa::process ok") }
        let c = a.cert().clone();
        self.cert(&c);
    }

    fn rta(&mut self, r: &rta::Rta) {
        let env = self.env;
        self.run("C04.reencode", "Rta::to_captured", || r.to_captured().len());
        self.run("C04.reencode.content", "ResourceTaggedAttestation::encode_ref", || r.content().encode_ref().to_captured(Mode::Der).len());
        self.run("C04.rta.accessors", "ResourceTaggedAttestation accessors", || {
            let c = r.content();
            let _ = (c.subject_keys().len(), c.digest_algorithm(), c.message_digest().as_ref().len());
        });
        let (v4, v6, asn) = (r.v4_resources().clone(), r.v6_resources().clone(), r.as_resources().clone());
        self.ip_blocks(&v4, true); self.ip_blocks(&v6, false); self.as_blocks(&asn);
        let ok = self.run("C04.rta.validation", "rta::Validation", || {
            let mut ok = 0u8;
            for strict in [false, true] {
                if let Ok(mut v) = rta::Validation::new_at(r, strict, t0()) {
                    ok |= 1;
                    if let Some(tal) = env.tal.as_ref() { let _ = v.supply_tal(tal); }
                    for (issuer, _) in env.issuers.iter() { if let Ok(true) = v.supply_ca(issuer) { ok |= 4 } }
                    if v.finalize().map(|c| c.subject_keys().len()).is_ok() { ok |= 2 }
                }
            }
            ok
        });
        if let Some(ok) = ok { if ok & 1 != 0 { self.mark("rta::Validation::new_at ok") } if ok & 2 != 0 { self.mark("rta::Validation::finalize ok") } if ok & 4 != 0 { self.mark("rta::Validation::supply_ca accepted") } }
        // wall-clock sibling: same verdict as new_at(now)
        self.check("C04.variant", "rta::Validation::new", || {
            for strict in [true] {
                let a = rta::Validation::new(r, strict).is_ok();
                let b = rta::Validation::new_at(r, strict, Time::now()).is_ok();
                if a != b { return Err(format!("Validation::new says {a}, new_at(now) says {b} (strict={strict})")) }
            }
            Ok(())
        });
        // builder view of the decoded object: getters return what was decoded; taking the
        // object apart and putting it together again gives the same encoding
        self.check("C04.rta.builder", "RtaBuilder::from_rta / AttestationBuilder", || {
            let orig = r.to_captured();
            let mut b = rta::RtaBuilder::from_rta(r.clone());
            if b.content().subject_keys() != r.subject_keys() { return Err("RtaBuilder::content differs from Rta::content".into()) }
            let (nc, nl, ns) = (b.certificates().len(), b.crls().len(), b.signer_infos().len());
            for c in b.certificates() { let _ = c.subject_key_identifier(); }
            for c in b.crls() { let _ = c.crl_number(); }
            for si in b.signer_infos() { let _ = (si.signing_time(), si.encode_ref().to_captured(Mode::Der).len()); }
            if let Some(c) = b.certificates_mut().pop() { b.push_cert(c) }
            if let Some(c) = b.crls_mut().pop() { b.push_crl(c) }
            if let Some(si) = b.signer_infos_mut().pop() { b.signer_infos_mut().push(si) }
            if (nc, nl, ns) != (b.certificates().len(), b.crls().len(), b.signer_infos().len()) { return Err("builder element counts changed".into()) }
            let again = b.finalize().to_captured();
            if again.as_slice() != orig.as_slice() { return Err("RtaBuilder::from_rta(..).finalize() re-encodes differently".into()) }
            // attestation builder: what is pushed is what the getters and the result show
            let c = r.content();
            let mut ab = rta::AttestationBuilder::new(c.digest_algorithm(), c.message_digest().clone());
            for k in c.subject_keys() { ab.push_key(*k) }
            for x in c.as_resources().iter() { ab.push_as(x) }
            for x in c.v4_resources().iter() { ab.v4_resources_mut().push(x) }
            for x in c.v6_resources().iter() { ab.push_v6(x) }
            if ab.keys() != c.subject_keys() { return Err("AttestationBuilder::keys differs from what was pushed".into()) }
            let k0 = ab.keys_mut().pop(); if let Some(k) = k0 { ab.keys_mut().push(k) }
            let _ = (ab.as_resources(), ab.v4_resources(), ab.v6_resources());
            ab.as_resources_mut().extend(std::iter::empty()); ab.v6_resources_mut().extend(std::iter::empty());
            let att = ab.into_attestation();
            if att.subject_keys() != c.subject_keys() { return Err("into_attestation lost subject keys".into()) }
            // the builders canonicalise; a decoded canonical list must survive unchanged
            let canon = |b: &AsBlocks| b.iter().collect::<AsBlocks>() == *b;
            if canon(c.as_resources()) && att.as_resources() != c.as_resources() { return Err("AS resources changed by the attestation builder".into()) }
            Ok(())
        });
        // the signed-object layer on its own
        let bytes = self.bytes;
        let this_mode = !self.relaxed;
        self.check("C04.variant", "MultiSignedObject::decode", || {
            for strict in [this_mode] {
                match rta::MultiSignedObject::decode(bytes, strict) {
                    Ok(m) => {
                        let _ = m.content().len();
                        let inner = m.decode_content(|cons| cons.take_sequence(|c| c.skip_all()));
                        if let Err(e) = inner { return Err(format!("content of a decodable RTA cannot be walked with decode_content: {e}")) }
                        let _ = m.encode_ref().to_captured(Mode::Der).len();
                    }
                    Err(e) => return Err(format!("Rta::decode accepts what MultiSignedObject::decode rejects: {e}")),
                }
            }
            Ok(())
        });
    }

    fn tal(&mut self, t: &Tal) {
        let n = self.n;
        self.check("C04.tal.accessors", "Tal accessors", || {
            count_bounded(t.uris(), n)?;
            for u in t.uris() { let _ = (u.is_rsync(), u.is_https(), u.as_str().len(), u.to_string()); }
            let _ = t.info().name().len();
            let mut t2 = t.clone(); t2.prefer_https();
            Ok(())
        });
        let k = t.key_info().clone();
        self.public_key(&k);
        // file based siblings (temp dir outside /repo and /verif) and TalUri constructors
        let bytes = self.bytes;
        self.check("C04.variant", "Tal::read / Tal::read_dir / TalUri::from_string / digest_file", || {
            for u in t.uris() {
                match rpki::repository::tal::TalUri::from_string(u.as_str().to_string()) {
                    Ok(u2) => if u2 != *u || u2.is_rsync() != u.is_rsync() || u2.is_https() != u.is_https() { return Err(format!("TalUri::from_string({}) differs", u.as_str())) },
                    Err(e) => return Err(format!("TalUri::from_string rejects its own as_str {}: {e}", u.as_str())),
                }
                let _ = rpki::repository::tal::TalUri::from_slice(u.as_str().as_bytes());
            }
            let dir = std::env::temp_dir().join(format!("c04-tal-{}", std::process::id()));
            std::fs::create_dir_all(&dir).map_err(|e| format!("temp dir: {e}"))?;
            let path = dir.join("case.tal");
            std::fs::write(&path, bytes).map_err(|e| format!("temp file: {e}"))?;
            let same = |a: &Tal, what: &str| -> Result<(), String> {
                if a.key_info() != t.key_info() || a.uris().collect::<Vec<_>>() != t.uris().collect::<Vec<_>>() { return Err(format!("{what} gives a different TAL than read_named")) }
                if a.info().name() != "case" { return Err(format!("{what} names the TAL {:?}", a.info().name())) }
                Ok(())
            };
            let mut rd = bytes;
            match Tal::read(&path, &mut rd) { Ok(a) => same(&a, "Tal::read")?, Err(e) => return Err(format!("Tal::read rejects what read_named accepts: {e}")) }
            let mut n = 0;
            for item in Tal::read_dir(&dir).map_err(|e| format!("read_dir: {e}"))? {
                match item { Ok(a) => { n += 1; same(&a, "Tal::read_dir")? }, Err(e) => return Err(format!("Tal::read_dir: {e}")) }
            }
            if n != 1 { return Err(format!("Tal::read_dir yields {n} TALs for one file")) }
            let alg = DigestAlgorithm::default();
            let d = alg.digest_file(&path).map_err(|e| format!("digest_file: {e}"))?;
            if d.as_ref() != alg.digest(bytes).as_ref() || d.as_ref().len() != alg.digest_len() || !alg.is_sha256() { return Err("digest_file differs from digest".into()) }
            let _ = std::fs::remove_file(&path);
            Ok(())
        });
    }

    fn csr<A, B>(&mut self, c: &Csr<A, B>, extra: impl FnOnce(&Csr<A, B>))
    where A: rpki::crypto::SignatureAlgorithm, B: rpki::ca::csr::CsrAttributes {
        if self.run("C04.reencode", "Csr::to_captured", || c.to_captured().len()).is_some() {
            self.run("C04.serde", "Csr serde", || {
                if let Ok(s) = serde_json::to_string(c) { let _ = serde_json::from_str::<Csr<A, B>>(&s); }
            });
        }
        self.run("C04.csr.accessors", "Csr accessors", || {
            let _ = serde_json::to_string(c.subject());
            let _ = c.public_key().key_identifier();
            let _ = c.attributes();
            extra(c);
        });
        if self.run("C04.csr.verify_signature", "Csr::verify_signature", || c.verify_signature().is_ok()) == Some(true) { self.mark("Csr::verify_signature ok") }
        let k = c.public_key().clone();
        self.public_key(&k);
    }

    fn sigmsg(&mut self, m: &SignedMessage) {
        let env = self.env; let n = self.n;
        self.run("C04.reencode", "SignedMessage::to_captured", || m.to_captured().len());
        self.check("C04.sigmsg.accessors", "SignedMessage accessors", || {
            let _ = (m.content_type().to_string(), m.content().to_bytes().len(), m.content().len());
            count_bounded(m.content().iter(), n.max(1))?;
            Ok(())
        });
        let ok = self.run("C04.sigmsg.validate_at", "SignedMessage::validate_at", || {
            let mut ok = false;
            for (k, t) in env.keys.iter() { ok |= m.validate_at(k, *t).is_ok(); }
            ok
        });
        if ok == Some(true) { self.mark("SignedMessage::validate_at ok") }
        self.check("C04.variant", "SignedMessage::validate (wall clock)", || {
            // every call verifies the message's own signature first, whatever the key: one key is enough here
            let now = Time::now();
            if let Some((k, _)) = env.keys.first() {
                if m.validate(k).is_ok() != m.validate_at(k, now).is_ok() { return Err("validate differs from validate_at(now)".into()) }
            }
            Ok(())
        });
    }
}

/// Decodes `bytes` with one entry point and, on success, runs the accessor
/// sweep for the decoded type.
fn run_case(env: &Env, ep: Ep, bytes: &[u8], do_sweep: bool) -> CaseOut {
    let n = bytes.len();
    let calls = Cell::new(0u64);
    let budget = STEP_C * n as u64 + STEP_K;
    let src = || CountSource { data: bytes, pos: 0, calls: &calls, budget };
    let mut sw = Sweep { env, n, bytes, relaxed: ep.mode() == "relaxed", ep, fails: Vec::new(), marks: Vec::new() };
    let mut reject = String::new();
    let mut steps_exceeded = false;
    macro_rules! dec {
        ($e:expr, $v:ident => $body:expr) => {
            match guard(|| $e) {
                Err(p) => { sw.push("C04.decode", "decode", p); false }
                Ok(Err(e)) => { let s = e.to_string(); if s.contains("step budget") { steps_exceeded = true } reject = err_class(&s); false }
                Ok(Ok($v)) => { if do_sweep { $body; } true }
            }
        };
    }
    let decoded = match ep {
        Ep::Cert => dec!(Cert::decode(src()), v => { sw.cert(&v); let cap = v.to_captured(); sw.top_siblings(true, cap.as_slice()) }),
        Ep::Crl => dec!(Crl::decode(src()), v => { sw.crl(&v); let cap = v.to_captured(); sw.top_siblings(false, cap.as_slice()) }),
        Ep::MftS => dec!(Manifest::decode(src(), true), v => sw.manifest(&v)),
        Ep::MftR => dec!(Manifest::decode(src(), false), v => sw.manifest(&v)),
        Ep::RoaS => dec!(Roa::decode(src(), true), v => sw.roa(&v)),
        Ep::RoaR => dec!(Roa::decode(src(), false), v => sw.roa(&v)),
        Ep::AspaS => dec!(Aspa::decode(src(), true), v => sw.aspa(&v)),
        Ep::AspaR => dec!(Aspa::decode(src(), false), v => sw.aspa(&v)),
        Ep::RtaS => dec!(rta::Rta::decode(src(), true), v => sw.rta(&v)),
        Ep::RtaR => dec!(rta::Rta::decode(src(), false), v => sw.rta(&v)),
        Ep::Tal => {
            let mut rd = CountRead { data: bytes, calls: 0 };
            let r = dec!(Tal::read_named("c04".into(), &mut rd), v => sw.tal(&v));
            calls.set(rd.calls);
            r
        }
        Ep::AsText | Ep::IpText => match std::str::from_utf8(bytes) {
            Err(_) => { reject = "not UTF-8 (cannot be passed to FromStr)".into(); false }
            Ok(text) => {
                calls.set(0);
                if ep == Ep::AsText { dec!(AsBlocks::from_str(text), v => sw.as_blocks(&v)) }
                else { dec!(IpBlocks::from_str(text), v => { sw.ip_blocks(&v, true); sw.ip_blocks(&v, false) }) }
            }
        },
        Ep::Key => dec!(PublicKey::decode(src()), v => sw.public_key(&v)),
        Ep::CsrCa => dec!(RpkiCaCsr::decode(src()), v => sw.csr(&v, |c| {
            let _ = (c.basic_ca(), c.key_usage(), c.extended_key_usage().is_some(), c.ca_repository().map(|u| u.to_string()),
                     c.rpki_manifest().map(|u| u.to_string()), c.rpki_notify().map(|u| u.to_string()));
        })),
        Ep::CsrBgp => dec!(BgpsecCsr::decode(src()), v => sw.csr(&v, |c| { let _ = c.attributes().extended_key_usage().is_some(); })),
        Ep::IdCert => dec!(IdCert::decode(src()), v => sw.id_cert(&v)),
        Ep::SigS => dec!(SignedMessage::decode(src(), true), v => sw.sigmsg(&v)),
        Ep::SigR => dec!(SignedMessage::decode(src(), false), v => sw.sigmsg(&v)),
        Ep::ProvCms => dec!(ProvisioningCms::decode(bytes), v => {
            sw.run("C04.reencode", "ProvisioningCms::to_bytes", || v.to_bytes().len());
            sw.run("C04.cms.message", "provisioning::Message accessors", || {
                let m = v.message();
                let _ = (m.sender().to_string(), m.recipient().to_string(), m.payload().payload_type(), m.is_list_response());
                let _ = (m.to_xml_string().len(), m.to_xml_bytes().len());
                let _ = v.clone().into_message();
            });
            sw.run("C04.sigmsg.validate_at", "ProvisioningCms::validate_at", || {
                // the wrapper only forwards; the unpacked message below is validated against every key
                if let Some((k, t)) = env.keys.first() { let _ = v.validate_at(k, *t); let _ = v.validate(k); }
            });
            let (sm, _) = v.clone().unpack();
            sw.sigmsg(&sm)
        }),
        Ep::PubCms => dec!(PublicationCms::decode(bytes), v => {
            sw.run("C04.reencode", "PublicationCms::to_bytes", || v.to_bytes().len());
            sw.run("C04.cms.message", "publication::Message accessors", || {
                let m = v.clone().into_message();
                let _ = (m.to_xml_string().len(), m.to_xml_bytes().len());
            });
            sw.run("C04.sigmsg.validate_at", "PublicationCms::validate_at", || {
                // the wrapper only forwards; the unpacked message below is validated against every key
                if let Some((k, t)) = env.keys.first() { let _ = v.validate_at(k, *t); let _ = v.validate(k); }
            });
            let (sm, _) = v.clone().unpack();
            sw.sigmsg(&sm)
        }),
    };
    let steps = calls.get();
    if steps_exceeded || steps > budget {
        sw.push("C04.steps", "decode", format!("{steps} source calls for {n} input octets (allowed {STEP_C}*n+{STEP_K})"));
    }
    CaseOut { decoded, reject, fails: sw.fails, steps, marks: sw.marks }
}

//============ case enumeration (pure functions of seed and index) ==================

#[derive(Clone, Copy, Debug, PartialEq, Eq, Hash, PartialOrd, Ord)]
enum SpaceId { B0, B1, B2P, B2L, Str, Rs, SelfTest, Own, Scale, Time, RtaMx, Seq, Seg, Log, LogRs }

impl SpaceId {
    fn code(self) -> &'static str {
        match self { SpaceId::B0 => "b0", SpaceId::B1 => "b1", SpaceId::B2P => "b2p", SpaceId::B2L => "b2l", SpaceId::Str => "str", SpaceId::Rs => "rs", SpaceId::SelfTest => "self", SpaceId::Own => "own", SpaceId::Scale => "sc", SpaceId::Time => "time", SpaceId::RtaMx => "rtamx", SpaceId::Seq => "seq", SpaceId::Seg => "seg", SpaceId::Log => "log", SpaceId::LogRs => "logrs" }
    }
    fn parse(s: &str) -> Option<SpaceId> {
        [SpaceId::B0, SpaceId::B1, SpaceId::B2P, SpaceId::B2L, SpaceId::Str, SpaceId::Rs, SpaceId::SelfTest, SpaceId::Own, SpaceId::Scale, SpaceId::Time, SpaceId::RtaMx, SpaceId::Seq, SpaceId::Seg, SpaceId::Log, SpaceId::LogRs].into_iter().find(|x| x.code() == s)
    }
}

#[derive(Clone, Copy, Debug)]
enum Case1 { Node(u32, Op), Trunc(u32), Byte(u32, u8), Bit(u32, u8), Tok(mutate::TokOp), Asis }

const TEXT_VALUES: [u8; 8] = [b'\n', b'#', b'\r', b'=', b' ', b',', b'-', b'/'];

/// Token delimiter and replacement menu of a text seed.
fn text_menu(kind: Kind) -> Option<(&'static [u8], &'static [&'static [u8]])> {
    const AS: &[&[u8]] = &[b"AS0", b"AS1", b"AS65535", b"AS65536", b"AS4294967295", b"AS4294967296", b"AS4294967294-AS4294967295", b"AS0-AS4294967295",
        b"AS5-AS3", b"AS4294967295-AS0", b"AS", b"", b"0", b"7", b"inherit", b"AS-1", b"AS1-", b"-AS1", b"AS01", b"as7", b"AS7-AS7", b"AS99999999999999999999"];
    const IP: &[&[u8]] = &[b"0.0.0.0/0", b"0.0.0.0/8", b"255.255.255.255/32", b"255.255.255.255", b"0.0.0.0-255.255.255.255", b"10.0.0.0/33", b"10.0.0.0/", b"10.0.0.5-10.0.0.3",
        b"255.255.255.255-0.0.0.0", b"::/0", b"::/16", b"ffff::/16", b"ffff:ffff:ffff:ffff:ffff:ffff:ffff:ffff/128", b"::-ffff:ffff:ffff:ffff:ffff:ffff:ffff:ffff",
        b"2001:db8::/129", b"::ffff:192.0.2.1/128", b"ffff::-::", b"", b"/", b"-", b"inherit", b"1.2.3/8", b"10.0.0.0/8-10.0.0.1", b"1.2.3.4/256"];
    const TAL: &[&[u8]] = &[b"", b"#", b"# c", b"rsync://example.net/a.cer", b"https://example.net/a.cer", b"http://x/y", b"rsync://", b"https://", b"rsync://h/m/../x",
        b"\r", b"AAAA", b"=", b"MIIB", b"rsync://example.net/a.cer\r"];
    match kind { Kind::AsText => Some((b", ", AS)), Kind::IpText => Some((b", ", IP)), Kind::Tal => Some((b"\n", TAL)), _ => None }
}

/// All bound-1 cases of a seed, in a fixed order.
fn b1_cases(seed: &Seed, thorough: bool) -> Vec<Case1> {
    let mut v = Vec::new();
    if let Some(t) = &seed.tree {
        let src = t.first_of_each_tag();
        let deep = thorough && seed.der.len() <= 4096;
        for i in 0..t.len() {
            for op in t.full_menu(i, &src) { v.push(Case1::Node(i as u32, op)) }
            v.push(Case1::Node(i as u32, Op::Nest(64)));
            v.push(Case1::Node(i as u32, Op::NestDef(64)));
            if deep {
                v.push(Case1::Node(i as u32, Op::Nest(20000)));
                v.push(Case1::Node(i as u32, Op::NestDef(3000)));
            }
        }
    }
    let tree_for_pos = if seed.tal_prefix.is_some() { None } else { seed.tree.as_ref() };
    let pos = mutate::byte_positions(&seed.bytes, tree_for_pos, FULL_BYTES_BELOW);
    for &p in &pos { v.push(Case1::Trunc(p as u32)) }
    for &p in &pos {
        for val in mutate::BYTE_VALUES { if seed.bytes[p] != val { v.push(Case1::Byte(p as u32, val)) } }
        if text_menu(seed.kind).is_some() { for val in TEXT_VALUES { if seed.bytes[p] != val { v.push(Case1::Byte(p as u32, val)) } } }
    }
    if thorough {
        for &p in &pos { for b in 0..8u8 { v.push(Case1::Bit(p as u32, b)) } }
    }
    if let Some((delim, menu)) = text_menu(seed.kind) {
        let ntok = mutate::split_tokens(&seed.bytes, delim).len();
        for op in mutate::token_ops(ntok, menu.len()) { v.push(Case1::Tok(op)) }
    }
    v
}

fn case1_bytes(seed: &Seed, c: Case1) -> Vec<u8> {
    match c {
        Case1::Node(i, op) => seed.wrap(seed.tree.as_ref().unwrap().apply1(&seed.der, i as usize, op)),
        Case1::Trunc(k) => mutate::truncate(&seed.bytes, k as usize).to_vec(),
        Case1::Byte(p, v) => mutate::set_byte(&seed.bytes, p as usize, v),
        Case1::Bit(p, b) => mutate::flip_bit(&seed.bytes, p as usize, b),
        Case1::Tok(op) => { let (delim, menu) = text_menu(seed.kind).unwrap(); mutate::token_apply(&mutate::split_tokens(&seed.bytes, delim), delim, op, menu) }
        Case1::Asis => seed.bytes.clone(),
    }
}

fn node_desc(t: &Tree, i: u32, op: Op) -> String {
    let n = &t.nodes[i as usize];
    match op {
        Op::Value(k) => format!("node={}:{}", n.path_str(), mutate::value_name(n.tag, k as usize)),
        _ => format!("node={}:{}", n.path_str(), op.name(t)),
    }
}

fn case1_desc(seed: &Seed, c: Case1) -> String {
    match c {
        Case1::Node(i, op) => node_desc(seed.tree.as_ref().unwrap(), i, op),
        Case1::Trunc(k) => format!("trunc={k}"),
        Case1::Byte(p, v) => format!("byte[{p}]={v:02x}"),
        Case1::Bit(p, b) => format!("bit[{p}].{b}"),
        Case1::Tok(op) => mutate::tok_name(op, text_menu(seed.kind).unwrap().1),
        Case1::Asis => "seed".into(),
    }
}

fn singles_reduced(t: &Tree) -> Vec<(u32, Op)> {
    let mut v = Vec::new();
    for i in 0..t.len() { for op in t.reduced_menu(i) { v.push((i as u32, op)) } }
    v
}
fn singles_full(t: &Tree) -> Vec<(u32, Op)> {
    let src = t.first_of_each_tag();
    let mut v = Vec::new();
    for i in 0..t.len() { for op in t.full_menu(i, &src) { v.push((i as u32, op)) } }
    v
}
fn singles_lenform(t: &Tree) -> Vec<(u32, Op)> {
    let mut v = Vec::new();
    for i in 0..t.len() {
        v.push((i as u32, Op::LenIndef)); v.push((i as u32, Op::LenNonMin));
        if mutate::is_string_tag(t.nodes[i].tag) { v.push((i as u32, Op::Cons(mutate::CONS_SPLIT_MID))) }
    }
    v
}

fn fnv64(b: &[u8]) -> u64 {
    let mut h = 0xcbf29ce484222325u64;
    for x in b { h ^= *x as u64; h = h.wrapping_mul(0x100000001b3); }
    h
}

//============ segmentation: a string value arriving in pieces ==========================

/// How the pieces of a constructed (BER) string are laid out. Cut positions are offsets into the
/// (repeated / cut) content of `total` octets.
#[derive(Clone, Copy, Debug, PartialEq, Eq)]
enum SegShape {
    /// two pieces, cut at p (definite outer length)
    Two(u32),
    /// the same under an indefinite outer length
    TwoIndef(u32),
    /// three pieces, cut at p <= q
    Three(u32, u32),
    /// two pieces cut at p, the first one itself constructed of two halves
    NestFirst(u32),
    /// two pieces cut at p, the second one itself constructed of two halves
    NestSecond(u32),
}

#[derive(Clone, Copy, Debug)]
struct SegCase { node: u32, total: u32, shape: SegShape }

/// Length of the value proper of a string node (a BIT STRING without its unused-bits octet).
fn seg_len(tag: u8, content_len: usize) -> usize { if tag == 0x03 && content_len > 0 { content_len - 1 } else { content_len } }

/// The totals the pieces add up to, for a value of l octets: one short, exact, one more, half as much again, twice.
fn seg_totals(l: usize) -> Vec<usize> {
    let all = [l.saturating_sub(1), l, l + 1, l + l / 2, 2 * l];
    let n = if l > 2048 { 3 } else { 5 };
    let mut v: Vec<usize> = Vec::new();
    for &t in &all[..n] { if !v.contains(&t) { v.push(t) } }
    v
}

/// Cut positions of the two-piece splits: every position up to a total of 80 octets (any key identifier,
/// hash, time, serial and most names and URIs twice over); beyond that the 17 positions at either end,
/// around the original length, the middle, and the length-form / CER segment boundaries.
fn seg_positions(l: usize, t: usize) -> Vec<usize> {
    if t <= 80 { return (0..=t).collect() }
    let mut v: Vec<usize> = (0..=16).chain(t - 16..=t).collect();
    for c in [l, t / 2, 127, 128, 255, 256, 1000, 65535, 65536] { for x in [c.saturating_sub(1), c, c + 1] { if x <= t { v.push(x) } } }
    v.sort_unstable(); v.dedup();
    v
}
/// The reduced cut menu (nested and indefinite-length spellings).
fn seg_positions_few(l: usize, t: usize) -> Vec<usize> {
    let mut v: Vec<usize> = Vec::new();
    for x in [1, l / 2, l.saturating_sub(1), l, l + 1, t.saturating_sub(1)] { if x <= t && !v.contains(&x) { v.push(x) } }
    v
}
/// The three-piece menu: empty pieces at either end and in the middle, one-octet pieces, thirds, and the
/// second cut before / at / behind the original length with the first one in the middle, just before it or at it.
fn seg_cut_pairs(l: usize, t: usize) -> Vec<(usize, usize)> {
    let (h, m) = (l / 2, l.saturating_sub(1));
    let cand = [(0, h), (h, h), (h, t), (1, 2), (t / 3, 2 * t / 3), (h, m), (h, l), (h, l + 1), (m, l), (m, l + 1), (l, l + 1), (l, l), (1, t.saturating_sub(1)), (l, t.saturating_sub(1))];
    let mut v: Vec<(usize, usize)> = Vec::new();
    for (p, q) in cand { if p <= q && q <= t && !v.contains(&(p, q)) { v.push((p, q)) } }
    v
}

/// All segmentation cases of a seed, in a fixed order: every primitive string-typed node x every total x
/// (all two-piece splits, the three-piece menu, nested and indefinite-length spellings at the reduced cut menu).
fn seg_cases(seed: &Seed) -> Vec<SegCase> {
    let mut v = Vec::new();
    let Some(t) = &seed.tree else { return v };
    for (i, n) in t.nodes.iter().enumerate() {
        if !mutate::is_string_tag(n.tag) { continue }
        let l = seg_len(n.tag, n.len);
        for total in seg_totals(l) {
            let mut push = |shape: SegShape| v.push(SegCase { node: i as u32, total: total as u32, shape });
            for p in seg_positions(l, total) { push(SegShape::Two(p as u32)) }
            for (p, q) in seg_cut_pairs(l, total) { push(SegShape::Three(p as u32, q as u32)) }
            for p in seg_positions_few(l, total) { push(SegShape::NestFirst(p as u32)); push(SegShape::NestSecond(p as u32)); push(SegShape::TwoIndef(p as u32)) }
        }
    }
    v
}

/// The lengths of the pieces, as they appear in a witness: `10+11`, `(5+5)+11`.
fn seg_pieces_str(total: usize, shape: SegShape) -> String {
    match shape {
        SegShape::Two(p) | SegShape::TwoIndef(p) => format!("{}+{}", p, total - p as usize),
        SegShape::Three(p, q) => format!("{}+{}+{}", p, q - p, total - q as usize),
        SegShape::NestFirst(p) => { let h = p / 2; format!("({}+{})+{}", h, p - h, total - p as usize) }
        SegShape::NestSecond(p) => { let r = total - p as usize; format!("{}+({}+{})", p, r / 2, r - r / 2) }
    }
}

/// The constructed spelling: the value's own octets, repeated or cut to `total`, in the pieces of `shape`.
/// The parts of a BIT STRING are BIT STRINGs (the last one carries the unused-bits count), all others OCTET STRINGs.
fn seg_tlv(tag: u8, content: &[u8], total: usize, shape: SegShape) -> Vec<u8> {
    let bits = tag == 0x03 && !content.is_empty();
    let (ptag, unused, data) = if bits { (0x03u8, content[0], &content[1..]) } else { (0x04u8, 0u8, content) };
    let ext: Vec<u8> = if data.is_empty() { vec![0x5a; total] } else { data.iter().copied().cycle().take(total).collect() };
    let part = |chunk: &[u8], last: bool| -> Vec<u8> {
        let mut c = Vec::with_capacity(chunk.len() + 1);
        if bits { c.push(if last { unused } else { 0 }) }
        c.extend_from_slice(chunk);
        der::tlv(ptag, &c)
    };
    let cons = |parts: &[Vec<u8>]| der::tlv(ptag | 0x20, &parts.concat());
    let (parts, indef): (Vec<Vec<u8>>, bool) = match shape {
        SegShape::Two(p) => (vec![part(&ext[..p as usize], false), part(&ext[p as usize..], true)], false),
        SegShape::TwoIndef(p) => (vec![part(&ext[..p as usize], false), part(&ext[p as usize..], true)], true),
        SegShape::Three(p, q) => (vec![part(&ext[..p as usize], false), part(&ext[p as usize..q as usize], false), part(&ext[q as usize..], true)], false),
        SegShape::NestFirst(p) => { let (p, h) = (p as usize, p as usize / 2); (vec![cons(&[part(&ext[..h], false), part(&ext[h..p], false)]), part(&ext[p..], true)], false) }
        SegShape::NestSecond(p) => { let p = p as usize; let h = p + (total - p) / 2; (vec![part(&ext[..p], false), cons(&[part(&ext[p..h], false), part(&ext[h..], true)])], false) }
    };
    let body = parts.concat();
    let mut out = vec![tag | 0x20];
    if indef { out.push(0x80); out.extend_from_slice(&body); out.extend_from_slice(&[0, 0]) }
    else { out.extend(der::len_octets(body.len())); out.extend_from_slice(&body) }
    out
}

/// `buf` with node `target` replaced by `new_tlv`; the lengths of all ancestors follow (indefinite ones stay indefinite).
fn replace_node(t: &Tree, buf: &[u8], target: usize, new_tlv: &[u8]) -> Vec<u8> {
    fn emit(t: &Tree, buf: &[u8], i: usize, target: usize, new_tlv: &[u8], out: &mut Vec<u8>) {
        let n = &t.nodes[i];
        if i == target { out.extend_from_slice(new_tlv); return }
        if !(target > i && target < i + n.size) { out.extend_from_slice(&buf[n.start..n.end()]); return }
        let mut content = Vec::with_capacity(n.len + new_tlv.len());
        for &c in &n.children { emit(t, buf, c, target, new_tlv, &mut content) }
        out.push(n.tag);
        if n.indef { out.push(0x80); out.extend_from_slice(&content); out.extend_from_slice(&[0, 0]) }
        else { out.extend(der::len_octets(content.len())); out.extend_from_slice(&content) }
    }
    let mut out = Vec::with_capacity(buf.len() + new_tlv.len());
    emit(t, buf, 0, target, new_tlv, &mut out);
    out
}

fn seg_bytes(seed: &Seed, c: SegCase) -> Vec<u8> {
    let t = seed.tree.as_ref().unwrap();
    let n = &t.nodes[c.node as usize];
    let tlv = seg_tlv(n.tag, &seed.der[n.start + n.hdr..n.content_end()], c.total as usize, c.shape);
    seed.wrap(replace_node(t, &seed.der, c.node as usize, &tlv))
}

fn seg_desc(seed: &Seed, c: SegCase) -> String {
    let n = &seed.tree.as_ref().unwrap().nodes[c.node as usize];
    format!("node={}:tag={:02x};len={};constructed;total={};pieces={}{}", n.path_str(), n.tag, seg_len(n.tag, n.len), c.total, seg_pieces_str(c.total as usize, c.shape),
        if matches!(c.shape, SegShape::TwoIndef(_)) { ";outer=indefinite" } else { "" })
}

/// Entry points of the segmentation space: the relaxed (BER) ones, where a constructed string gets past bcder
/// (quick: one per type; thorough: every entry point of the type — strict and DER decoding must refuse them all).
fn seg_eps(kind: Kind, thorough: bool) -> &'static [Ep] {
    if thorough { return match kind { Kind::AsText | Kind::IpText => &[], k => eps_for(k) } }
    match kind {
        Kind::Mft => &[Ep::MftR], Kind::Roa => &[Ep::RoaR], Kind::Aspa => &[Ep::AspaR], Kind::Rta => &[Ep::RtaR], Kind::Sig => &[Ep::SigR],
        _ => &[],
    }
}
fn seg_seed(s: &Seed, thorough: bool) -> bool {
    !s.own_space && !s.no_mutate && s.tree.is_some() && (thorough || s.bytes.len() <= FULL_BYTES_BELOW) && !seg_eps(s.kind, thorough).is_empty()
}

//============ the environment: what an earlier call left switched on ====================

/// The `log` crate's maximum level is process-global state that any earlier call of the application may have
/// raised; from then on the arguments of the library's `debug!` / `trace!` statements are evaluated. This logger
/// is enabled at every level and formats every record (into nothing), so that whatever an argument indexes,
/// unwraps or formats runs inside the case that triggered the record, under that case's panic guard.
struct SinkLogger;
static LOG_RECORDS: std::sync::atomic::AtomicU64 = std::sync::atomic::AtomicU64::new(0);
impl log::Log for SinkLogger {
    fn enabled(&self, _: &log::Metadata) -> bool { true }
    fn log(&self, record: &log::Record) {
        use std::fmt::Write as _;
        struct Sink(u64);
        impl std::fmt::Write for Sink { fn write_str(&mut self, s: &str) -> std::fmt::Result { self.0 += s.len() as u64; Ok(()) } }
        let mut s = Sink(0);
        let _ = write!(s, "[{} {}] {}", record.level(), record.target(), record.args());
        std::hint::black_box(s.0);
        LOG_RECORDS.fetch_add(1, std::sync::atomic::Ordering::Relaxed);
    }
    fn flush(&self) {}
}
static SINK_LOGGER: SinkLogger = SinkLogger;
fn log_records() -> u64 { LOG_RECORDS.load(std::sync::atomic::Ordering::Relaxed) }

/// Seeds whose complete bound-1 list is run again with logging switched on: every text-format seed and,
/// per type, the freshly built seed with the fewest TLV nodes (any seed of the type if none is fresh);
/// thorough: every seed. All other seeds get the reduced list.
fn log_full_seeds(env: &Env, thorough: bool) -> Vec<bool> {
    let mut full = vec![false; env.seeds.len()];
    let mut best: BTreeMap<Kind, usize> = BTreeMap::new();
    for (i, s) in env.seeds.iter().enumerate() {
        if s.own_space || s.no_mutate { continue }
        if thorough || text_menu(s.kind).is_some() { full[i] = true; continue }
        let Some(t) = &s.tree else { continue };
        if !s.fresh && env.seeds.iter().any(|o| o.kind == s.kind && o.fresh && o.tree.is_some() && !o.no_mutate && !o.own_space) { continue }
        let better = match best.get(&s.kind) { None => true, Some(&j) => t.len() < env.seeds[j].tree.as_ref().unwrap().len() };
        if better { best.insert(s.kind, i); }
    }
    for &i in best.values() { full[i] = true }
    full
}

/// The cases of a seed that are run with logging switched on: the seed as it is; then either its complete
/// bound-1 list (quick-tier menu) or the reduced one: at every TLV node one representative per operator class
/// (`Tree::reduced_menu`) and the truncation in front of it.
fn log_cases(seed: &Seed, full: bool) -> Vec<Case1> {
    let mut v = vec![Case1::Asis];
    if seed.own_space || seed.no_mutate { return v }
    if full { v.extend(b1_cases(seed, false)); return v }
    if let Some(t) = &seed.tree {
        for i in 0..t.len() {
            for op in t.reduced_menu(i) { v.push(Case1::Node(i as u32, op)) }
            if seed.tal_prefix.is_none() && i > 0 { v.push(Case1::Trunc(t.nodes[i].start as u32)) }
        }
    }
    v
}

//============ the time clause: growth of CPU time with the size of crafted objects ==

/// A measured operation may cost this much more than linear growth predicts
/// (and this much more than the same-size control) before it is reported.
const TM_MARGIN_NS: u64 = 200_000_000;
/// `t(4n) > TM_GROWTH * t(n)` (scaled if the sizes are not exactly 1:4) is "well above linear".
const TM_GROWTH: u64 = 10;
/// `t_crafted(n) > TM_VS_CONTROL * t_control(n)`.
const TM_VS_CONTROL: u64 = 20;

/// An accessor of a decoded value "runs away" when it takes more than TM_VS_CONTROL times as long as the same
/// call on the ordinary object of the same size and count AND more than this much CPU time longer (or, on
/// either object: well above linear from the quarter-size object and more than this much above linear).
/// One second of CPU time for an input of a few megabytes that an ordinary object of that very size handles in
/// milliseconds is not "slower", it is the call not coming back in any time commensurate with the input.
/// CPU time of the calling thread does not include waiting for a core; what load does to it (shared caches,
/// memory bandwidth, clock) was measured at 1-4x with 48 busy processes on 16 cores, never near 20x, and
/// 20x of the few milliseconds these calls take stays two orders of magnitude below the second.
const TM_RUNAWAY_NS: u64 = 1_000_000_000;

/// What the property says about a measured operation.
#[derive(Clone, Copy, Debug, PartialEq, Eq)]
enum TmRole {
    /// a decoding entry point: time within a fixed multiple of the input (growth and same-size control, TM_MARGIN_NS)
    Decode,
    /// an accessor / iterator / lookup / re-encoding of the decoded value: must not panic and must come back (TM_RUNAWAY_NS)
    Accessor,
    /// validation against an issuer, builders, text and set operations: measured and recorded
    Other,
}
fn tm_role(case: TmCase, pos: usize, name: &str) -> TmRole {
    if !case.judged() { return TmRole::Other }
    if pos == 0 || name == "ProvisioningCms::decode" { return TmRole::Decode }
    if ["validate", "process", "Validation", "RtaBuilder"].iter().any(|w| name.contains(w)) { return TmRole::Other }
    TmRole::Accessor
}

/// CPU time consumed by the calling thread so far (not wall time: a busy machine cannot inflate it).
fn cpu_ns() -> u64 {
    let mut ts = libc::timespec { tv_sec: 0, tv_nsec: 0 };
    unsafe { libc::clock_gettime(libc::CLOCK_THREAD_CPUTIME_ID, &mut ts); }
    ts.tv_sec as u64 * 1_000_000_000 + ts.tv_nsec as u64
}

type TmOps = Vec<(&'static str, Result<u64, String>)>;

/// CPU time one object at one size may consume before its remaining operations are left out
/// (an operation that is over the margin has been seen by then; the rest would only cost time).
const TM_BUDGET_NS: u64 = 2_000_000_000;
thread_local! { static TM_SPENT: Cell<u64> = const { Cell::new(0) }; }

/// Best CPU time of up to three runs (one run only if it takes more than 20 ms - unless it takes more than
/// TM_RUNAWAY_NS: a call can only be found to have run away above that, and such a finding must not rest on
/// one measurement, so it is the best of three again).
fn tm_measure(out: &mut TmOps, name: &'static str, mut f: impl FnMut()) {
    if TM_SPENT.with(|s| s.get()) > TM_BUDGET_NS { return }
    let mut best = u64::MAX;
    for _ in 0..3 {
        let a = cpu_ns();
        let r = guard(&mut f);
        let d = cpu_ns().saturating_sub(a);
        TM_SPENT.with(|s| s.set(s.get() + d));
        if let Err(p) = r { out.push((name, Err(p))); return }
        best = best.min(d);
        if d > 20_000_000 && d <= TM_RUNAWAY_NS { break }
    }
    out.push((name, Ok(best)));
}

#[derive(Clone, Copy, Debug, PartialEq, Eq)]
enum Fam { V4, V6, As }
impl Fam { fn name(self) -> &'static str { match self { Fam::V4 => "v4", Fam::V6 => "v6", Fam::As => "as" } } }

/// The order (and relation) of the n blocks of a list. `Asc` is the ordinary object.
#[derive(Clone, Copy, Debug, PartialEq, Eq)]
enum Order { Asc, Desc, TwoRuns, Zigzag, HighFirst, Stride, AdjacentDesc, OverlapDesc }
const ORDERS_CRAFTED: [Order; 7] = [Order::Desc, Order::TwoRuns, Order::Zigzag, Order::HighFirst, Order::Stride, Order::AdjacentDesc, Order::OverlapDesc];
impl Order {
    fn name(self) -> &'static str {
        match self { Order::Asc => "ascending", Order::Desc => "descending", Order::TwoRuns => "even-then-odd", Order::Zigzag => "zigzag-low-high",
            Order::HighFirst => "highest-first-then-ascending", Order::Stride => "stride-permutation", Order::AdjacentDesc => "adjacent-descending", Order::OverlapDesc => "overlapping-descending" }
    }
    /// position -> rank of the block that stands there
    fn perm(self, n: usize) -> Vec<usize> {
        match self {
            Order::Asc => (0..n).collect(),
            Order::Desc | Order::AdjacentDesc | Order::OverlapDesc => (0..n).rev().collect(),
            Order::TwoRuns => (0..n).step_by(2).chain((1..n).step_by(2)).collect(),
            Order::Zigzag => (0..n).map(|i| if i % 2 == 0 { i / 2 } else { n - 1 - i / 2 }).collect(),
            Order::HighFirst => std::iter::once(n - 1).chain(0..n - 1).collect(),
            Order::Stride => { let k = 7919 % n.max(2); let k = if gcd(k, n) == 1 { k } else { 1 }; (0..n).map(|i| (i * k + n / 3) % n).collect() }
        }
    }
    /// (distance between the starts of neighbouring blocks, size of a block) in units of one block
    fn geometry(self) -> (u128, u128) { match self { Order::AdjacentDesc => (1, 1), Order::OverlapDesc => (1, 2), _ => (2, 1) } }
}
fn gcd(a: usize, b: usize) -> usize { if b == 0 { a } else { gcd(b, a % b) } }

/// The block of rank `r` as inclusive (min, max) in family-width integers.
fn tm_block(fam: Fam, order: Order, r: usize) -> (u128, u128) {
    let (stride, size) = order.geometry();
    let r = r as u128;
    match fam {
        Fam::V4 => { let lo = 0x0a00_0000u128 + ((r * stride) << 8); (lo, lo + (size << 8) - 1) }              // /24s in 10.0.0.0/8
        Fam::V6 => { let lo = (0x2001_0db8u128 << 96) + ((r * stride) << 72); (lo, lo + (size << 72) - 1) }    // /56s in 2001:db8::/32
        Fam::As => { let lo = 100_000 + r * stride * 4; (lo, lo + size * 4 - 1) }
    }
}
fn tm_block_der(fam: Fam, (lo, hi): (u128, u128), size: u128) -> Vec<u8> {
    match fam {
        Fam::V4 => if size == 1 { der::ip_prefix_bits(lo, 24, 32) } else { der::ip_range(lo, hi, 32) },
        Fam::V6 => if size == 1 { der::ip_prefix_bits(lo, 56, 128) } else { der::ip_range(lo, hi, 128) },
        Fam::As => der::seq(&[der::int_u(lo), der::int_u(hi)]),
    }
}
fn tm_block_text(fam: Fam, (lo, hi): (u128, u128), size: u128, out: &mut String) {
    use std::fmt::Write as _;
    match fam {
        Fam::V4 => { let a = std::net::Ipv4Addr::from(lo as u32); if size == 1 { let _ = write!(out, "{a}/24"); } else { let _ = write!(out, "{a}-{}", std::net::Ipv4Addr::from(hi as u32)); } }
        Fam::V6 => { let a = std::net::Ipv6Addr::from(lo); if size == 1 { let _ = write!(out, "{a}/56"); } else { let _ = write!(out, "{a}-{}", std::net::Ipv6Addr::from(hi)); } }
        Fam::As => { let _ = write!(out, "AS{lo}-AS{hi}"); }
    }
}
fn tm_blocks_der(fam: Fam, order: Order, n: usize) -> Vec<u8> {
    let size = order.geometry().1;
    der::seq(&order.perm(n).into_iter().map(|r| tm_block_der(fam, tm_block(fam, order, r), size)).collect::<Vec<_>>())
}
fn tm_blocks_text(fam: Fam, order: Order, n: usize) -> String {
    let size = order.geometry().1;
    let mut s = String::with_capacity(n * 24);
    for (i, r) in order.perm(n).into_iter().enumerate() { if i > 0 { s.push_str(", ") } tm_block_text(fam, tm_block(fam, order, r), size, &mut s) }
    s
}
fn tm_ip_vec(fam: Fam, order: Order, n: usize) -> Vec<IpBlock> {
    use rpki::repository::resources::Addr;
    order.perm(n).into_iter().map(|r| { let (lo, hi) = tm_block(fam, order, r);
        if fam == Fam::V4 { IpBlock::from((pki::v4_addr(lo), Addr::from_bits((hi << 96) | ((1u128 << 96) - 1)))) } else { IpBlock::from((pki::v6_addr(lo), pki::v6_addr(hi))) } }).collect()
}
fn tm_as_vec(order: Order, n: usize) -> Vec<rpki::repository::resources::AsBlock> {
    order.perm(n).into_iter().map(|r| { let (lo, hi) = tm_block(Fam::As, order, r); rpki::repository::resources::AsBlock::from((Asn::from_u32(lo as u32), Asn::from_u32(hi as u32))) }).collect()
}

/// Rebuilds a DER value, replacing every node for which `f` returns a new TLV (lengths of the ancestors follow).
fn der_rebuild(buf: &[u8], node: &der::Node, f: &dyn Fn(&der::Node) -> Option<Vec<u8>>) -> Vec<u8> {
    if let Some(r) = f(node) { return r }
    if node.children.is_empty() { return node.whole(buf).to_vec() }
    let content: Vec<u8> = node.children.iter().flat_map(|c| der_rebuild(buf, c, f)).collect();
    der::tlv(buf[node.start], &content)
}
/// Replaces the value of the extension with the given OID content octets.
fn der_replace_ext(tbs: &[u8], oid_content: &[u8], body: &[u8]) -> Vec<u8> {
    let root = der::parse_one(tbs, false).expect("well-formed TBS");
    der_rebuild(tbs, &root, &|n: &der::Node| {
        if n.tag != 0x30 || n.children.len() < 2 || n.children[0].tag != 0x06 || n.children[0].content(tbs) != oid_content { return None }
        let mut parts: Vec<Vec<u8>> = n.children[..n.children.len() - 1].iter().map(|c| c.whole(tbs).to_vec()).collect();
        parts.push(der::octets(body));
        Some(der::seq(&parts))
    })
}
const OID_IP_BLOCKS: &[u8] = &[0x2b, 0x06, 0x01, 0x05, 0x05, 0x07, 0x01, 0x07];
const OID_AS_IDS: &[u8] = &[0x2b, 0x06, 0x01, 0x05, 0x05, 0x07, 0x01, 0x08];

/// A certificate whose three resource extensions list n blocks each in the given order
/// (subject key 3; issued by the fresh TA as a CA certificate, or by the fresh CA as an EE certificate).
fn tm_cert(env: &Env, order: Order, n: usize, ee: bool, fams: &[Fam]) -> Vec<u8> {
    let s = &env.signer;
    let small = Res { v4: Claim::Blocks(vec![(0x0a00_0000, 0x0a00_00ff)]), v6: Claim::Blocks(vec![(0x2001_0db8u128 << 96, (0x2001_0db8u128 << 96) | 0xff)]), asn: Claim::Blocks(vec![(100_000, 100_000)]) };
    let spec = if ee { spec_with(Spec::issued(pki::Kind::Ee, 2, 1, s.ski(1), small, Overclaim::Refuse), 7000 + n as u128) }
               else { spec_with(Spec::issued(pki::Kind::Ca, 3, 0, s.ski(0), small, Overclaim::Refuse), 7000 + n as u128) };
    let tbs = bcder::Captured::from_values(Mode::Der, pki::build_tbs(s, &spec, None).encode_ref()).as_slice().to_vec();
    let list = |fam: Fam| if fams.contains(&fam) { tm_blocks_der(fam, order, n) } else if ee && fam == Fam::As { der::seq(&[der::int_u(64496)]) } else { tm_blocks_der(fam, Order::Asc, 1) };
    tm_cert_finish(env, &tbs, ee, [list(Fam::V4), list(Fam::V6), list(Fam::As)])
}
/// Puts the three lists (each the DER SEQUENCE OF its family: v4, v6, AS) into the two resource extensions of a TBS and signs it.
fn tm_cert_finish(env: &Env, tbs: &[u8], ee: bool, lists: [Vec<u8>; 3]) -> Vec<u8> {
    let [v4, v6, asl] = lists;
    let ip = der::seq(&[der::seq(&[der::octets(&[0, 1]), v4]), der::seq(&[der::octets(&[0, 2]), v6])]);
    let asn = der::seq(&[der::ctx(0, true, &asl)]);
    let tbs = der_replace_ext(&der_replace_ext(tbs, OID_IP_BLOCKS, &ip), OID_AS_IDS, &asn);
    pki::sign_tbs(&env.signer, if ee { 1 } else { 0 }, &tbs)
}
/// The n keys of a family as resource entries of a CA certificate: ascending single addresses (/32, /128) or AS numbers,
/// no two of them neighbours (the counter is even). `None`: n consecutive even ones.
fn tm_cert_keys(env: &Env, fam: Fam, kf: Option<KeyFam>, n: usize) -> Vec<u8> {
    let s = &env.signer;
    let small = Res { v4: Claim::Blocks(vec![(0x0a00_0000, 0x0a00_00ff)]), v6: Claim::Blocks(vec![(0x2001_0db8u128 << 96, (0x2001_0db8u128 << 96) | 0xff)]), asn: Claim::Blocks(vec![(100_000, 100_000)]) };
    let spec = spec_with(Spec::issued(pki::Kind::Ca, 3, 0, s.ski(0), small, Overclaim::Refuse), 9000 + n as u128);
    let tbs = bcder::Captured::from_values(Mode::Der, pki::build_tbs(s, &spec, None).encode_ref()).as_slice().to_vec();
    let (base, free) = (key_base(fam), key_dims(fam).1);
    let mut keys: Vec<u128> = (0..n as u32).map(|k| match kf { Some(kf) => key_value(&kf.make(&base, free, 2 * k + 2)), None => key_value(&base) + if fam == Fam::As { 0x0100_0000 } else { 0 } + 2 * k as u128 + 2 }).collect();
    keys.sort_unstable();
    let list = |f: Fam| if f != fam { tm_blocks_der(f, Order::Asc, 1) } else { der::seq(&keys.iter().map(|&x| match f {
        Fam::V4 => der::ip_prefix_bits(x, 32, 32), Fam::V6 => der::ip_prefix_bits(x, 128, 128), Fam::As => der::int_u(x) }).collect::<Vec<_>>()) };
    tm_cert_finish(env, &tbs, false, [list(Fam::V4), list(Fam::V6), list(Fam::As)])
}

/// RTA attestation content with n blocks per family in the given order (independent encoder).
fn tm_attestation(env: &Env, order: Order, n: usize) -> Vec<u8> {
    let fam = |f: Fam| der::seq(&[der::octets(if f == Fam::V4 { &[0, 1] } else { &[0, 2] }), tm_blocks_der(f, order, n)]);
    der::seq(&[
        der::set_of(&[der::octets(env.signer.ski(2).as_slice())]),
        der::seq(&[der::ctx(0, true, &tm_blocks_der(Fam::As, order, n)), der::ctx(1, true, &der::seq(&[fam(Fam::V4), fam(Fam::V6)]))]),
        der::alg_sha256(false),
        der::octets(&signer::sha256(b"attested document")),
    ])
}

/// A CRL (issuer key 1, signature not computed: decoding does not look at it) listing the given serial numbers.
fn tm_crl(env: &Env, serials: &[[u8; 20]]) -> Vec<u8> { sign_wrap(&env.signer, 1, &tm_crl_tbs(env, 1, serials), false) }
fn tm_crl_tbs(env: &Env, key: usize, serials: &[[u8; 20]]) -> Vec<u8> {
    let s = &env.signer;
    let name = der::seq(&[der::set_unsorted(&[der::seq(&[der::oid(&[2, 5, 4, 3]), der::printable(&hex(s.ski(key).as_slice()))])])]);
    let date = der::utctime(civil(2023, 11, 1));
    let entries: Vec<Vec<u8>> = serials.iter().map(|x| der::seq(&[der::int_bytes(x), date.clone()])).collect();
    let exts = der::ctx(0, true, &der::seq(&[
        der::seq(&[der::oid(&[2, 5, 29, 35]), der::octets(&der::seq(&[der::ctx(0, false, s.ski(key).as_slice())]))]),
        der::seq(&[der::oid(&[2, 5, 29, 20]), der::octets(&der::int_u(7))]),
    ]));
    der::seq(&[der::int_u(1), der::alg_sha256_with_rsa(), name, der::utctime(civil(2023, 11, 13)), der::gentime(civil(2123, 11, 14)), der::seq(&entries), exts])
}

/// Serial number k of a family: `Window(off, fill)` = 20 octets, all `fill` except octet 0 (= 01)
/// and a four-octet counter at `off`; `Ordinary` = the first 20 octets of SHA-256(k), made positive.
#[derive(Clone, Copy, Debug, PartialEq, Eq)]
enum SerialFam { Ordinary, Window(usize, u8), Key(KeyFam, u8),
    /// round 13: the serials of Window(off, 00) listed in another order than ascending (the position decides, see the Crl / Sig cases)
    Ordered(usize, Order) }
fn tm_serial(f: SerialFam, k: u32) -> [u8; 20] {
    let mut s = [0u8; 20];
    match f {
        SerialFam::Ordinary => { s.copy_from_slice(&signer::sha256(&k.to_be_bytes())[..20]); s[0] = (s[0] & 0x3f) | 0x40; }
        SerialFam::Window(off, fill) => { s = [fill; 20]; s[0] = 1; s[off..off + 4].copy_from_slice(&k.to_be_bytes()); }
        SerialFam::Ordered(off, _) => { s = [0u8; 20]; s[0] = 1; s[off..off + 4].copy_from_slice(&k.to_be_bytes()); }
        SerialFam::Key(kf, fill) => { let mut base = [fill; 20]; base[0] = 1; s.copy_from_slice(&kf.make(&base, 1, k)); }
    }
    s
}

/// A family of keys (serial numbers, file names, hashes, addresses, AS numbers) of one length that are
/// pairwise different but **agree in a chosen set of octets**: whatever indexes, hashes or compares the keys
/// by looking at those octets only (the low k, the high k, every k-th one, a window in the middle, a word-wise
/// XOR or sum) sees one and the same value for all of them. Position 0 is the most significant octet; the
/// first `free` octets of a key are fixed by the collection (sign octet of a serial number, the prefix the
/// EE certificate covers) and never vary. The counter is spread bit by bit over all varying positions, so
/// that every one of them really differs between keys.
#[derive(Clone, Copy, Debug, PartialEq, Eq)]
enum KeyFam {
    /// agree in the k least significant octets, differ in every octet above them
    LowAgree(u8),
    /// agree in the k most significant octets, differ in every octet below them
    HighAgree(u8),
    /// differ only in the octets at positions p with p % k == r
    Stride(u8, u8),
    /// agree in the middle: differ only in the two outermost octets at either end
    Outer,
    /// the counter stands at offsets a and b (up to four octets each), the second time as it is (false) or
    /// negated modulo its width (true): a word-wise XOR or sum of the key is the same for all keys
    Mirror(u8, u8, bool),
}
impl KeyFam {
    fn name(self) -> String {
        match self {
            KeyFam::LowAgree(k) => format!("agree-in-low-{k}-octets"),
            KeyFam::HighAgree(k) => format!("agree-in-high-{k}-octets"),
            KeyFam::Stride(k, r) => format!("differ-only-in-octets-{r}-mod-{k}"),
            KeyFam::Outer => "agree-in-the-middle".into(),
            KeyFam::Mirror(a, b, neg) => format!("counter-at-{a}-and-{}-at-{b}", if neg { "negated" } else { "again" }),
        }
    }
    fn mirror_width(a: usize, b: usize, len: usize) -> usize { 4.min(b.saturating_sub(a)).min(len.saturating_sub(b)) }
    /// The positions in which the keys of the family differ.
    fn positions(self, len: usize, free: usize) -> Vec<usize> {
        let mut v: Vec<usize> = match self {
            KeyFam::LowAgree(k) => (free..len.saturating_sub(k as usize)).collect(),
            KeyFam::HighAgree(k) => (free.max(k as usize)..len).collect(),
            KeyFam::Stride(k, r) => (free..len).filter(|p| p % k as usize == r as usize).collect(),
            KeyFam::Outer => vec![free, free + 1, len - 2, len - 1],
            KeyFam::Mirror(a, b, _) => { let w = Self::mirror_width(a as usize, b as usize, len); (a as usize..a as usize + w).chain(b as usize..b as usize + w).collect() }
        };
        v.retain(|p| *p >= free && *p < len); v.sort(); v.dedup();
        v
    }
    /// log2 of the number of distinct keys the family can hold (at most 32: the counter is a u32).
    fn bits(self, len: usize, free: usize) -> u32 {
        match self {
            KeyFam::Mirror(a, b, _) => 8 * Self::mirror_width(a as usize, b as usize, len) as u32,
            _ => (8 * self.positions(len, free).len() as u32).min(32),
        }
    }
    /// Key number `c` of the family: `base` with the varying positions overwritten.
    fn make(self, base: &[u8], free: usize, c: u32) -> Vec<u8> {
        let len = base.len();
        let mut key = base.to_vec();
        match self {
            KeyFam::Mirror(a, b, neg) => {
                let (a, b) = (a as usize, b as usize);
                let w = Self::mirror_width(a, b, len);
                let mask: u64 = if w >= 4 { 0xffff_ffff } else { (1u64 << (8 * w)) - 1 };
                let first = c as u64 & mask;
                let second = if neg { (mask + 1 - first) & mask } else { first };
                for i in 0..w { key[a + i] = (first >> (8 * (w - 1 - i))) as u8; key[b + i] = (second >> (8 * (w - 1 - i))) as u8; }
            }
            _ => {
                let pos = self.positions(len, free);
                let m = pos.len();
                for p in &pos { key[*p] = 0 }
                if m > 0 { for j in 0..32usize { if (c >> j) & 1 == 1 && j / m < 8 { key[pos[m - 1 - j % m]] |= 1 << (j / m) } } }
            }
        }
        key
    }
    /// The families for keys of `len` octets of which the first `free` are fixed.
    fn menu(len: usize, free: usize) -> Vec<KeyFam> {
        let mut v = Vec::new();
        let span = len - free;
        // agree in the low / high k octets, for a ladder of k that leaves at least two octets to differ in
        for k in [1usize, 2, 4, 8, 12, 16, 24, 28] { if k + 2 <= span { v.push(KeyFam::LowAgree(k as u8)) } }
        for k in [1usize, 2, 4, 8, 12, 16, 17, 24, 28] { if k > free && k + 2 <= len && (k + 3 <= len || span <= 4) { v.push(KeyFam::HighAgree(k as u8)) } }
        // every k-th octet, every residue that leaves at least two (beyond four octets: three) positions
        for k in [2usize, 3, 4, 8] { for r in 0..k { let m = (free..len).filter(|p| p % k == r).count(); if k < span && m >= if span <= 4 { 2 } else { 3 } && m < span { v.push(KeyFam::Stride(k as u8, r as u8)) } } }
        if span >= 8 { v.push(KeyFam::Outer) }
        // the counter twice, one / two / three words apart
        if span >= 8 {
            let w0 = free.div_ceil(4) * 4;
            let mut pairs = vec![(w0, w0 + 4), (w0, w0 + 8), (len - 8, len - 4), (free, free + 8)];
            if len >= w0 + 16 { pairs.push((w0 + 4, w0 + 12)); pairs.push((w0, w0 + 12)); }
            pairs.retain(|(a, b)| b + 4 <= len && *a >= free); pairs.sort(); pairs.dedup();
            for (a, b) in pairs { for neg in [false, true] { v.push(KeyFam::Mirror(a as u8, b as u8, neg)) } }
        } else if span == 4 && free == 0 {
            for neg in [false, true] { v.push(KeyFam::Mirror(0, 2, neg)) }
        }
        v
    }
}
fn hex_lower(b: &[u8]) -> String { b.iter().map(|x| format!("{x:02x}")).collect() }

#[derive(Clone, Copy, Debug, PartialEq, Eq)]
enum Route { Text, Der, FromIter, Builder, Serde }
const ROUTES: [Route; 5] = [Route::Text, Route::Der, Route::FromIter, Route::Builder, Route::Serde];
impl Route { fn name(self) -> &'static str { match self { Route::Text => "from_str", Route::Der => "take_from", Route::FromIter => "from_iter", Route::Builder => "builder", Route::Serde => "deserialize" } } }

/// Relation between the two operands of a set operation (n blocks each).
#[derive(Clone, Copy, Debug, PartialEq, Eq)]
enum Rel { Halves, Interleaved, Identical, Nested, OneCovering }
impl Rel { fn name(self) -> &'static str { match self { Rel::Halves => "disjoint-halves", Rel::Interleaved => "interleaved", Rel::Identical => "identical", Rel::Nested => "b-inside-every-block-of-a", Rel::OneCovering => "b-is-one-covering-block" } } }

#[derive(Clone, Copy, Debug, PartialEq, Eq)]
enum MftShape { Ordinary, CommonPrefix, CommonSuffix, SameNames, SameHashes, NameKey(KeyFam), HashKey(KeyFam) }
#[derive(Clone, Copy, Debug, PartialEq, Eq)]
enum AspaShape { Ordinary, Shift16, Shift8, Consecutive, Descending, LowWindow, /// four-octet providers that are the keys of a family (None: every third number from 2^24, the ordinary object)
    Key(Option<KeyFam>) }
#[derive(Clone, Copy, Debug, PartialEq, Eq)]
enum RoaShape { Ordinary, Desc, Zigzag, Same, SameAddrAllLengths, UnderManyBlocks, /// host prefixes that are the keys of a family (None: consecutive hosts, the ordinary object)
    Key(Option<KeyFam>) }

#[derive(Clone, Copy, Debug, PartialEq, Eq)]
enum TmCase {
    Blocks(Fam, Route, Order),
    SetText(Order),
    SetOps(Fam, Rel),
    Cert(Order), Rta(Order),
    Crl(SerialFam),
    Mft(MftShape), Aspa(AspaShape), Roa(Fam, RoaShape),
    Tal(TalShape),
    /// a signed protocol message whose embedded CRL lists n serial numbers
    Sig(SerialFam),
    /// a certificate one of whose resource extensions lists n single addresses / AS numbers that are the
    /// keys of a family (None: n consecutive even ones, the ordinary object)
    CertKeys(Fam, Option<KeyFam>),
}

/// (length of a key in octets, leading octets that are fixed) of the keyed collections.
const KEY_SERIAL: (usize, usize) = (20, 1);
const KEY_MFT_NAME: (usize, usize) = (16, 0);
const KEY_MFT_HASH: (usize, usize) = (32, 0);
const KEY_ASN: (usize, usize) = (4, 0);
fn key_dims_ip(fam: Fam) -> (usize, usize) { if fam == Fam::V4 { (4, 1) } else { (16, 4) } }
fn key_dims(fam: Fam) -> (usize, usize) { if fam == Fam::As { KEY_ASN } else { key_dims_ip(fam) } }
/// The fixed part of an address key: 10.0.0.0 / 2001:db8:: (what the EE certificate of the fixtures covers); AS numbers have none.
fn key_base(fam: Fam) -> Vec<u8> { match fam { Fam::V4 => vec![10, 0, 0, 0], Fam::V6 => { let mut b = vec![0u8; 16]; b[..4].copy_from_slice(&[0x20, 0x01, 0x0d, 0xb8]); b } Fam::As => vec![0; 4] } }
fn key_value(b: &[u8]) -> u128 { b.iter().fold(0u128, |a, x| (a << 8) | *x as u128) }

#[derive(Clone, Copy, Debug, PartialEq, Eq)]
enum TalShape { Ordinary, AlternatingSchemes, Comments, CrLf, LongLines, KeyInShortLines }

impl TmCase {
    fn ep(self) -> Ep {
        match self {
            TmCase::Blocks(Fam::As, ..) | TmCase::SetText(_) | TmCase::SetOps(Fam::As, _) => Ep::AsText,
            TmCase::Blocks(..) | TmCase::SetOps(..) => Ep::IpText,
            TmCase::Cert(_) | TmCase::CertKeys(..) => Ep::Cert, TmCase::Rta(_) => Ep::RtaS, TmCase::Crl(_) => Ep::Crl,
            TmCase::Mft(_) => Ep::MftS, TmCase::Aspa(_) => Ep::AspaS, TmCase::Roa(..) => Ep::RoaS,
            TmCase::Tal(_) => Ep::Tal, TmCase::Sig(_) => Ep::SigS,
        }
    }
    fn desc(self) -> String {
        match self {
            TmCase::Blocks(f, r, o) => format!("blocks/{}/{}/{}", f.name(), r.name(), o.name()),
            TmCase::SetText(o) => format!("blocks/all-families/ResourceSet::from_strs/{}", o.name()),
            TmCase::SetOps(f, r) => format!("setops/{}/{}", f.name(), r.name()),
            TmCase::Cert(o) => format!("cert/three-extensions/{}", o.name()),
            TmCase::Rta(o) => format!("rta/attested-resources/{}", o.name()),
            TmCase::Crl(SerialFam::Window(off, fill)) => format!("crl/serials-equal-but-octets-{}..{}/fill-{:02x}", off, off + 4, fill),
            TmCase::Crl(SerialFam::Key(kf, fill)) => format!("crl/serials-{}/fill-{:02x}", kf.name(), fill),
            TmCase::Crl(SerialFam::Ordinary) => "crl/ordinary".into(),
            TmCase::Crl(SerialFam::Ordered(off, o)) => format!("crl/serials-counting-in-octets-{}..{}/listed-{}", off, off + 4, o.name()),
            TmCase::Sig(SerialFam::Ordered(off, o)) => format!("sigmsg/crl-serials-counting-in-octets-{}..{}/listed-{}", off, off + 4, o.name()),
            TmCase::Mft(MftShape::NameKey(kf)) => format!("mft/names-{}", kf.name()),
            TmCase::Mft(MftShape::HashKey(kf)) => format!("mft/hashes-{}", kf.name()),
            TmCase::Mft(s) => format!("mft/{s:?}"),
            TmCase::Aspa(AspaShape::Key(Some(kf))) => format!("aspa/providers-{}", kf.name()),
            TmCase::Aspa(AspaShape::Key(None)) => "aspa/providers-four-octets-every-third".into(),
            TmCase::Aspa(s) => format!("aspa/{s:?}"),
            TmCase::Roa(f, RoaShape::Key(Some(kf))) => format!("roa/{}/host-prefixes-{}", f.name(), kf.name()),
            TmCase::Roa(f, RoaShape::Key(None)) => format!("roa/{}/host-prefixes-consecutive", f.name()),
            TmCase::Roa(f, s) => format!("roa/{}/{s:?}", f.name()),
            TmCase::CertKeys(f, Some(kf)) => format!("cert/{}-single-entries-{}", f.name(), kf.name()),
            TmCase::CertKeys(f, None) => format!("cert/{}-single-entries-consecutive", f.name()),
            TmCase::Tal(s) => format!("tal/{s:?}"),
            TmCase::Sig(SerialFam::Window(off, fill)) => format!("sigmsg/crl-serials-equal-but-octets-{}..{}/fill-{:02x}", off, off + 4, fill),
            TmCase::Sig(SerialFam::Key(kf, fill)) => format!("sigmsg/crl-serials-{}/fill-{:02x}", kf.name(), fill),
            TmCase::Sig(SerialFam::Ordinary) => "sigmsg/ordinary".into(),
        }
    }
    /// Is the first operation of the case one of the decoding entry points the property names?
    fn judged(self) -> bool { !matches!(self, TmCase::Blocks(..) | TmCase::SetText(_) | TmCase::SetOps(..)) }
    /// The ordinary object the crafted one is compared with.
    fn control(self) -> TmCase {
        match self {
            TmCase::Blocks(f, r, _) => TmCase::Blocks(f, r, Order::Asc),
            TmCase::SetText(_) => TmCase::SetText(Order::Asc),
            TmCase::SetOps(f, _) => TmCase::SetOps(f, Rel::Halves),
            TmCase::Cert(_) => TmCase::Cert(Order::Asc), TmCase::Rta(_) => TmCase::Rta(Order::Asc),
            TmCase::CertKeys(f, _) => TmCase::CertKeys(f, None),
            TmCase::Crl(SerialFam::Ordered(off, _)) => TmCase::Crl(SerialFam::Ordered(off, Order::Asc)),
            TmCase::Crl(_) => TmCase::Crl(SerialFam::Ordinary),
            TmCase::Aspa(AspaShape::Key(_)) => TmCase::Aspa(AspaShape::Key(None)),
            TmCase::Roa(f, RoaShape::Key(_)) => TmCase::Roa(f, RoaShape::Key(None)),
            TmCase::Mft(_) => TmCase::Mft(MftShape::Ordinary), TmCase::Aspa(_) => TmCase::Aspa(AspaShape::Ordinary),
            TmCase::Roa(f, _) => TmCase::Roa(f, RoaShape::Ordinary),
            TmCase::Tal(_) => TmCase::Tal(TalShape::Ordinary), TmCase::Sig(SerialFam::Ordered(off, _)) => TmCase::Sig(SerialFam::Ordered(off, Order::Asc)), TmCase::Sig(_) => TmCase::Sig(SerialFam::Ordinary),
        }
    }
    /// For the key families: (family, key length, fixed octets, counters used per element).
    fn key_dims(self) -> Option<(KeyFam, usize, usize, u64)> {
        match self {
            TmCase::Crl(SerialFam::Key(kf, _)) | TmCase::Sig(SerialFam::Key(kf, _)) => Some((kf, KEY_SERIAL.0, KEY_SERIAL.1, 2)),
            TmCase::Mft(MftShape::NameKey(kf)) => Some((kf, KEY_MFT_NAME.0, KEY_MFT_NAME.1, 1)),
            TmCase::Mft(MftShape::HashKey(kf)) => Some((kf, KEY_MFT_HASH.0, KEY_MFT_HASH.1, 1)),
            TmCase::Aspa(AspaShape::Key(Some(kf))) => Some((kf, KEY_ASN.0, KEY_ASN.1, 1)),
            TmCase::Roa(f, RoaShape::Key(Some(kf))) => { let (l, fr) = key_dims_ip(f); Some((kf, l, fr, 1)) }
            TmCase::CertKeys(f, Some(kf)) => { let (l, fr) = key_dims(f); Some((kf, l, fr, 2)) }
            _ => None,
        }
    }
    fn sizes(self, thorough: bool) -> Vec<usize> {
        let mut v = self.ladder(thorough);
        // a family holds 2^bits keys: the ladder ends where it runs out of them
        if let Some((kf, len, free, per)) = self.key_dims() { let cap = 1u64 << kf.bits(len, free); v.retain(|&n| n as u64 * per + 2 <= cap) }
        v
    }
    fn ladder(self, thorough: bool) -> Vec<usize> {
        match self {
            // the order families go one rung further in the quick tier too: a quadratic insertion sort stays under the one-second margin at 65 536 serials
            TmCase::Crl(SerialFam::Ordered(..)) => vec![1024, 4096, 16384, 65536, 262144],
            TmCase::Crl(_) => if thorough { vec![1024, 4096, 16384, 65536, 262144] } else { vec![1024, 4096, 16384, 65536] },
            TmCase::Aspa(_) => vec![1023, 4095, 16380],
            TmCase::Roa(_, RoaShape::UnderManyBlocks) => vec![1024, 4096, 16384, 32768],
            // (an accessor that has run away by a second needs some 10^9 steps: one rung more where the keys allow it)
            TmCase::Roa(f, RoaShape::Key(kf)) => if thorough || (f == Fam::V6 && matches!(kf, Some(KeyFam::LowAgree(8) | KeyFam::HighAgree(8) | KeyFam::Stride(2, 1) | KeyFam::Mirror(4, 12, false)))) { vec![1024, 4096, 16384, 65536] } else { vec![1024, 4096, 16384] },
            TmCase::Roa(..) => vec![1024, 4096, 16384],
            _ => if thorough { vec![1024, 4096, 16384, 65536] } else { vec![1024, 4096, 16384] },
        }
    }
}

/// All crafted cases, in a fixed order (the quick tier's list is the beginning of the thorough tier's).
fn tm_cases(thorough: bool) -> Vec<TmCase> {
    let mut v = Vec::new();
    for fam in [Fam::V4, Fam::V6, Fam::As] { for r in ROUTES { for o in ORDERS_CRAFTED { v.push(TmCase::Blocks(fam, r, o)) } } }
    for o in ORDERS_CRAFTED { v.push(TmCase::SetText(o)); v.push(TmCase::Cert(o)); v.push(TmCase::Rta(o)) }
    for fam in [Fam::V4, Fam::V6, Fam::As] { for r in [Rel::Interleaved, Rel::Identical, Rel::Nested, Rel::OneCovering] { v.push(TmCase::SetOps(fam, r)) } }
    for off in [1usize, 4, 8, 12, 16] { for fill in [0x00u8, 0xa5] { v.push(TmCase::Crl(SerialFam::Window(off, fill))) } }
    // the ORDER of a keyed list (round 13): a sorted vector filled by insertion is linear for ascending input only
    for o in [Order::Desc, Order::Zigzag, Order::TwoRuns, Order::Stride] { v.push(TmCase::Crl(SerialFam::Ordered(16, o))) }
    v.push(TmCase::Sig(SerialFam::Ordered(16, Order::Desc)));
    for s in [MftShape::CommonPrefix, MftShape::CommonSuffix, MftShape::SameNames, MftShape::SameHashes] { v.push(TmCase::Mft(s)) }
    for s in [AspaShape::Shift16, AspaShape::Shift8, AspaShape::Consecutive, AspaShape::Descending, AspaShape::LowWindow] { v.push(TmCase::Aspa(s)) }
    for f in [Fam::V4, Fam::V6] { for s in [RoaShape::Desc, RoaShape::Zigzag, RoaShape::Same, RoaShape::SameAddrAllLengths, RoaShape::UnderManyBlocks] { v.push(TmCase::Roa(f, s)) } }
    for s in [TalShape::AlternatingSchemes, TalShape::Comments, TalShape::CrLf, TalShape::LongLines, TalShape::KeyInShortLines] { v.push(TmCase::Tal(s)) }
    for (off, fill) in [(1usize, 0u8), (8, 0), (16, 0xa5)] { v.push(TmCase::Sig(SerialFam::Window(off, fill))) }
    // the key families (appended: the indices of the cases above stay what they were)
    // (the three largest menus are thinned in the quick tier - every kind of family stays, on a coarser ladder of k - and completed at the end of the thorough list)
    let thin_serial = |kf: KeyFam| match kf { KeyFam::LowAgree(k) => matches!(k, 8 | 16), KeyFam::HighAgree(k) => matches!(k, 8 | 17), KeyFam::Stride(k, r) => k <= 3 || (k == 4 && r <= 1), KeyFam::Outer => true,
        KeyFam::Mirror(a, b, neg) => if neg { (a, b) == (4, 12) } else { matches!((a, b), (4, 8) | (4, 12) | (1, 9) | (12, 16)) } };
    let thin_name = |kf: KeyFam| match kf { KeyFam::LowAgree(k) | KeyFam::HighAgree(k) => matches!(k, 4 | 12), KeyFam::Stride(k, r) => k <= 3 || r % 2 == 0, KeyFam::Outer => true,
        KeyFam::Mirror(a, b, neg) => if neg { (a, b) == (0, 8) } else { matches!((a, b), (0, 4) | (0, 8) | (8, 12)) } };
    let thin_hash = |kf: KeyFam| match kf { KeyFam::LowAgree(k) | KeyFam::HighAgree(k) => matches!(k, 8 | 24), KeyFam::Stride(k, r) => k == 2 || matches!(r, 0 | 3 | 5), KeyFam::Outer => true, KeyFam::Mirror(a, b, _) => matches!((a, b), (0, 8) | (24, 28)) };
    for (i, kf) in KeyFam::menu(KEY_SERIAL.0, KEY_SERIAL.1).into_iter().enumerate() { if thin_serial(kf) { v.push(TmCase::Crl(SerialFam::Key(kf, if i % 2 == 0 { 0x00 } else { 0xa5 }))) } }
    for kf in [KeyFam::LowAgree(8), KeyFam::HighAgree(8), KeyFam::Stride(2, 1), KeyFam::Outer, KeyFam::Mirror(4, 12, false)] { v.push(TmCase::Sig(SerialFam::Key(kf, 0x00))) }
    for kf in KeyFam::menu(KEY_MFT_NAME.0, KEY_MFT_NAME.1) { if thin_name(kf) { v.push(TmCase::Mft(MftShape::NameKey(kf))) } }
    for kf in KeyFam::menu(KEY_MFT_HASH.0, KEY_MFT_HASH.1) {
        // 32 octets: a thinner ladder of k, and the counter repeated as it is only
        let keep = match kf { KeyFam::LowAgree(k) | KeyFam::HighAgree(k) => [8, 16, 24].contains(&k), KeyFam::Stride(k, _) => k == 2 || k == 8, KeyFam::Mirror(_, _, neg) => !neg, KeyFam::Outer => true };
        if keep && thin_hash(kf) { v.push(TmCase::Mft(MftShape::HashKey(kf))) }
    }
    for kf in KeyFam::menu(KEY_ASN.0, KEY_ASN.1) { v.push(TmCase::Aspa(AspaShape::Key(Some(kf)))) }
    for f in [Fam::V4, Fam::V6] { let (l, fr) = key_dims_ip(f); for kf in KeyFam::menu(l, fr) { v.push(TmCase::Roa(f, RoaShape::Key(Some(kf)))) } }
    for f in [Fam::V4, Fam::V6, Fam::As] { let (l, fr) = key_dims(f); for kf in KeyFam::menu(l, fr) { v.push(TmCase::CertKeys(f, Some(kf))) } }
    if thorough {
        for (i, kf) in KeyFam::menu(KEY_SERIAL.0, KEY_SERIAL.1).into_iter().enumerate() { if !thin_serial(kf) { v.push(TmCase::Crl(SerialFam::Key(kf, if i % 2 == 0 { 0x00 } else { 0xa5 }))) } }
        for kf in KeyFam::menu(KEY_MFT_NAME.0, KEY_MFT_NAME.1) { if !thin_name(kf) { v.push(TmCase::Mft(MftShape::NameKey(kf))) } }
        for kf in KeyFam::menu(KEY_MFT_HASH.0, KEY_MFT_HASH.1) {
            let keep = match kf { KeyFam::LowAgree(k) | KeyFam::HighAgree(k) => [8, 16, 24].contains(&k), KeyFam::Stride(k, _) => k == 2 || k == 8, KeyFam::Mirror(_, _, neg) => !neg, KeyFam::Outer => true };
            if keep && !thin_hash(kf) { v.push(TmCase::Mft(MftShape::HashKey(kf))) }
        }
    }
    v
}

/// Builds the object of size n and measures decode and every accessor. The first entry is
/// always the decode; `Ok(false)` = the decoder rejected the object (only the decode was measured).
fn tm_run(env: &Env, case: TmCase, n: usize) -> (TmOps, bool) {
    let mut ops: TmOps = Vec::new();
    TM_SPENT.with(|s| s.set(0));
    let t0v = t0();
    macro_rules! timed_decode {
        ($name:expr, $e:expr) => {{
            let mut last = None;
            tm_measure(&mut ops, $name, || { last = Some($e); });
            match last { Some(Ok(v)) => v, _ => return (ops, false) }
        }};
    }
    fn ip_accessors(ops: &mut TmOps, b: &IpBlocks, v4: bool) {
        tm_measure(ops, "IpBlocks::iter", || { std::hint::black_box(b.iter().map(|x| x.min().to_bits() ^ x.max().to_bits()).fold(0u128, |a, x| a ^ x)); });
        tm_measure(ops, "IpBlocks Display", || { std::hint::black_box(if v4 { b.as_v4().to_string() } else { b.as_v6().to_string() }.len()); });
        tm_measure(ops, "IpBlocks::encode_ref", || { std::hint::black_box(b.encode_ref().to_captured(Mode::Der).len()); });
        tm_measure(ops, "IpBlocks::contains(self)", || { std::hint::black_box(b.contains(b)); });
        tm_measure(ops, "IpBlocks::union(self)", || { std::hint::black_box(b.union(b).is_empty()); });
        tm_measure(ops, "IpBlocks::difference(self)", || { std::hint::black_box(b.difference(b).is_empty()); });
    }
    fn as_accessors(ops: &mut TmOps, b: &AsBlocks) {
        tm_measure(ops, "AsBlocks::iter", || { std::hint::black_box(b.iter().map(|x| x.min().into_u32() ^ x.max().into_u32()).fold(0u32, |a, x| a ^ x)); });
        tm_measure(ops, "AsBlocks Display", || { std::hint::black_box(b.to_string().len()); });
        tm_measure(ops, "AsBlocks::encode_ref", || { std::hint::black_box(b.encode_ref().to_captured(Mode::Der).len()); });
        tm_measure(ops, "AsBlocks::asn_count", || { std::hint::black_box(b.asn_count()); });
        tm_measure(ops, "AsBlocks::contains(self)", || { std::hint::black_box(b.contains(b)); });
        tm_measure(ops, "AsBlocks::union(self)", || { std::hint::black_box(b.union(b).is_empty()); });
        tm_measure(ops, "AsBlocks::difference(self)", || { std::hint::black_box(b.difference(b).is_empty()); });
    }
    match case {
        TmCase::Blocks(fam, route, order) => {
            use rpki::repository::resources::{AddressFamily, AsBlocksBuilder, IpBlocksBuilder};
            if fam == Fam::As {
                let b: AsBlocks = match route {
                    Route::Text => { let t = tm_blocks_text(fam, order, n); timed_decode!("AsBlocks::from_str", AsBlocks::from_str(&t).map_err(|e| e.to_string())) }
                    Route::Serde => { let t = format!("\"{}\"", tm_blocks_text(fam, order, n)); timed_decode!("AsBlocks::deserialize", serde_json::from_str::<AsBlocks>(&t).map_err(|e| e.to_string())) }
                    Route::Der => { let d = tm_blocks_der(fam, order, n); timed_decode!("AsBlocks::take_from", Mode::Der.decode(d.as_slice(), |c| AsBlocks::take_from(c)).map_err(|e| e.to_string())) }
                    Route::FromIter => { let v = tm_as_vec(order, n); timed_decode!("AsBlocks::from_iter", Ok::<_, String>(v.iter().copied().collect::<AsBlocks>())) }
                    Route::Builder => { let v = tm_as_vec(order, n); timed_decode!("AsBlocksBuilder::push+finalize", Ok::<_, String>({ let mut b = AsBlocksBuilder::new(); for x in &v { b.push(*x) } b.finalize() })) }
                };
                if route == Route::Der { as_accessors(&mut ops, &b) }
            } else {
                let v4 = fam == Fam::V4;
                let b: IpBlocks = match route {
                    Route::Text => { let t = tm_blocks_text(fam, order, n); timed_decode!("IpBlocks::from_str", IpBlocks::from_str(&t).map_err(|e| e.to_string())) }
                    Route::Serde => { let t = format!("\"{}\"", tm_blocks_text(fam, order, n));
                        if v4 { timed_decode!("Ipv4Blocks::deserialize", serde_json::from_str::<Ipv4Blocks>(&t).map(|b| (*b).clone()).map_err(|e| e.to_string())) }
                        else { timed_decode!("Ipv6Blocks::deserialize", serde_json::from_str::<Ipv6Blocks>(&t).map(|b| (*b).clone()).map_err(|e| e.to_string())) } }
                    Route::Der => { let d = tm_blocks_der(fam, order, n); let af = if v4 { AddressFamily::Ipv4 } else { AddressFamily::Ipv6 };
                        timed_decode!("IpBlocks::take_from_with_family", Mode::Der.decode(d.as_slice(), |c| IpBlocks::take_from_with_family(c, af)).map_err(|e| e.to_string())) }
                    Route::FromIter => { let v = tm_ip_vec(fam, order, n); timed_decode!("IpBlocks::from_iter", Ok::<_, String>(v.iter().copied().collect::<IpBlocks>())) }
                    Route::Builder => { let v = tm_ip_vec(fam, order, n); timed_decode!("IpBlocksBuilder::push+finalize", Ok::<_, String>({ let mut b = IpBlocksBuilder::new(); for x in &v { b.push(*x) } b.finalize() })) }
                };
                if route == Route::Der { ip_accessors(&mut ops, &b, v4) }
            }
        }
        TmCase::SetText(order) => {
            use rpki::repository::resources::ResourceSet;
            let (a, v4, v6) = (tm_blocks_text(Fam::As, order, n), tm_blocks_text(Fam::V4, order, n), tm_blocks_text(Fam::V6, order, n));
            let set = timed_decode!("ResourceSet::from_strs", ResourceSet::from_strs(&a, &v4, &v6).map_err(|e| e.to_string()));
            tm_measure(&mut ops, "ResourceSet::contains(self)", || { std::hint::black_box(set.contains(&set)); });
            tm_measure(&mut ops, "ResourceSet::union(self)", || { std::hint::black_box(set.union(&set).is_empty()); });
            tm_measure(&mut ops, "ResourceSet::intersection(self)", || { std::hint::black_box(set.intersection(&set).is_empty()); });
            tm_measure(&mut ops, "ResourceSet::difference(self)", || { std::hint::black_box(set.difference(&set).is_empty()); });
            tm_measure(&mut ops, "ResourceSet Display/serde", || { std::hint::black_box((set.to_string().len(), serde_json::to_string(&set).map(|s| s.len()).unwrap_or(0))); });
        }
        TmCase::SetOps(fam, rel) => {
            // operand ranks: A = ranks a(i), B = ranks b(i) of a list with gaps; Nested / OneCovering change B's geometry
            let ranks = |which: u8| -> Vec<usize> { match rel {
                Rel::Halves => if which == 0 { (0..n).collect() } else { (n..2 * n).collect() },
                Rel::Interleaved => (0..n).map(|i| 2 * i + which as usize).collect(),
                Rel::Identical | Rel::Nested | Rel::OneCovering => (0..n).collect(),
            } };
            let blk = |r: usize, inner: bool| -> (u128, u128) { let (lo, hi) = tm_block(fam, Order::Asc, r); if inner { (lo + 1, hi - 1) } else { (lo, hi) } };
            let bvec: Vec<(u128, u128)> = match rel {
                Rel::Nested => ranks(1).into_iter().map(|r| blk(r, true)).collect(),
                Rel::OneCovering => vec![(tm_block(fam, Order::Asc, 0).0, tm_block(fam, Order::Asc, n - 1).1)],
                _ => ranks(1).into_iter().map(|r| blk(r, false)).collect(),
            };
            let avec: Vec<(u128, u128)> = ranks(0).into_iter().map(|r| blk(r, false)).collect();
            ops.push(("build operands", Ok(0)));
            if fam == Fam::As {
                let (a, b) = (pki::as_blocks(&avec), pki::as_blocks(&bvec));
                tm_measure(&mut ops, "AsBlocks::union", || { std::hint::black_box(a.union(&b).is_empty()); });
                tm_measure(&mut ops, "AsBlocks::intersection", || { std::hint::black_box((a.intersection(&b).is_empty(), b.intersection(&a).is_empty())); });
                tm_measure(&mut ops, "AsBlocks::difference", || { std::hint::black_box((a.difference(&b).is_empty(), b.difference(&a).is_empty())); });
                tm_measure(&mut ops, "AsBlocks::contains", || { std::hint::black_box((a.contains(&b), b.contains(&a))); });
                tm_measure(&mut ops, "AsBlocks::intersection_assign", || { let mut c = a.clone(); c.intersection_assign(&b); std::hint::black_box(c.is_empty()); });
                tm_measure(&mut ops, "AsBlocks::verify_covered", || { std::hint::black_box((a.verify_covered(&AsResources::blocks(b.clone())).is_ok(), b.verify_covered(&AsResources::blocks(a.clone())).is_ok())); });
                tm_measure(&mut ops, "AsBlocks::verify_issued", || { let r = AsResources::blocks(b.clone()); std::hint::black_box((a.verify_issued(&r, Overclaim::Refuse).is_ok(), a.verify_issued(&r, Overclaim::Trim).is_ok())); });
                tm_measure(&mut ops, "AsBlocks::contains_asn x 16", || { let mut c = 0u32; for &(lo, _) in bvec.iter().step_by((bvec.len() / 16).max(1)) { c += a.contains_asn(Asn::from_u32(lo as u32)) as u32 } std::hint::black_box(c); });
            } else {
                let bits = if fam == Fam::V4 { 32 } else { 128 };
                let (a, b) = (pki::ip_blocks(bits, &avec), pki::ip_blocks(bits, &bvec));
                tm_measure(&mut ops, "IpBlocks::union", || { std::hint::black_box(a.union(&b).is_empty()); });
                tm_measure(&mut ops, "IpBlocks::intersection", || { std::hint::black_box((a.intersection(&b).is_empty(), b.intersection(&a).is_empty())); });
                tm_measure(&mut ops, "IpBlocks::difference", || { std::hint::black_box((a.difference(&b).is_empty(), b.difference(&a).is_empty())); });
                tm_measure(&mut ops, "IpBlocks::contains", || { std::hint::black_box((a.contains(&b), b.contains(&a))); });
                tm_measure(&mut ops, "IpBlocks::intersection_assign", || { let mut c = a.clone(); c.intersection_assign(&b); std::hint::black_box(c.is_empty()); });
                tm_measure(&mut ops, "IpBlocks::verify_covered", || { std::hint::black_box((a.verify_covered(&IpResources::blocks(b.clone())).is_ok(), b.verify_covered(&IpResources::blocks(a.clone())).is_ok())); });
                tm_measure(&mut ops, "IpBlocks::verify_issued", || { let r = IpResources::blocks(b.clone()); std::hint::black_box((a.verify_issued(&r, Overclaim::Refuse).is_ok(), a.verify_issued(&r, Overclaim::Trim).is_ok())); });
            }
        }
        TmCase::Cert(order) => {
            let d = tm_cert(env, order, n, false, &[Fam::V4, Fam::V6, Fam::As]);
            let c = timed_decode!("Cert::decode", Cert::decode(d.as_slice()).map_err(|e| e.to_string()));
            tm_measure(&mut ops, "TbsCert::{v4,v6,as}_resources().to_blocks", || { std::hint::black_box((c.v4_resources().to_blocks().is_ok(), c.v6_resources().to_blocks().is_ok(), c.as_resources().to_blocks().is_ok())); });
            tm_measure(&mut ops, "Cert::to_captured", || { std::hint::black_box(c.to_captured().len()); });
            tm_measure(&mut ops, "Cert serde", || { if let Ok(s) = serde_json::to_string(&c) { std::hint::black_box(serde_json::from_str::<Cert>(&s).is_ok()); } });
            let mut rc = None;
            tm_measure(&mut ops, "Cert::validate_ca_at", || { rc = c.clone().validate_ca_at(&env.issuers[0].0, false, t0v).ok(); });
            if let (Some(rc), Order::Desc) = (rc, order) {
                let (v4, v6, asn) = (rc.v4_resources().clone(), rc.v6_resources().clone(), rc.as_resources().clone());
                ip_accessors(&mut ops, &v4, true); ip_accessors(&mut ops, &v6, false); as_accessors(&mut ops, &asn);
            }
        }
        TmCase::CertKeys(fam, kf) => {
            let d = tm_cert_keys(env, fam, kf, n);
            let c = timed_decode!("Cert::decode", Cert::decode(d.as_slice()).map_err(|e| e.to_string()));
            tm_measure(&mut ops, "TbsCert::{v4,v6,as}_resources().to_blocks", || { std::hint::black_box((c.v4_resources().to_blocks().is_ok(), c.v6_resources().to_blocks().is_ok(), c.as_resources().to_blocks().is_ok())); });
            tm_measure(&mut ops, "Cert::to_captured", || { std::hint::black_box(c.to_captured().len()); });
            tm_measure(&mut ops, "Cert serde", || { if let Ok(s) = serde_json::to_string(&c) { std::hint::black_box(serde_json::from_str::<Cert>(&s).is_ok()); } });
            tm_measure(&mut ops, "Cert::validate_ca_at", || { std::hint::black_box(c.clone().validate_ca_at(&env.issuers[0].0, false, t0v).is_ok()); });
            match fam {
                Fam::V4 => if let Ok(b) = c.v4_resources().to_blocks() { ip_accessors(&mut ops, &b, true) },
                Fam::V6 => if let Ok(b) = c.v6_resources().to_blocks() { ip_accessors(&mut ops, &b, false) },
                Fam::As => if let Ok(b) = c.as_resources().to_blocks() { as_accessors(&mut ops, &b) },
            }
        }
        TmCase::Rta(order) => {
            let att = tm_attestation(env, order, n);
            let d = e5_rta(&env.signer, &att, &[&env.fx.ee_cert_der], &[], &[2], true, None);
            let r = timed_decode!("Rta::decode", rta::Rta::decode(d.as_slice(), true).map_err(|e| e.to_string()));
            tm_measure(&mut ops, "Rta::to_captured", || { std::hint::black_box(r.to_captured().len()); });
            tm_measure(&mut ops, "rta::Validation new_at/supply_ca/finalize", || {
                if let Ok(mut v) = rta::Validation::new_at(&r, false, t0v) { let _ = v.supply_ca(&env.issuers[1].0); std::hint::black_box(v.finalize().is_ok()); }
            });
            tm_measure(&mut ops, "RtaBuilder::from_rta/finalize", || { std::hint::black_box(rta::RtaBuilder::from_rta(r.clone()).finalize().to_captured().len()); });
            if order == Order::Desc {
                let (v4, v6, asn) = (r.v4_resources().clone(), r.v6_resources().clone(), r.as_resources().clone());
                ip_accessors(&mut ops, &v4, true); ip_accessors(&mut ops, &v6, false); as_accessors(&mut ops, &asn);
            }
        }
        TmCase::Crl(f) => {
            let serials: Vec<[u8; 20]> = match f { SerialFam::Ordered(_, o) => o.perm(n).into_iter().map(|k| tm_serial(f, k as u32)).collect(), _ => (0..n as u32).map(|k| tm_serial(f, k)).collect() };
            let d = tm_crl(env, &serials);
            let crl = timed_decode!("Crl::decode", Crl::decode(d.as_slice()).map_err(|e| e.to_string()));
            let ser = |x: &[u8; 20]| Serial::from_array(*x).expect("positive 20-octet serial");
            let members: Vec<Serial> = serials.iter().map(ser).collect();
            let strangers: Vec<Serial> = (n as u32..2 * n as u32).map(|k| ser(&tm_serial(f, k))).collect();
            tm_measure(&mut ops, "RevokedCertificates::iter", || { std::hint::black_box(crl.revoked_certs().iter().map(|e| e.user_certificate.into_array()[19] as u64).sum::<u64>()); });
            tm_measure(&mut ops, "Crl::contains x 16 (no cache)", || { let mut c = 0; for i in 0..8 { c += crl.contains(members[i * (n / 8)]) as u32; c += crl.contains(strangers[i * (n / 8)]) as u32 } std::hint::black_box(c); });
            let mut cached = crl.clone();
            tm_measure(&mut ops, "Crl::cache_serials", || { let mut c = crl.clone(); c.cache_serials(); cached = c; });
            tm_measure(&mut ops, "Crl::contains x 64 listed serials (cached)", || { let mut c = 0u32; for s in members.iter().step_by(n / 64) { c += cached.contains(*s) as u32 } std::hint::black_box(c); });
            tm_measure(&mut ops, "Crl::contains x 64 unlisted serials (cached)", || { let mut c = 0u32; for s in strangers.iter().step_by(n / 64) { c += cached.contains(*s) as u32 } std::hint::black_box(c); });
            tm_measure(&mut ops, "CrlStore::push with serial caching + get + contains x 64", || {
                let mut st = CrlStore::new(); st.enable_serial_caching();
                let u = rsync("rsync://example.net/repo/ca/ca.crl");
                st.push(u.clone(), crl.clone());
                let mut c = 0u32; if let Some(x) = st.get(&u) { for s in members.iter().step_by(n / 64) { c += x.contains(*s) as u32 } } std::hint::black_box(c);
            });
            tm_measure(&mut ops, "Crl::to_captured", || { std::hint::black_box(crl.to_captured().len()); });
            tm_measure(&mut ops, "Crl serde", || { if let Ok(s) = serde_json::to_string(&crl) { std::hint::black_box(serde_json::from_str::<Crl>(&s).is_ok()); } });
        }
        TmCase::Mft(shape) => {
            let pad = "a".repeat(48);
            let entries: Vec<der::MftEntry> = (0..n).map(|i| {
                let name = match shape {
                    MftShape::Ordinary | MftShape::SameHashes => format!("{:08x}{pad}.roa", (i as u32).wrapping_mul(0x9e37_79b9)),
                    MftShape::CommonPrefix => format!("{pad}{i:08x}.roa"),
                    MftShape::CommonSuffix => format!("{i:08x}{pad}.roa"),
                    MftShape::SameNames => format!("{:08x}{pad}.roa", 7),
                    // 32 hex digits spelling the 16-octet key, padded to the length of the ordinary names
                    MftShape::NameKey(kf) => format!("{}{}.roa", hex_lower(&kf.make(&[0x5a; 16], KEY_MFT_NAME.1, i as u32)), &pad[..24]),
                    MftShape::HashKey(_) => format!("{:08x}{pad}.roa", (i as u32).wrapping_mul(0x9e37_79b9)),
                };
                let hash = match shape { MftShape::SameHashes => vec![0x5a; 32], MftShape::HashKey(kf) => kf.make(&[0x5a; 32], KEY_MFT_HASH.1, i as u32), _ => signer::sha256(&(i as u32).to_be_bytes()) };
                der::MftEntry { name: name.into_bytes(), hash_unused: 0, hash }
            }).collect();
            let econtent = der::manifest_content(None, &[5], der::gentime(civil(2023, 11, 14)), der::gentime(civil(2123, 1, 1)), der::OID_SHA256, &entries);
            let d = e5_signed_object(&env.signer, der::OID_CT_MANIFEST, &econtent, &env.fx.ee_inherit_der, 2, vec![], true);
            let m = timed_decode!("Manifest::decode", Manifest::decode(d.as_slice(), true).map_err(|e| e.to_string()));
            tm_measure(&mut ops, "ManifestContent::len/iter", || { std::hint::black_box((m.len(), m.iter().map(|f| f.file().len() + f.hash().len()).sum::<usize>())); });
            tm_measure(&mut ops, "ManifestContent::iter_uris", || { std::hint::black_box(m.iter_uris(&env.base).map(|(u, h)| u.as_str().len() + h.as_slice().len()).sum::<usize>()); });
            tm_measure(&mut ops, "Manifest::to_captured", || { std::hint::black_box(m.to_captured().len()); });
            tm_measure(&mut ops, "ManifestContent::encode_ref", || { std::hint::black_box(m.content().encode_ref().to_captured(Mode::Der).len()); });
            tm_measure(&mut ops, "Manifest serde", || { if let Ok(s) = serde_json::to_string(&m) { std::hint::black_box(serde_json::from_str::<Manifest>(&s).is_ok()); } });
            tm_measure(&mut ops, "Manifest::validate_at + content iter", || {
                if let Ok((_, c)) = m.clone().validate_at(&env.issuers[1].0, true, t0v) { std::hint::black_box(c.iter().count()); }
            });
        }
        TmCase::Aspa(shape) => {
            let provs: Vec<u128> = (0..n as u128).map(|i| match shape {
                AspaShape::Ordinary => 100_000 + 2 * i + (i * i) % 2,
                AspaShape::Shift16 => (i + 1) << 16,
                AspaShape::Shift8 => (i + 1) << 8,
                AspaShape::Consecutive => 100_000 + i,
                AspaShape::Descending => 200_000 - 2 * i,
                AspaShape::LowWindow => 0xabcd_0000 + i,
                AspaShape::Key(Some(kf)) => key_value(&kf.make(&[0; 4], KEY_ASN.1, i as u32 + 1)),
                AspaShape::Key(None) => 0x0100_0000 + 3 * i,
            }).collect();
            // the key families in ascending order, as the profile wants a provider set
            let provs = if matches!(shape, AspaShape::Key(_)) { let mut p = provs; p.sort_unstable(); p } else { provs };
            let econtent = der::aspa_content(Some(1), 64496, &provs);
            let d = e5_signed_object(&env.signer, der::OID_CT_ASPA, &econtent, &env.fx.ee_as_der, 2, vec![], true);
            let a = timed_decode!("Aspa::decode", Aspa::decode(d.as_slice(), true).map_err(|e| e.to_string()));
            tm_measure(&mut ops, "ProviderAsSet::iter", || { std::hint::black_box(a.content().provider_as_set().iter().map(|x| x.into_u32() as u64).sum::<u64>()); });
            tm_measure(&mut ops, "ProviderAsSet::to_set + contains x 128", || {
                let set = a.content().provider_as_set().to_set();
                let mut c = 0u32; for p in provs.iter().step_by(n / 64) { c += set.contains(Asn::from_u32(*p as u32)) as u32; c += set.contains(Asn::from_u32(*p as u32 + 1)) as u32 } std::hint::black_box((c, set.len()));
            });
            tm_measure(&mut ops, "AsProviderAttestation::as_resources/encode_ref", || { std::hint::black_box((a.content().as_resources().is_present(), a.content().encode_ref().to_captured(Mode::Der).len())); });
            tm_measure(&mut ops, "Aspa::to_captured", || { std::hint::black_box(a.to_captured().len()); });
            tm_measure(&mut ops, "Aspa::process", || { if let Ok((_, att)) = a.clone().process(&env.issuers[1].0, true, |_| Ok(())) { std::hint::black_box(att.provider_as_set().len()); } });
        }
        TmCase::Roa(fam, shape) => {
            let v4 = fam == Fam::V4;
            let (bits, plen) = if v4 { (32u8, 24u8) } else { (128u8, 56u8) };
            let order = match shape { RoaShape::Desc => Order::Desc, RoaShape::Zigzag => Order::Zigzag, _ => Order::Asc };
            let key_base_v = key_base(fam);
            let addrs: Vec<der::RoaAddr> = order.perm(n).into_iter().map(|r| match shape {
                // host prefixes (/32, /128) inside what the EE certificate covers, in the order of the counter
                RoaShape::Key(kf) => der::roa_addr_from(match kf { Some(kf) => key_value(&kf.make(&key_base_v, key_dims_ip(fam).1, r as u32)), None => key_value(&key_base_v) + r as u128 }, bits, bits, if r % 2 == 0 { Some(bits as u128) } else { None }),
                RoaShape::Same => der::roa_addr_from(tm_block(fam, Order::Asc, 3).0, plen, bits, Some(plen as u128)),
                RoaShape::SameAddrAllLengths => { let l = plen + (r % (bits - plen + 1) as usize) as u8; der::roa_addr_from(tm_block(fam, Order::Asc, 3).0, l, bits, if r % 2 == 0 { Some(bits as u128) } else { None }) }
                _ => der::roa_addr_from(tm_block(fam, Order::Asc, r).0, plen, bits, if r % 2 == 0 { Some(plen as u128) } else { None }),
            }).collect();
            let econtent = if v4 { der::roa_content(None, 64496, Some(&addrs), None) } else { der::roa_content(None, 64496, None, Some(&addrs)) };
            // the EE certificate holds either one covering block per family or, for UnderManyBlocks, exactly the n blocks
            let ee = if shape == RoaShape::UnderManyBlocks { tm_cert(env, Order::Asc, n, true, &[fam]) } else { env.fx.tm_ee_der.clone() };
            let d = e5_signed_object(&env.signer, der::OID_CT_ROA, &econtent, &ee, 2, vec![], true);
            let r = timed_decode!("Roa::decode", Roa::decode(d.as_slice(), true).map_err(|e| e.to_string()));
            tm_measure(&mut ops, "RoaIpAddresses::iter", || { std::hint::black_box(r.content().v4_addrs().iter().chain(r.content().v6_addrs().iter()).map(|a| a.prefix().addr_len() as u64).sum::<u64>()); });
            tm_measure(&mut ops, "RouteOriginAttestation::iter", || { std::hint::black_box(r.content().iter().map(|f| f.address_length() as u64).sum::<u64>()); });
            tm_measure(&mut ops, "RouteOriginAttestation::iter_origins", || { std::hint::black_box(r.content().iter_origins().count()); });
            tm_measure(&mut ops, "Roa::to_captured", || { std::hint::black_box(r.to_captured().len()); });
            tm_measure(&mut ops, "RouteOriginAttestation::encode_ref", || { std::hint::black_box(r.content().encode_ref().to_captured(Mode::Der).len()); });
            tm_measure(&mut ops, "Roa::process", || { if let Ok((_, att)) = r.clone().process(&env.issuers[1].0, true, |_| Ok(())) { std::hint::black_box(att.iter().count()); } });
        }
        TmCase::Tal(shape) => {
            let mut text: Vec<u8> = Vec::new();
            let eol: &[u8] = if shape == TalShape::CrLf { b"\r\n" } else { b"\n" };
            if shape == TalShape::Comments { for i in 0..n { text.extend_from_slice(format!("# comment line {i:06} of a trust anchor locator").as_bytes()); text.extend_from_slice(eol) } }
            let uris = if shape == TalShape::Comments { 4 } else { n };
            for i in 0..uris {
                let scheme = if shape == TalShape::AlternatingSchemes && i % 2 == 0 { "https" } else { "rsync" };
                let pad = if shape == TalShape::LongLines { "d/".repeat(200) } else { String::new() };
                text.extend_from_slice(format!("{scheme}://example.net/repo/{pad}ta-{i:06}.cer").as_bytes()); text.extend_from_slice(eol);
            }
            text.extend_from_slice(eol);
            let b64 = base64::engine::general_purpose::STANDARD.encode(&env.signer.key(0).spki_der);
            let width = if shape == TalShape::KeyInShortLines { 1 } else { 64 };
            // the key block can be made long as well: white space between the characters (one per line)
            for c in b64.as_bytes().chunks(width) { text.extend_from_slice(c); text.extend_from_slice(eol); if shape == TalShape::KeyInShortLines { for _ in 0..n / 256 { text.extend_from_slice(eol) } } }
            let t = timed_decode!("Tal::read_named", { let mut rd = text.as_slice(); Tal::read_named("c04".into(), &mut rd).map_err(|e| e.to_string()) });
            tm_measure(&mut ops, "Tal::prefer_https", || { let mut t2 = t.clone(); t2.prefer_https(); std::hint::black_box(t2.uris().count()); });
            tm_measure(&mut ops, "Tal::uris", || { std::hint::black_box(t.uris().map(|u| u.as_str().len()).sum::<usize>()); });
        }
        TmCase::Sig(f) => {
            let serials: Vec<[u8; 20]> = match f { SerialFam::Ordered(_, o) => o.perm(n).into_iter().map(|k| tm_serial(f, k as u32)).collect(), _ => (0..n as u32).map(|k| tm_serial(f, k)).collect() };
            let crl = pki::sign_tbs(&env.signer, 0, &tm_crl_tbs(env, 0, &serials));
            let d = e5_signed_object(&env.signer, der::OID_CT_PROTOCOL, &env.fx.prov_xml, &env.fx.id_ee_der, 7, vec![crl], true);
            let m = timed_decode!("SignedMessage::decode", SignedMessage::decode(d.as_slice(), true).map_err(|e| e.to_string()));
            tm_measure(&mut ops, "ProvisioningCms::decode", || { std::hint::black_box(ProvisioningCms::decode(d.as_slice()).is_ok()); });
            tm_measure(&mut ops, "SignedMessage::validate_at", || { std::hint::black_box(m.validate_at(&env.keys[0].0, env.keys[0].1).is_ok()); });
            tm_measure(&mut ops, "SignedMessage::to_captured", || { std::hint::black_box(m.to_captured().len()); });
        }
    }
    (ops, true)
}

/// One case of the time space: crafted and ordinary object at every size; returns the
/// failures as (oracle, accessor, detail) and whether the crafted object decoded at the largest size.
fn tm_judge(env: &Env, case: TmCase, thorough: bool, controls: &mut HashMap<String, Vec<(TmOps, bool)>>) -> (Vec<(&'static str, String, String)>, bool, u64) {
    let sizes = case.sizes(thorough);
    let cpu_at_start = cpu_ns();
    let mut fails: Vec<(&'static str, String, String)> = Vec::new();
    let mut evals = 0u64;
    let mut table: Vec<(bool, Vec<(TmOps, bool)>)> = Vec::new();
    for (is_control, c) in [(false, case), (true, case.control())] {
        // the ordinary object of a kind is the same for all its crafted families: measured once per worker
        // (once per ladder: the rows of crafted and ordinary object are compared position by position)
        let ctl_key = format!("{} @ {:?}", c.desc(), sizes);
        if is_control { if let Some(rows) = controls.get(&ctl_key) { evals += rows.iter().map(|r| r.0.len() as u64).sum::<u64>(); table.push((true, rows.clone())); continue } }
        let mut rows: Vec<(TmOps, bool)> = Vec::new();
        for (k, &n) in sizes.iter().enumerate() {
            let row = tm_run(env, c, n);
            evals += row.0.len() as u64;
            // once an operation is over a second, or has grown well above linear and by more than the
            // margin, the verdict is in: larger sizes would only cost time
            // (for an accessor the verdict needs the larger margin: it is in once the call is over a second)
            let over = row.0.iter().enumerate().any(|(pos, (name, r))| match r {
                Ok(ns) if *ns > 5 * TM_MARGIN_NS => true,
                Ok(ns) if k > 0 => rows[k - 1].0.iter().find(|(n2, _)| n2 == name).and_then(|(_, r2)| r2.clone().ok()).map(|prev| {
                    let linear = prev.max(1_000) * (n as u64 * 1000 / sizes[k - 1] as u64) / 1000;
                    let margin = if tm_role(c, pos, name) == TmRole::Accessor { TM_RUNAWAY_NS } else { TM_MARGIN_NS };
                    *ns * 4 > linear * TM_GROWTH && *ns > linear + margin }).unwrap_or(false),
                _ => false,
            });
            rows.push(row);
            if over { break }
        }
        if is_control { controls.insert(ctl_key, rows.clone()); }
        table.push((is_control, rows));
    }
    let ms = |ns: u64| format!("{:.2} ms", ns as f64 / 1e6);
    let lookup = |rows: &[(TmOps, bool)], k: usize, name: &str| -> Option<u64> { rows.get(k).and_then(|(ops, _)| ops.iter().find(|(n, _)| *n == name).and_then(|(_, r)| r.clone().ok())) };
    for (is_control, rows) in &table {
        let who = if *is_control { "ordinary object" } else { "crafted object" };
        for (k, (ops, _)) in rows.iter().enumerate() {
            for (pos, (name, r)) in ops.iter().enumerate() {
                // the property bounds the time of the decoding entry points; what is done with the decoded
                // value afterwards must not panic (and must return), its growth is recorded as an observation
                let role = tm_role(case, pos, name);
                let judged = role == TmRole::Decode;
                match r {
                    Err(p) => fails.push(("C04.time.panic", name.to_string(), format!("{who}, n={}: {p}", sizes[k]))),
                    Ok(t) => {
                        if k > 0 { if let Some(prev) = lookup(rows, k - 1, name) {
                            let factor = (sizes[k] as u64 * 1000 / sizes[k - 1] as u64).max(1000);        // in thousandths
                            let linear = prev.max(1_000) * factor / 1000;
                            // "well above linear": more than TM_GROWTH/4 times what linear growth predicts, and by more than the margin
                            if role == TmRole::Accessor && *t * 4 > linear * TM_GROWTH && *t > linear + TM_RUNAWAY_NS {
                                fails.push(("C04.time.accessor_runaway", name.to_string(), format!("{who}: n={} takes {}, n={} takes {} of CPU time ({:.1}x the time for {:.1}x the size; linear growth would be {}, this is more than {} ms above it)",
                                    sizes[k - 1], ms(prev), sizes[k], ms(*t), *t as f64 / prev.max(1) as f64, factor as f64 / 1000.0, ms(linear), TM_RUNAWAY_NS / 1_000_000)));
                            }
                            if *t * 4 > linear * TM_GROWTH && *t > linear + TM_MARGIN_NS {
                                if !judged { fails.push(("C04.time.observed", name.to_string(), format!("{who}: grows well above linear"))); }
                                else { fails.push(("C04.time.growth", name.to_string(), format!("{who}: n={} takes {}, n={} takes {} of CPU time ({:.1}x the time for {:.1}x the size; linear growth would be {})",
                                    sizes[k - 1], ms(prev), sizes[k], ms(*t), *t as f64 / prev.max(1) as f64, factor as f64 / 1000.0, ms(linear)))); }
                            }
                        } }
                        if !*is_control { if let Some(ctl) = lookup(&table[1].1, k, name) {
                            if role == TmRole::Accessor && *t > ctl.max(1_000) * TM_VS_CONTROL && *t > ctl + TM_RUNAWAY_NS {
                                fails.push(("C04.time.accessor_runaway", name.to_string(), format!("n={}: on the crafted object the call takes {} of CPU time, on an ordinary object of the same size and count {} ({:.0}x, {} more)", sizes[k], ms(*t), ms(ctl), *t as f64 / ctl.max(1) as f64, ms(*t - ctl))));
                            }
                            if *t > ctl.max(1_000) * TM_VS_CONTROL && *t > ctl + TM_MARGIN_NS {
                                if !judged { fails.push(("C04.time.observed", name.to_string(), "crafted object: far slower than on the ordinary object".to_string())); }
                                else { fails.push(("C04.time.vs_control", name.to_string(), format!("n={}: the crafted object takes {}, an ordinary object of the same size {} ({:.0}x)", sizes[k], ms(*t), ms(ctl), *t as f64 / ctl.max(1) as f64))); }
                            }
                        } }
                    }
                }
            }
        }
    }
    if let Ok(path) = std::env::var("C04_TIME_TRACE") {
        let mut text = String::new();
        for (is_control, rows) in &table { for (k, (ops, ok)) in rows.iter().enumerate() {
            text.push_str(&format!("{} {} n={} decoded={} {}\n", case.desc(), if *is_control { "control" } else { "crafted" }, sizes[k], ok,
                ops.iter().map(|(n, r)| format!("{n}={}", match r { Ok(t) => ms(*t), Err(_) => "panic".into() })).collect::<Vec<_>>().join("; ")));
        } }
        text.push_str(&format!("{} cpu-of-the-whole-case={}\n", case.desc(), ms(cpu_ns().saturating_sub(cpu_at_start))));
        if let Ok(mut f) = std::fs::OpenOptions::new().create(true).append(true).open(path) { let _ = f.write_all(text.as_bytes()); }
    }
    let decoded = table[0].1.last().map(|(_, ok)| *ok).unwrap_or(false);
    // the ordinary object must decode at every size, or the comparison means nothing
    if table[1].1.iter().any(|(_, ok)| !*ok) { fails.push(("C04.time.fixture", "decode".into(), "the ordinary object of this family does not decode".into())) }
    (fails, decoded, evals)
}

//============ rta.validation.matrix: inherit x policy x depth x call order ==========

/// One family's claim in a certificate of the matrix.
#[derive(Clone, Copy, Debug, PartialEq, Eq, Hash, PartialOrd, Ord)]
enum Cl { Inh, Blk, Mis, Wide }
impl Cl { fn ch(self) -> char { match self { Cl::Inh => 'i', Cl::Blk => 'b', Cl::Mis => '-', Cl::Wide => 'w' } } }
fn cl3(c: [Cl; 3]) -> String { c.iter().map(|x| x.ch()).collect() }

/// TA -> d CA certificates -> EE certificate(s) -> RTA. Families are (v4, v6, AS).
#[derive(Clone, Debug)]
struct MxCfg {
    d: usize,
    ee: [Cl; 3],
    /// ca[0] is issued by the TA; only the first d are used
    ca: [[Cl; 3]; 3],
    /// how many of the issuers above the EE certificate travel inside the RTA (d + 1 = including the TA certificate)
    embed: usize,
    /// 0 = every certificate refuses overclaim, 1 = every issued certificate trims, 2 = only the EE certificates trim
    trim: u8,
    /// a second signer (its EE certificate swaps inherit and blocks)
    two: bool,
    /// the attestation asks for one block that nobody holds
    over: bool,
}

impl MxCfg {
    fn desc(&self) -> String {
        format!("d={},ee={},ca={},embedded={},policy={},signers={},attested={}", self.d, cl3(self.ee),
            if self.d == 0 { "none".to_string() } else { self.ca[..self.d].iter().map(|c| cl3(*c)).collect::<Vec<_>>().join("/") },
            self.embed, ["refuse", "trim", "trim-ee-only"][self.trim as usize], if self.two { 2 } else { 1 }, if self.over { "one-block-too-many" } else { "exact" })
    }
    fn ee2(&self) -> [Cl; 3] { self.ee.map(|c| match c { Cl::Inh => Cl::Blk, Cl::Blk | Cl::Wide => Cl::Inh, Cl::Mis => Cl::Mis }) }
}

fn triples(set: &[Cl]) -> Vec<[Cl; 3]> { let mut v = Vec::new(); for &a in set { for &b in set { for &c in set { v.push([a, b, c]) } } } v }

/// All configurations of the matrix in a fixed order; the second value is the number of supply calls after `new_at`.
fn mx_cfgs(thorough: bool) -> Vec<(MxCfg, usize)> {
    let mut out = Vec::new();
    let ca8 = triples(&[Cl::Inh, Cl::Blk]);
    let uniform = vec![[Cl::Inh; 3], [Cl::Blk; 3]];
    for d in 0..=3usize {
        let ee_set = if d <= 1 { triples(&[Cl::Inh, Cl::Blk, Cl::Mis, Cl::Wide]) } else { triples(&[Cl::Inh, Cl::Blk, Cl::Mis]) };
        let per_level = if d == 3 && !thorough { &uniform } else { &ca8 };
        let mut cas: Vec<[[Cl; 3]; 3]> = vec![[[Cl::Blk; 3]; 3]];
        for lvl in 0..d { cas = cas.iter().flat_map(|c| per_level.iter().map(move |p| { let mut x = *c; x[lvl] = *p; x })).collect(); }
        let variants: Vec<(u8, bool, bool)> = if thorough && d <= 2 { (0..3u8).flat_map(|t| [(t, false, false), (t, true, false), (t, false, true), (t, true, true)]).collect() }
            else if thorough || d == 2 { vec![(0, false, false), (1, false, false), (0, true, false)] }
            else { vec![(0, false, false), (1, false, false), (2, false, false), (0, true, false), (0, false, true)] };
        // every order of the d + 2 possible supply calls; beyond depth 2 (quick: beyond depth 1) only the first three calls
        let depth = if d <= 1 || (thorough && d == 2) { d + 2 } else { 3 };
        for ee in &ee_set { for ca in &cas { for embed in 0..=d + 1 { for &(trim, two, over) in &variants {
            out.push((MxCfg { d, ee: *ee, ca: *ca, embed, trim, two, over }, depth));
        } } } }
    }
    out
}

/// Keys of the levels: TA, CA 1..3, first EE, second EE.
const MX_KEY: [usize; 6] = [0, 1, 3, 5, 2, 6];

/// The block a certificate of this level claims (nested from level to level; the two EE certificates are disjoint).
fn mx_block(level: usize, fam: usize) -> (u128, u128) {
    let v6 = 0x2001_0db8u128 << 96;
    match (fam, level) {
        (0, 1) => (0x0a00_0000, 0x0aff_ffff), (0, 2) => (0x0a00_0000, 0x0a0f_ffff), (0, 3) => (0x0a00_0000, 0x0a00_ffff),
        (0, 4) => (0x0a00_0000, 0x0a00_0fff), (0, _) => (0x0a00_1000, 0x0a00_1fff),
        (1, 1) => (v6, v6 | ((1u128 << 96) - 1)), (1, 2) => (v6, v6 | ((1u128 << 92) - 1)), (1, 3) => (v6, v6 | ((1u128 << 88) - 1)),
        (1, 4) => (v6, v6 | ((1u128 << 84) - 1)), (1, _) => (v6 + (1u128 << 84), v6 + (1u128 << 84) + ((1u128 << 84) - 1)),
        (_, 1) => (64496, 64999), (_, 2) => (64496, 64799), (_, 3) => (64496, 64599), (_, 4) => (64496, 64511), (_, _) => (64512, 64520),
    }
}
/// More than any CA certificate of the matrix holds.
fn mx_wide(fam: usize) -> (u128, u128) {
    match fam { 0 => (0x0a00_0000, 0x0bff_ffff), 1 => (0x2001_0db8u128 << 96, (0x2001_0db9u128 << 96) | ((1u128 << 96) - 1)), _ => (64000, 65100) }
}
fn mx_claim(c: Cl, level: usize, fam: usize) -> Claim {
    match c { Cl::Inh => Claim::Inherit, Cl::Mis => Claim::Missing, Cl::Blk => Claim::Blocks(vec![mx_block(level, fam)]), Cl::Wide => Claim::Blocks(vec![mx_wide(fam)]) }
}
/// What the chain really gives the signer in one family (the model behind the "exact" attestation).
fn mx_effective(cfg: &MxCfg, claims: [Cl; 3], level: usize, fam: usize) -> Option<(u128, u128)> {
    let parent = (1..=cfg.d).rev().find(|&l| cfg.ca[l - 1][fam] == Cl::Blk).map(|l| mx_block(l, fam));
    let all = if fam == 1 { (0, u128::MAX) } else { (0, u32::MAX as u128) };
    match claims[fam] { Cl::Mis => None, Cl::Blk => Some(mx_block(level, fam)), Cl::Inh => Some(parent.unwrap_or(all)), Cl::Wide => Some(parent.unwrap_or(mx_wide(fam))) }
}

#[derive(Default)]
struct MxFx {
    /// (level, issuer level, claims, trims) -> DER
    certs: HashMap<(usize, usize, [Cl; 3], bool), Vec<u8>>,
    /// (d, CA claims, CAs trim) -> the validated certificates TA, CA 1, .., CA d
    chains: HashMap<(usize, [[Cl; 3]; 3], bool), Arc<Vec<ResourceCert>>>,
    crls: HashMap<usize, Vec<u8>>,
    /// (key, to-be-signed attributes) -> signature
    sigs: HashMap<(usize, Vec<u8>), Vec<u8>>,
}

impl MxFx {
    fn cert(&mut self, env: &Env, level: usize, issuer: usize, claims: [Cl; 3], trim: bool) -> Vec<u8> {
        self.certs.entry((level, issuer, claims, trim)).or_insert_with(|| {
            let s = &env.signer;
            let serial = 5000 + (level * 4 + issuer) as u128 * 1000 + claims.iter().fold(0u128, |a, c| a * 4 + *c as u128) * 2 + trim as u128;
            if level == 0 { return pki::build_cert_der(s, &spec_with(Spec::ta(MX_KEY[0], Res::all()), serial)) }
            let res = Res { v4: mx_claim(claims[0], level, 0), v6: mx_claim(claims[1], level, 1), asn: mx_claim(claims[2], level, 2) };
            let kind = if level >= 4 { pki::Kind::Ee } else { pki::Kind::Ca };
            let policy = if trim { Overclaim::Trim } else { Overclaim::Refuse };
            pki::build_cert_der(s, &spec_with(Spec::issued(kind, MX_KEY[level], MX_KEY[issuer], s.ski(MX_KEY[issuer]), res, policy), serial))
        }).clone()
    }
    fn chain(&mut self, env: &Env, cfg: &MxCfg) -> Arc<Vec<ResourceCert>> {
        let trim = cfg.trim == 1;
        let mut key_ca = cfg.ca; for l in cfg.d..3 { key_ca[l] = [Cl::Blk; 3] }
        if let Some(c) = self.chains.get(&(cfg.d, key_ca, trim)) { return c.clone() }
        let mut v: Vec<ResourceCert> = Vec::new();
        let ta = self.cert(env, 0, 0, [Cl::Blk; 3], false);
        v.push(Cert::decode(ta.as_slice()).expect("matrix TA decodes").validate_ta_at(pki::tal(), false, t0()).expect("matrix TA validates"));
        for l in 1..=cfg.d {
            let c = self.cert(env, l, l - 1, cfg.ca[l - 1], trim);
            let rc = Cert::decode(c.as_slice()).expect("matrix CA decodes").validate_ca_at(&v[l - 1], false, t0()).expect("matrix CA validates");
            v.push(rc);
        }
        let v = Arc::new(v);
        self.chains.insert((cfg.d, key_ca, trim), v.clone());
        v
    }
    fn crl(&mut self, env: &Env, key: usize) -> Vec<u8> {
        self.crls.entry(key).or_insert_with(|| {
            let s = &env.signer;
            TbsCertList::new(RpkiSignatureAlgorithm::default(), s.public(key).to_subject_name(), pki::time(pki::T0 - 3600), Time::utc(2123, 11, 14, 0, 0, 0),
                vec![CrlEntry::new(Serial::from(999u64), pki::time(pki::T0 - 7200))], s.public(key).key_identifier(), Serial::from(1u64))
                .into_crl(s, &Kid(key)).expect("matrix crl").to_captured().as_slice().to_vec()
        }).clone()
    }
    /// The RTA of a configuration, assembled with the independent encoder.
    fn rta(&mut self, env: &Env, cfg: &MxCfg) -> Vec<u8> {
        let s = &env.signer;
        let (trim_ee, trim_ca) = (cfg.trim != 0, cfg.trim == 1);
        let mut certs = vec![self.cert(env, 4, cfg.d, cfg.ee, trim_ee)];
        let mut signers = vec![(MX_KEY[4], cfg.ee, 4usize)];
        if cfg.two { certs.push(self.cert(env, 5, cfg.d, cfg.ee2(), trim_ee)); signers.push((MX_KEY[5], cfg.ee2(), 5)); }
        let mut crls = Vec::new();
        for j in 0..cfg.embed {
            let level = cfg.d - j.min(cfg.d);
            if j > cfg.d { break }
            certs.push(if level == 0 { self.cert(env, 0, 0, [Cl::Blk; 3], false) } else { self.cert(env, level, level - 1, cfg.ca[level - 1], trim_ca) });
            crls.push(self.crl(env, MX_KEY[level]));
        }
        // the attestation: exactly what the signers hold (plus one foreign block)
        let mut att = rta::AttestationBuilder::new(DigestAlgorithm::default(), DigestAlgorithm::default().digest(b"attested document").into());
        for (k, _, _) in &signers { att.push_key(s.public(*k).key_identifier()) }
        let mut any = false;
        for (_, claims, level) in &signers {
            if let Some(b) = mx_effective(cfg, *claims, *level, 0) { for x in pki::ip_blocks(32, &[b]).iter() { att.push_v4(x) } any = true }
            if let Some(b) = mx_effective(cfg, *claims, *level, 1) { for x in pki::ip_blocks(128, &[b]).iter() { att.push_v6(x) } any = true }
            if let Some(b) = mx_effective(cfg, *claims, *level, 2) { for x in pki::as_blocks(&[b]).iter() { att.push_as(x) } any = true }
        }
        if cfg.over || !any { for x in pki::ip_blocks(32, &[(0xc000_0200, 0xc000_02ff)]).iter() { att.push_v4(x) } }
        let content = att.into_attestation().encode_ref().to_captured(Mode::Der).as_slice().to_vec();
        let tbs = der::signed_attrs_tbs(&rta_attrs(&content));
        let infos: Vec<Vec<u8>> = signers.iter().map(|(k, _, _)| {
            let sig = self.sigs.entry((*k, tbs.clone())).or_insert_with(|| s.sign_raw(*k, &tbs)).clone();
            let mut wire = tbs.clone(); wire[0] = 0xa0;
            der::seq(&[der::int_u(3), der::ctx(0, false, s.ski(*k).as_slice()), der::alg_sha256(false), wire, der::alg_rsa_encryption(), der::octets(&sig)])
        }).collect();
        let mut sd = vec![der::int_u(3), der::set_of(&[der::alg_sha256(false)]), der::seq(&[der::oid(OID_CT_RTA), der::ctx(0, true, &der::octets(&content))]), der::ctx(0, true, &certs.concat())];
        if !crls.is_empty() { sd.push(der::ctx(1, true, &crls.concat())) }
        sd.push(der::set_unsorted(&infos));
        der::seq(&[der::oid(der::OID_SIGNED_DATA), der::ctx(0, true, &der::seq(&sd))])
    }
}

struct MxWalk<'e> {
    env: &'e Env, chain: &'e [ResourceCert], depth: usize,
    nodes: u64, finalized: u64, outcomes: BTreeMap<String, u64>,
    /// (calls so far, accessor, panic)
    panics: Vec<(String, &'static str, String)>,
}

impl MxWalk<'_> {
    fn call_name(a: usize) -> String { if a == 0 { "supply_tal".into() } else if a == 1 { "supply_ca(TA)".into() } else { format!("supply_ca(CA{})", a - 1) } }
    fn calls(path: &[usize], last: &str) -> String { std::iter::once("new_at".to_string()).chain(path.iter().map(|a| Self::call_name(*a))).chain(std::iter::once(last.to_string())).collect::<Vec<_>>().join(">") }
    fn count(&mut self, k: String) { *self.outcomes.entry(k).or_insert(0) += 1 }
    /// `finalize` here, then every not yet used supply call and from there again.
    fn visit<'a>(&mut self, v: &rta::Validation<'a>, used: &mut Vec<bool>, path: &mut Vec<usize>) {
        self.nodes += 1;
        match guard(|| v.clone().finalize().map(|c| c.subject_keys().len())) {
            Err(p) => self.panics.push((Self::calls(path, "finalize"), "rta::Validation::finalize", p)),
            Ok(Ok(_)) => { self.finalized += 1; self.count("finalize: the attestation is valid".into()) }
            Ok(Err(e)) => self.count(format!("finalize: {}", err_class(&e.to_string()))),
        }
        if path.len() >= self.depth { return }
        for a in 0..used.len() {
            if used[a] { continue }
            if a == 0 && self.env.tal.is_none() { continue }
            let mut w = v.clone();
            let r = guard(|| if a == 0 { w.supply_tal(self.env.tal.as_ref().unwrap()) } else { w.supply_ca(&self.chain[a - 1]) });
            let what = if a == 0 { "supply_tal" } else { "supply_ca" };
            match r {
                Err(p) => { self.panics.push((Self::calls(path, &Self::call_name(a)), if a == 0 { "rta::Validation::supply_tal" } else { "rta::Validation::supply_ca" }, p)); continue }
                Ok(Ok(done)) => self.count(format!("{what}: {}", if done { "all chains complete" } else { "not (yet) complete" })),
                Ok(Err(e)) => { self.count(format!("{what}: {}", err_class(&e.to_string()))); }
            }
            used[a] = true; path.push(a);
            self.visit(&w, used, path);
            path.pop(); used[a] = false;
        }
    }
}

/// Runs one configuration: decode, `new_at` (lenient and strict), the whole tree of supply calls with `finalize` at every node.
fn mx_run(env: &Env, fx: &mut MxFx, idx: u64, cfg: &MxCfg, depth: usize, res: &mut TaskResult) {
    let built = guard(|| { let b = fx.rta(env, cfg); let c = fx.chain(env, cfg); (b, c) });
    let (bytes, chain) = match built { Ok(x) => x, Err(p) => { res.mach.push(format!("rta matrix: cannot build {}: {p}", cfg.desc())); return } };
    let fail = |res: &mut TaskResult, strict: &str, calls: &str, acc: &str, p: String| {
        let n = res.fails.len();
        res.fails.push(("C04.rta.validation.panic".to_string(),
            format!("mode=strict;cause=panic ep=rta seed=- sp=rtamx i={idx} case={},validation={strict},calls={calls} acc={acc}", cfg.desc()),
            if n < 3 { format!("{p} | input={}", hex(&bytes)) } else { p }));
    };
    res.evals += 1;
    let r = match guard(|| rta::Rta::decode(bytes.as_slice(), true)) {
        Err(p) => { fail(res, "-", "decode", "Rta::decode", p); return }
        Ok(Err(e)) => { *res.outcomes.entry(format!("decode: {}", err_class(&e.to_string()))).or_insert(0) += 1; return }
        Ok(Ok(r)) => r,
    };
    let mut any = false;
    for strict in [false, true] {
        let sname = if strict { "strict" } else { "lenient" };
        let v = match guard(|| rta::Validation::new_at(&r, strict, t0())) {
            Err(p) => { fail(res, sname, "new_at", "rta::Validation::new_at", p); res.evals += 1; continue }
            Ok(Err(e)) => { *res.outcomes.entry(format!("new_at: {}", err_class(&e.to_string()))).or_insert(0) += 1; res.evals += 1; continue }
            Ok(Ok(v)) => v,
        };
        *res.outcomes.entry("new_at: ok".to_string()).or_insert(0) += 1;
        let mut w = MxWalk { env, chain: &chain, depth, nodes: 0, finalized: 0, outcomes: BTreeMap::new(), panics: Vec::new() };
        w.visit(&v, &mut vec![false; cfg.d + 2], &mut Vec::new());
        res.evals += w.nodes;
        any |= w.finalized > 0;
        for (k, n) in w.outcomes { *res.outcomes.entry(k).or_insert(0) += n }
        // shortest call sequences first
        w.panics.sort_by_key(|(calls, _, _)| (calls.matches('>').count(), calls.clone()));
        for (calls, acc, p) in w.panics { fail(res, sname, &calls, acc, p) }
    }
    if any { res.nontrivial += 1; *res.marks.entry("configurations in which some call order ends in a valid attestation".into()).or_insert(0) += 1 }
}

//============ accessor.sequences: every call sequence up to a length on decoded objects ===

struct Meth<'a, O> { name: &'static str, /// the answer may not depend on what was called before
    pure_obs: bool, f: Box<dyn Fn(&mut O) -> String + 'a> }
fn meth<'a, O>(name: &'static str, f: impl Fn(&mut O) -> String + 'a) -> Meth<'a, O> { Meth { name, pure_obs: true, f: Box::new(f) } }
fn meth_state<'a, O>(name: &'static str, f: impl Fn(&mut O) -> String + 'a) -> Meth<'a, O> { Meth { name, pure_obs: false, f: Box::new(f) } }

#[derive(Default)]
struct SeqOut {
    evals: u64, nontrivial: u64, outcomes: BTreeMap<String, u64>, sample: Option<String>,
    /// (oracle, type, call sequence, detail)
    fails: Vec<(&'static str, &'static str, String, String)>,
}

fn obs_class(s: &str) -> String { trunc(&err_class(s.split('#').next().unwrap_or("")), 40) }

/// All sequences of 1..=maxlen calls from `meths`, each on a fresh object; every answer of a
/// pure accessor must be the one it gives as the first call on a fresh object.
fn seq_drive<O>(ty: &'static str, fresh: &dyn Fn() -> Option<O>, meths: &[Meth<O>], maxlen: usize, out: &mut SeqOut) {
    let m = meths.len();
    if m == 0 { return }
    let mut reference: Vec<Option<String>> = Vec::new();
    for me in meths {
        let Some(mut o) = fresh() else { return };
        match guard(|| (me.f)(&mut o)) {
            Ok(s) => { *out.outcomes.entry(format!("{ty}: {} -> {}", me.name, obs_class(&s))).or_insert(0) += 1; reference.push(Some(s)) }
            Err(_) => reference.push(None),       // reported by the length-1 sequence below
        }
    }
    for len in 1..=maxlen {
        let total = (m as u64).pow(len as u32);
        for code in 0..total {
            let mut seq = Vec::with_capacity(len);
            let mut c = code;
            for _ in 0..len { seq.push((c % m as u64) as usize); c /= m as u64 }
            let Some(mut o) = fresh() else { return };
            out.evals += 1;
            if len > 1 { out.nontrivial += 1 }
            if len == 3 && code == total / 2 && out.sample.is_none() { out.sample = Some(format!("{ty}: {}", seq.iter().map(|&i| meths[i].name).collect::<Vec<_>>().join(">"))) }
            for (k, &mi) in seq.iter().enumerate() {
                let me = &meths[mi];
                let names = || seq[..=k].iter().map(|&i| meths[i].name).collect::<Vec<_>>().join(">");
                match guard(|| (me.f)(&mut o)) {
                    Err(p) => { out.fails.push(("C04.seq.panic", ty, names(), p)); break }
                    Ok(s) => if me.pure_obs { if let Some(r) = &reference[mi] { if *r != s {
                        out.fails.push(("C04.seq.same_answer", ty, names(), format!("{} answers {:?} after these calls, {:?} as the first call on a fresh object", me.name, trunc(&s, 120), trunc(r, 120))));
                        break
                    } } }
                }
            }
        }
    }
}

/// Two iterators over the same object, advanced in every interleaving of up to `maxlen`
/// steps from {next on either, nth(1), size_hint, count, last}; the items must be those of one plain pass.
fn iter_seqs<I: Iterator>(ty: &'static str, mk: &dyn Fn() -> I, render: &dyn Fn(I::Item) -> String, cap: usize, maxlen: usize, out: &mut SeqOut) {
    let reference: Vec<String> = match guard(|| mk().take(cap + 1).map(render).collect::<Vec<_>>()) {
        Ok(v) => v,
        Err(p) => { out.fails.push(("C04.seq.panic", ty, "collect".into(), p)); return }
    };
    if reference.len() > cap { out.fails.push(("C04.seq.iter", ty, "collect".into(), format!("more than {cap} items"))); return }
    *out.outcomes.entry(format!("{ty}: {}", match reference.len() { 0 => "no items", 1 => "one item", _ => "several items" })).or_insert(0) += 1;
    const OPS: [&str; 6] = ["a.next", "b.next", "a.nth(1)", "a.size_hint", "a.count", "a.last"];
    let n = reference.len();
    for len in 1..=maxlen {
        for code in 0..(OPS.len() as u64).pow(len as u32) {
            let mut seq = Vec::with_capacity(len);
            let mut c = code;
            for _ in 0..len { seq.push((c % OPS.len() as u64) as usize); c /= OPS.len() as u64 }
            out.evals += 1;
            if len > 1 { out.nontrivial += 1 }
            let r = guard(|| -> Result<(), String> {
                let (mut a, mut b) = (mk(), mk());
                // positions in the reference; `None` = the iterator has reported its end (or was consumed) and is no longer asked
                let (mut pa, mut pb) = (Some(0usize), Some(0usize));
                for &op in &seq {
                    match op {
                        0 | 1 => {
                            let (it, p) = if op == 0 { (&mut a, &mut pa) } else { (&mut b, &mut pb) };
                            let got = it.next().map(render);
                            if let Some(k) = *p {
                                if got.as_ref() != reference.get(k) { return Err(format!("{} gives {:?}, item {k} of a plain pass is {:?}", OPS[op], got, reference.get(k))) }
                                *p = if k < n { Some(k + 1) } else { None };
                            }
                        }
                        2 => { let got = a.nth(1).map(render); if let Some(k) = pa {
                            if got.as_ref() != reference.get(k + 1) { return Err(format!("nth(1) at position {k} gives {:?}, a plain pass has {:?}", got, reference.get(k + 1))) }
                            pa = if k + 1 < n { Some(k + 2) } else { None };
                        } }
                        3 => { let _ = a.size_hint(); }     // must not panic and must not disturb the iterator; its value is a hint
                        4 => { let got = a.by_ref().count(); if let Some(k) = pa { if got != n - k { return Err(format!("count gives {got} with {} items left", n - k)) } } pa = None; }
                        _ => { let got = a.by_ref().last().map(render); if let Some(k) = pa { let want = if k < n { reference.last() } else { None }; if got.as_ref() != want { return Err(format!("last gives {:?}, a plain pass ends with {:?}", got, want)) } } pa = None; }
                    }
                }
                for (it, p, name) in [(&mut a, pa, "a"), (&mut b, pb, "b")] {
                    if let Some(k) = p {
                        let rest: Vec<String> = it.take(cap + 1).map(render).collect();
                        if rest[..] != reference[k..] { return Err(format!("the rest of iterator {name} from position {k} has {} items and differs from a plain pass ({} items left)", rest.len(), n - k)) }
                    }
                }
                Ok(())
            });
            let names = || seq.iter().map(|&i| OPS[i]).collect::<Vec<_>>().join(">");
            match r { Ok(Ok(())) => {}, Ok(Err(d)) => out.fails.push(("C04.seq.iter", ty, names(), d)), Err(p) => out.fails.push(("C04.seq.panic", ty, names(), p)) }
        }
    }
}

fn fold_hash<T: AsRef<[u8]>>(items: impl Iterator<Item = T>) -> String {
    let (mut n, mut h) = (0u64, 0xcbf29ce484222325u64);
    for i in items { n += 1; for b in i.as_ref() { h ^= *b as u64; h = h.wrapping_mul(0x100000001b3) } h = h.rotate_left(7) }
    format!("{n} items #{h:016x}")
}

/// The sequence space for one (seed, entry point). Returns false if the seed does not decode here.
fn seq_run(env: &Env, ep: Ep, bytes: &[u8], thorough: bool, out: &mut SeqOut) -> bool {
    let strict_mode = ep.mode() != "relaxed";
    let cap = bytes.len();
    let maxlen_for = |m: usize| if thorough && (m as u64).pow(4) <= 40_000 { 4 } else { 3 };
    let il = if thorough { 4 } else { 3 };
    let t = t0();
    let ok_class = |r: Result<String, String>| match r { Ok(s) => format!("ok {s}"), Err(e) => format!("err {}", err_class(&e)) };
    match ep {
        Ep::Crl => {
            let fresh = || Crl::decode(bytes).ok();
            let Some(p) = fresh() else { return false };
            let serials: Vec<Serial> = p.revoked_certs().iter().take(cap + 1).map(|e| e.user_certificate).collect();
            let probe = |k: usize| serials.get(k).copied();
            let mut probes: Vec<(&'static str, Serial)> = Vec::new();
            if let Some(s) = probe(0) { probes.push(("contains(first)", s)) }
            if let Some(s) = probe(serials.len() / 2) { probes.push(("contains(middle)", s)) }
            if let Some(s) = serials.last() { probes.push(("contains(last)", *s)) }
            // serial numbers that equal a listed one in all but one bit far up (same low octets)
            if let Some(s) = probe(0) { for (name, bit) in [("contains(first^2^64)", 64usize), ("contains(first^2^128)", 128)] {
                let mut a = s.into_array(); a[19 - bit / 8] ^= 1 << (bit % 8);
                if let Ok(x) = Serial::from_array(a) { probes.push((name, x)) }
            } }
            probes.push(("contains(0)", Serial::from(0u64)));
            probes.push(("contains(2^127-1)", Serial::from(u128::MAX >> 1)));
            let mut meths: Vec<Meth<Crl>> = vec![meth("cache_serials", |c: &mut Crl| { c.cache_serials(); "()".into() })];
            for (name, s) in probes.clone() { meths.push(meth(name, move |c: &mut Crl| c.contains(s).to_string())) }
            if let Some(s) = probe(serials.len() / 2) { meths.push(meth("revoked_certs.contains(middle)", move |c: &mut Crl| c.revoked_certs().contains(s).to_string())) }
            meths.push(meth("iter", |c: &mut Crl| fold_hash(c.revoked_certs().iter().map(|e| e.user_certificate.into_array()))));
            meths.push(meth("to_captured", |c: &mut Crl| fold_hash(std::iter::once(c.to_captured().into_bytes()))));
            meths.push(meth("clone", |c: &mut Crl| { *c = c.clone(); "()".into() }));
            meths.push(meth("serde", |c: &mut Crl| match serde_json::to_string(c).map_err(|e| e.to_string()).and_then(|s| serde_json::from_str::<Crl>(&s).map_err(|e| e.to_string())) { Ok(x) => { if x.to_captured().as_slice() == bytes { *c = x; "replaced".into() } else { "re-encodes differently".into() } }, Err(e) => format!("err {}", err_class(&e)) }));
            let first = probes[0].1;
            meths.push(meth("CrlStore(caching).push+get+contains", move |c: &mut Crl| { let mut st = CrlStore::new(); st.enable_serial_caching(); let u = rsync("rsync://example.net/repo/ca/ca.crl"); st.push(u.clone(), c.clone()); st.get(&u).map(|x| x.contains(first)).unwrap_or(false).to_string() }));
            meths.push(meth("CrlStore.push+get+contains", move |c: &mut Crl| { let mut st = CrlStore::new(); let u = rsync("rsync://example.net/repo/ca/ca.crl"); st.push(u.clone(), c.clone()); st.get(&u).map(|x| x.contains(first)).unwrap_or(false).to_string() }));
            seq_drive("Crl", &fresh, &meths, maxlen_for(meths.len()), out);
            iter_seqs("RevokedCertificates::iter", &|| p.revoked_certs().iter(), &|e: CrlEntry| format!("{} {}", e.user_certificate, e.revocation_date.timestamp()), cap, il, out);
        }
        Ep::MftS | Ep::MftR => {
            let fresh = || Manifest::decode(bytes, strict_mode).ok();
            let Some(p) = fresh() else { return false };
            let mut meths: Vec<Meth<Manifest>> = vec![
                meth("len", |m: &mut Manifest| format!("{} {}", m.len(), m.is_empty())),
                meth("iter", |m: &mut Manifest| fold_hash(m.iter().map(|f| { let (a, b) = f.into_pair(); [a.as_ref(), b.as_ref()].concat() }))),
                meth("iter_uris", |m: &mut Manifest| fold_hash(m.iter_uris(&env.base).map(|(u, h)| [u.as_str().as_bytes(), h.as_slice()].concat()))),
                meth("content.clone.iter", |m: &mut Manifest| fold_hash(m.content().clone().iter().map(|f| f.file().to_vec()))),
                meth("numbers", |m: &mut Manifest| format!("{} {} {}", m.manifest_number(), m.this_update().timestamp(), m.next_update().timestamp())),
                meth("clone", |m: &mut Manifest| { *m = m.clone(); "()".into() }),
            ];
            for (j, (issuer, ti)) in env.issuers.iter().enumerate() {
                if j > 0 && p.cert().verify_issuer_claim(issuer, false).is_err() { continue }
                for strict in [false, true] {
                    let ti = *ti;
                    meths.push(meth(if strict { "validate_at(strict)" } else { "validate_at(lenient)" }, move |m: &mut Manifest| ok_class(m.clone().validate_at(issuer, strict, ti).map(|(rc, c)| format!("{} {}", rc.v4_resources().iter().count(), fold_hash(c.iter().map(|f| f.file().to_vec())))).map_err(|e| e.to_string()))));
                }
            }
            if strict_mode {
                meths.push(meth("to_captured", |m: &mut Manifest| fold_hash(std::iter::once(m.to_captured().into_bytes()))));
                meths.push(meth("serde", |m: &mut Manifest| match serde_json::to_string(m).map_err(|e| e.to_string()).and_then(|s| serde_json::from_str::<Manifest>(&s).map_err(|e| e.to_string())) { Ok(x) => { if x.to_captured().as_slice() == bytes { *m = x; "replaced".into() } else { "re-encodes differently".into() } }, Err(e) => format!("err {}", err_class(&e)) }));
            }
            seq_drive("Manifest", &fresh, &meths, maxlen_for(meths.len()), out);
            iter_seqs("ManifestContent::iter", &|| p.iter(), &|f| format!("{} {}", hex(f.file()), hex(f.hash())), cap, il, out);
            iter_seqs("ManifestContent::iter_uris", &|| p.iter_uris(&env.base), &|(u, h)| format!("{} {}", u, hex(h.as_slice())), cap, il, out);
        }
        Ep::RoaS | Ep::RoaR => {
            let fresh = || Roa::decode(bytes, strict_mode).ok();
            let Some(p) = fresh() else { return false };
            let mut meths: Vec<Meth<Roa>> = vec![
                meth("content.iter", |r: &mut Roa| fold_hash(r.content().iter().map(|f| f.to_string()))),
                meth("v4_addrs", |r: &mut Roa| fold_hash(r.content().v4_addrs().iter().map(|a| format!("{:?}{:?}", a.range(), a.max_length())))),
                meth("v6_addrs", |r: &mut Roa| fold_hash(r.content().v6_addrs().iter().map(|a| format!("{:?}{:?}", a.range(), a.max_length())))),
                meth("iter_origins", |r: &mut Roa| fold_hash(r.content().iter_origins().map(|o| format!("{o:?}")))),
                meth("clone", |r: &mut Roa| { *r = r.clone(); "()".into() }),
            ];
            for (j, (issuer, _)) in env.issuers.iter().enumerate() {
                if j > 0 && p.cert().verify_issuer_claim(issuer, false).is_err() { continue }
                for strict in [false, true] {
                    meths.push(meth(if strict { "process(strict)" } else { "process(lenient)" }, move |r: &mut Roa| ok_class(r.clone().process(issuer, strict, |_| Ok(())).map(|(rc, c)| format!("{} {}", rc.v4_resources().iter().count(), fold_hash(c.iter().map(|f| f.to_string())))).map_err(|e| e.to_string()))));
                }
            }
            if strict_mode {
                meths.push(meth("to_captured", |r: &mut Roa| fold_hash(std::iter::once(r.to_captured().into_bytes()))));
                meths.push(meth("serde", |r: &mut Roa| match serde_json::to_string(r).map_err(|e| e.to_string()).and_then(|s| serde_json::from_str::<Roa>(&s).map_err(|e| e.to_string())) { Ok(x) => { if x.to_captured().as_slice() == bytes { *r = x; "replaced".into() } else { "re-encodes differently".into() } }, Err(e) => format!("err {}", err_class(&e)) }));
            }
            seq_drive("Roa", &fresh, &meths, maxlen_for(meths.len()), out);
            iter_seqs("RoaIpAddresses::iter(v4)", &|| p.content().v4_addrs().iter(), &|a| format!("{:?} {:?}", a.range(), a.max_length()), cap, il, out);
            iter_seqs("RoaIpAddresses::iter(v6)", &|| p.content().v6_addrs().iter(), &|a| format!("{:?} {:?}", a.range(), a.max_length()), cap, il, out);
            iter_seqs("RouteOriginAttestation::iter", &|| p.content().iter(), &|f| f.to_string(), cap, il, out);
            iter_seqs("RouteOriginAttestation::iter_origins", &|| p.content().iter_origins(), &|o| format!("{o:?}"), cap, il, out);
        }
        Ep::AspaS | Ep::AspaR => {
            let fresh = || Aspa::decode(bytes, strict_mode).ok();
            let Some(p) = fresh() else { return false };
            let mut meths: Vec<Meth<Aspa>> = vec![
                meth("providers.iter", |a: &mut Aspa| fold_hash(a.content().provider_as_set().iter().map(|x| x.into_u32().to_be_bytes()))),
                meth("providers.to_set", |a: &mut Aspa| { let s = a.content().provider_as_set().to_set(); format!("{} {} {}", s.len(), s.contains(Asn::from_u32(64497)), fold_hash(s.iter().map(|x| x.into_u32().to_be_bytes()))) }),
                meth("as_resources", |a: &mut Aspa| format!("{} {}", a.content().customer_as(), a.content().as_resources())),
                meth("clone", |a: &mut Aspa| { *a = a.clone(); "()".into() }),
            ];
            for (j, (issuer, _)) in env.issuers.iter().enumerate() {
                if j > 0 && p.cert().verify_issuer_claim(issuer, false).is_err() { continue }
                for strict in [false, true] {
                    meths.push(meth(if strict { "process(strict)" } else { "process(lenient)" }, move |a: &mut Aspa| ok_class(a.clone().process(issuer, strict, |_| Ok(())).map(|(rc, c)| format!("{} {}", rc.as_resources().iter().count(), c.provider_as_set().len())).map_err(|e| e.to_string()))));
                }
            }
            if strict_mode {
                meths.push(meth("to_captured", |a: &mut Aspa| fold_hash(std::iter::once(a.to_captured().into_bytes()))));
                meths.push(meth("serde", |a: &mut Aspa| match serde_json::to_string(a).map_err(|e| e.to_string()).and_then(|s| serde_json::from_str::<Aspa>(&s).map_err(|e| e.to_string())) { Ok(x) => { if x.to_captured().as_slice() == bytes { *a = x; "replaced".into() } else { "re-encodes differently".into() } }, Err(e) => format!("err {}", err_class(&e)) }));
            }
            seq_drive("Aspa", &fresh, &meths, maxlen_for(meths.len()), out);
            iter_seqs("ProviderAsSet::iter", &|| p.content().provider_as_set().iter(), &|x| x.to_string(), cap, il, out);
            let set = p.content().provider_as_set().to_set();
            iter_seqs("SmallAsnSet::iter", &|| set.iter(), &|x| x.to_string(), cap, il, out);
        }
        Ep::Cert => {
            let fresh = || Cert::decode(bytes).ok();
            let Some(p) = fresh() else { return false };
            let mut meths: Vec<Meth<Cert>> = vec![
                meth("to_captured", |c: &mut Cert| fold_hash(std::iter::once(c.to_captured().into_bytes()))),
                meth("resources", |c: &mut Cert| format!("{:?} {:?} {:?}", c.v4_resources().to_blocks().map(|b| b.as_v4().to_string()).ok(), c.v6_resources().to_blocks().map(|b| b.as_v6().to_string()).ok(), c.as_resources().to_blocks().map(|b| b.to_string()).ok())),
                meth("inspect", |c: &mut Cert| format!("{} {} {} {}", c.inspect_ta(true).is_ok(), c.inspect_ca(true).is_ok(), c.inspect_ee(true).is_ok(), c.inspect_detached_ee(true).is_ok())),
                meth("clone", |c: &mut Cert| { *c = c.clone(); "()".into() }),
                meth("serde", |c: &mut Cert| match serde_json::to_string(c).map_err(|e| e.to_string()).and_then(|s| serde_json::from_str::<Cert>(&s).map_err(|e| e.to_string())) { Ok(x) => { if x.to_captured().as_slice() == bytes { *c = x; "replaced".into() } else { "re-encodes differently".into() } }, Err(e) => format!("err {}", err_class(&e)) }),
                meth("validate_ta_at", move |c: &mut Cert| ok_class(c.clone().validate_ta_at(pki::tal(), false, t).map(|rc| format!("{} {}", rc.v4_resources().as_v4(), rc.as_resources())).map_err(|e| e.to_string()))),
            ];
            for (j, (issuer, ti)) in env.issuers.iter().enumerate() {
                if p.verify_issuer_claim(issuer, false).is_err() { continue }
                let _ = j; let ti = *ti;
                meths.push(meth("validate_ca_at", move |c: &mut Cert| ok_class(c.clone().validate_ca_at(issuer, false, ti).map(|rc| format!("{} {}", rc.v4_resources().as_v4(), rc.as_resources())).map_err(|e| e.to_string()))));
                meths.push(meth("validate_ee_at", move |c: &mut Cert| ok_class(c.clone().validate_ee_at(issuer, false, ti).map(|rc| format!("{} {}", rc.v4_resources().as_v4(), rc.as_resources())).map_err(|e| e.to_string()))));
                meths.push(meth("validate_router_at", move |c: &mut Cert| ok_class(c.validate_router_at(issuer, false, ti).map(|_| String::new()).map_err(|e| e.to_string()))));
            }
            seq_drive("Cert", &fresh, &meths, maxlen_for(meths.len()), out);
            if let Ok(b) = p.v4_resources().to_blocks() { iter_seqs("IpBlocks::iter", &|| b.iter(), &|x| x.display_v4().to_string(), cap, il, out) }
            if let Ok(b) = p.v6_resources().to_blocks() { iter_seqs("IpBlocks::iter", &|| b.iter(), &|x| x.display_v6().to_string(), cap, il, out) }
            if let Ok(b) = p.as_resources().to_blocks() {
                iter_seqs("AsBlocks::iter", &|| b.iter(), &|x| x.to_string(), cap, il, out);
                iter_seqs("AsBlocks::iter_asns", &|| b.iter_asns().take(40), &|x| x.to_string(), 40, il, out);
            }
        }
        Ep::Tal => {
            let fresh = || { let mut rd = bytes; Tal::read_named("c04".into(), &mut rd).ok() };
            let Some(p) = fresh() else { return false };
            let meths: Vec<Meth<Tal>> = vec![
                meth_state("prefer_https", |t: &mut Tal| { t.prefer_https(); "()".into() }),
                meth_state("uris (in order)", |t: &mut Tal| fold_hash(t.uris().map(|u| u.as_str().to_string()))),
                meth("uris (as a set)", |t: &mut Tal| { let mut v: Vec<String> = t.uris().map(|u| u.as_str().to_string()).collect(); v.sort(); fold_hash(v.into_iter()) }),
                meth("key_info", |t: &mut Tal| t.key_info().key_identifier().to_string()),
                meth("clone", |t: &mut Tal| { *t = t.clone(); "()".into() }),
            ];
            seq_drive("Tal", &fresh, &meths, maxlen_for(meths.len()), out);
            iter_seqs("Tal::uris", &|| p.uris(), &|u| u.as_str().to_string(), cap, il, out);
        }
        Ep::AsText => {
            let Ok(text) = std::str::from_utf8(bytes) else { return false };
            let fresh = || AsBlocks::from_str(text).ok().map(|b| (b, Vec::<AsBlocks>::new()));
            let Some((p, _)) = fresh() else { return false };
            let other = env.issuers[1].0.as_resources().clone();
            let show = |b: &AsBlocks| b.to_string();
            let (o1, o2, o3) = (other.clone(), other.clone(), other.clone());
            let meths: Vec<Meth<(AsBlocks, Vec<AsBlocks>)>> = vec![
                meth_state("intersection_assign(other)", move |s: &mut (AsBlocks, Vec<AsBlocks>)| { s.0.intersection_assign(&o1); show(&s.0) }),
                meth_state("intersection_assign(self)", move |s: &mut (AsBlocks, Vec<AsBlocks>)| { let c = s.0.clone(); s.0.intersection_assign(&c); show(&s.0) }),
                meth_state("union(other)", move |s: &mut (AsBlocks, Vec<AsBlocks>)| { s.0 = s.0.union(&o2); show(&s.0) }),
                meth_state("difference(other)", move |s: &mut (AsBlocks, Vec<AsBlocks>)| { s.0 = s.0.difference(&o3); show(&s.0) }),
                meth_state("reparse", move |s: &mut (AsBlocks, Vec<AsBlocks>)| { if let Ok(b) = AsBlocks::from_str(&s.0.to_string()) { s.0 = b } show(&s.0) }),
                meth_state("hold a clone", move |s: &mut (AsBlocks, Vec<AsBlocks>)| { s.1.push(s.0.clone()); s.1.len().to_string() }),
                meth_state("drop a clone", move |s: &mut (AsBlocks, Vec<AsBlocks>)| { s.1.pop(); s.1.len().to_string() }),
                meth_state("held clones unchanged?", move |s: &mut (AsBlocks, Vec<AsBlocks>)| s.1.iter().map(show).collect::<Vec<_>>().join("|")),
            ];
            seq_drive("AsBlocks", &fresh, &meths, maxlen_for(meths.len()), out);
            iter_seqs("AsBlocks::iter", &|| p.iter(), &|x| x.to_string(), cap, il, out);
            iter_seqs("AsBlocks::iter_asns", &|| p.iter_asns().take(40), &|x| x.to_string(), 40, il, out);
            if let Some(first) = p.iter().next() { iter_seqs("AsBlock::iter", &|| first.iter().take(40), &|x| x.to_string(), 40, il, out) }
        }
        Ep::IpText => {
            let Ok(text) = std::str::from_utf8(bytes) else { return false };
            let v4 = !text.contains(':');
            let fresh = || IpBlocks::from_str(text).ok().map(|b| (b, Vec::<IpBlocks>::new()));
            let Some((p, _)) = fresh() else { return false };
            let other = if v4 { env.issuers[1].0.v4_resources().clone() } else { env.issuers[1].0.v6_resources().clone() };
            let show = move |b: &IpBlocks| if v4 { b.as_v4().to_string() } else { b.as_v6().to_string() };
            let (o1, o2, o3) = (other.clone(), other.clone(), other.clone());
            let meths: Vec<Meth<(IpBlocks, Vec<IpBlocks>)>> = vec![
                meth_state("intersection_assign(other)", move |s: &mut (IpBlocks, Vec<IpBlocks>)| { s.0.intersection_assign(&o1); show(&s.0) }),
                meth_state("intersection_assign(self)", move |s: &mut (IpBlocks, Vec<IpBlocks>)| { let c = s.0.clone(); s.0.intersection_assign(&c); show(&s.0) }),
                meth_state("union(other)", move |s: &mut (IpBlocks, Vec<IpBlocks>)| { s.0 = s.0.union(&o2); show(&s.0) }),
                meth_state("difference(other)", move |s: &mut (IpBlocks, Vec<IpBlocks>)| { s.0 = s.0.difference(&o3); show(&s.0) }),
                meth_state("reparse", move |s: &mut (IpBlocks, Vec<IpBlocks>)| { if let Ok(b) = IpBlocks::from_str(&show(&s.0)) { s.0 = b } show(&s.0) }),
                meth_state("hold a clone", move |s: &mut (IpBlocks, Vec<IpBlocks>)| { s.1.push(s.0.clone()); s.1.len().to_string() }),
                meth_state("drop a clone", move |s: &mut (IpBlocks, Vec<IpBlocks>)| { s.1.pop(); s.1.len().to_string() }),
                meth_state("held clones unchanged?", move |s: &mut (IpBlocks, Vec<IpBlocks>)| s.1.iter().map(show).collect::<Vec<_>>().join("|")),
            ];
            seq_drive("IpBlocks", &fresh, &meths, maxlen_for(meths.len()), out);
            iter_seqs("IpBlocks::iter", &|| p.iter(), &|x| if v4 { x.display_v4().to_string() } else { x.display_v6().to_string() }, cap, il, out);
        }
        Ep::RtaS | Ep::RtaR => {
            let Some(p) = rta::Rta::decode(bytes, strict_mode).ok() else { return false };
            // the validation object: every sequence (with repetition) of up to three supply calls
            // from {supply_tal, supply_ca(each fixed issuer)}, finalize after every prefix
            let k = env.issuers.len() + 1;
            let maxlen = if thorough { 4 } else { 3 };
            for strict in [false, true] {
                let v0 = match guard(|| rta::Validation::new_at(&p, strict, t)) {
                    Err(pn) => { out.fails.push(("C04.seq.panic", "rta::Validation", "new_at".into(), pn)); continue }
                    Ok(Err(e)) => { *out.outcomes.entry(format!("rta::Validation: new_at -> err {}", obs_class(&e.to_string()))).or_insert(0) += 1; out.evals += 1; continue }
                    Ok(Ok(v)) => v,
                };
                *out.outcomes.entry("rta::Validation: new_at -> ok".into()).or_insert(0) += 1;
                for len in 0..=maxlen {
                    for code in 0..(k as u64).pow(len as u32) {
                        let mut seq = Vec::with_capacity(len);
                        let mut c = code;
                        for _ in 0..len { seq.push((c % k as u64) as usize); c /= k as u64 }
                        out.evals += 1;
                        if len > 0 { out.nontrivial += 1 }
                        let name = |a: usize| if a == 0 { "supply_tal".to_string() } else { format!("supply_ca(issuer{})", a - 1) };
                        let names = |upto: usize, last: &str| std::iter::once(format!("new_at({})", if strict { "strict" } else { "lenient" })).chain(seq[..upto].iter().map(|&a| name(a))).chain(std::iter::once(last.to_string())).collect::<Vec<_>>().join(">");
                        let mut v = v0.clone();
                        let mut broken = false;
                        for (i, &a) in seq.iter().enumerate() {
                            let r = guard(|| if a == 0 { env.tal.as_ref().map(|tal| v.supply_tal(tal).map_err(|e| e.to_string())) } else { Some(v.supply_ca(&env.issuers[a - 1].0).map_err(|e| e.to_string())) });
                            match r {
                                Err(pn) => { out.fails.push(("C04.seq.panic", "rta::Validation", names(i, &name(a)), pn)); broken = true; break }
                                Ok(Some(Err(_))) => break,      // an error ends the use of the object
                                Ok(_) => {}
                            }
                        }
                        if broken { continue }
                        match guard(|| v.finalize().map(|c| c.subject_keys().len())) {
                            Err(pn) => out.fails.push(("C04.seq.panic", "rta::Validation", names(len, "finalize"), pn)),
                            Ok(Ok(_)) => *out.outcomes.entry("rta::Validation: finalize -> ok".into()).or_insert(0) += 1,
                            Ok(Err(e)) => *out.outcomes.entry(format!("rta::Validation: finalize -> err {}", obs_class(&e.to_string()))).or_insert(0) += 1,
                        }
                    }
                }
            }
            let mut meths: Vec<Meth<rta::Rta>> = vec![
                meth("content", |r: &mut rta::Rta| format!("{} {} {} {}", r.content().subject_keys().len(), r.v4_resources().as_v4(), r.v6_resources().as_v6(), r.as_resources())),
                meth("clone", |r: &mut rta::Rta| { *r = r.clone(); "()".into() }),
                meth("Validation::new_at", move |r: &mut rta::Rta| ok_class(rta::Validation::new_at(r, false, t).map(|_| String::new()).map_err(|e| e.to_string()))),
                meth("RtaBuilder::from_rta.finalize", |r: &mut rta::Rta| { let x = rta::RtaBuilder::from_rta(r.clone()).finalize(); x.content().subject_keys().len().to_string() }),
            ];
            if strict_mode { meths.push(meth("to_captured", |r: &mut rta::Rta| fold_hash(std::iter::once(r.to_captured().into_bytes())))) }
            let fresh = || rta::Rta::decode(bytes, strict_mode).ok();
            seq_drive("Rta", &fresh, &meths, maxlen_for(meths.len()), out);
            iter_seqs("IpBlocks::iter", &|| p.v4_resources().iter(), &|x| x.display_v4().to_string(), cap, il, out);
            iter_seqs("AsBlocks::iter", &|| p.as_resources().iter(), &|x| x.to_string(), cap, il, out);
        }
        _ => return false,
    }
    true
}

//============ worker ===============================================================

#[derive(Clone, Debug)]
struct Task { id: u64, sp: SpaceId, seed: usize, ep: Ep, lo: u64, hi: u64 }

impl Task {
    fn line(&self) -> String { format!("T {} {} {} {} {} {}\n", self.id, self.sp.code(), self.seed, self.ep.idx(), self.lo, self.hi) }
    fn parse(l: &str) -> Option<Task> {
        let p: Vec<&str> = l.split_whitespace().collect();
        if p.len() != 7 || p[0] != "T" { return None }
        Some(Task { id: p[1].parse().ok()?, sp: SpaceId::parse(p[2])?, seed: p[3].parse().ok()?, ep: *ALL_EPS.get(p[4].parse::<usize>().ok()?)?,
                    lo: p[5].parse().ok()?, hi: p[6].parse().ok()? })
    }
    fn size(&self) -> u64 { self.hi - self.lo }
}

#[derive(Default)]
struct TaskResult {
    evals: u64,
    nontrivial: u64,
    outcomes: BTreeMap<String, u64>,
    /// (oracle, witness, detail, sort key)
    fails: Vec<(String, String, String)>,
    samples: Vec<String>,
    /// max source calls per input octet, in thousandths
    max_ratio: u64,
    marks: BTreeMap<String, u64>,
    /// failures of the fixtures (machinery, not verdicts)
    mach: Vec<String>,
    /// observations that are recorded but not judged
    notes: BTreeMap<String, u64>,
}

impl TaskResult {
    fn to_json(&self, id: u64) -> String {
        json!({"id": id, "ev": self.evals, "nt": self.nontrivial, "oc": self.outcomes, "f": self.fails, "s": self.samples, "r": self.max_ratio, "m": self.marks, "x": self.mach, "n": self.notes}).to_string()
    }
    fn from_json(v: &Value) -> Option<(u64, TaskResult)> {
        let mut r = TaskResult { evals: v["ev"].as_u64()?, nontrivial: v["nt"].as_u64()?, max_ratio: v["r"].as_u64()?, ..Default::default() };
        for (k, n) in v["oc"].as_object()? { r.outcomes.insert(k.clone(), n.as_u64()?); }
        for f in v["f"].as_array()? {
            r.fails.push((f[0].as_str()?.to_string(), f[1].as_str()?.to_string(), f[2].as_str()?.to_string()));
        }
        for s in v["s"].as_array()? { r.samples.push(s.as_str()?.to_string()) }
        for (k, n) in v["m"].as_object()? { r.marks.insert(k.clone(), n.as_u64()?); }
        for x in v["x"].as_array()? { r.mach.push(x.as_str()?.to_string()) }
        for (k, n) in v["n"].as_object()? { r.notes.insert(k.clone(), n.as_u64()?); }
        Some((v["id"].as_u64()?, r))
    }
    fn merge(&mut self, o: TaskResult) {
        self.evals += o.evals; self.nontrivial += o.nontrivial;
        for (k, n) in o.outcomes { *self.outcomes.entry(k).or_insert(0) += n }
        for (k, n) in o.marks { *self.marks.entry(k).or_insert(0) += n }
        self.fails.extend(o.fails);
        self.mach.extend(o.mach);
        for (k, n) in o.notes { *self.notes.entry(k).or_insert(0) += n }
        if self.samples.len() < 4 { self.samples.extend(o.samples) }
        self.max_ratio = self.max_ratio.max(o.max_ratio);
    }
}

struct PairLists { a: Vec<(u32, Op)>, b: Vec<(u32, Op)>, ha: Vec<u64>, hb: Vec<u64>, hseed: u64 }

struct Worker {
    env: Env,
    thorough: bool,
    b1: HashMap<usize, Arc<Vec<Case1>>>,
    b2p: HashMap<usize, Arc<PairLists>>,
    b2l: HashMap<usize, Arc<PairLists>>,
    rs: HashMap<usize, Arc<Vec<(u32, Op)>>>,
    mx_fx: MxFx,
    mx_cfgs: Option<Arc<Vec<(MxCfg, usize)>>>,
    tm_controls: HashMap<String, Vec<(TmOps, bool)>>,
    seg: HashMap<usize, Arc<Vec<SegCase>>>,
    log: HashMap<usize, Arc<Vec<Case1>>>,
    log_full: Option<Vec<bool>>,
    log_rs: HashMap<usize, Arc<Vec<(u32, Op)>>>,
}

fn witness(ep: Ep, f: &Fail, seed: &str, sp: SpaceId, idx: &str, desc: &str) -> String {
    let cause = if f.detail.contains("incompatible mode") { "captured-mode" } else if f.detail.starts_with("panic") { "panic" } else { "bound" };
    format!("mode={};cause={} ep={} seed={} sp={} i={} case={} acc={}", ep.mode(), cause, ep.name(), seed, sp.code(), idx, desc, f.acc.replace(' ', "_"))
}

impl Worker {
    fn record(&self, res: &mut TaskResult, ep: Ep, bytes: &[u8], out: CaseOut, seed: &str, sp: SpaceId, idx: &str, desc: &dyn Fn() -> String) {
        res.evals += 1;
        if !bytes.is_empty() { res.max_ratio = res.max_ratio.max(out.steps * 1000 / bytes.len() as u64) }
        let class = if out.decoded { if out.fails.is_empty() { "decoded".to_string() } else { "decoded, accessor failed".to_string() } }
                    else if out.fails.is_empty() { format!("rejected: {}", out.reject) } else { "decoder failed".to_string() };
        let class = if sp == SpaceId::Own { format!("{class} [{}/{}]", ep.name(), ep.mode()) } else { class };
        *res.outcomes.entry(class).or_insert(0) += 1;
        for m in &out.marks { *res.marks.entry(format!("{} [{}/{}]", m, ep.name(), ep.mode())).or_insert(0) += 1 }
        if !out.fails.is_empty() {
            let d = desc();
            for f in &out.fails {
                let mut detail = f.detail.clone();
                let seen = res.fails.iter().filter(|x| x.0 == f.oracle).take(3).count();
                if seen < 3 && bytes.len() <= 2048 { detail.push_str(" | input="); detail.push_str(&hex(bytes)); }
                res.fails.push((f.oracle.to_string(), witness(ep, f, seed, sp, idx, &d), detail));
            }
        }
    }

    fn b1_list(&mut self, seed: usize) -> Arc<Vec<Case1>> {
        let th = self.thorough;
        let env = &self.env;
        self.b1.entry(seed).or_insert_with(|| Arc::new(b1_cases(&env.seeds[seed], th))).clone()
    }

    fn pair_lists(&mut self, seed: usize, lenform: bool) -> Arc<PairLists> {
        let env = &self.env;
        let map = if lenform { &mut self.b2l } else { &mut self.b2p };
        map.entry(seed).or_insert_with(|| {
            let s = &env.seeds[seed];
            let t = s.tree.as_ref().expect("pair seeds have a tree");
            let (a, b) = if lenform { (singles_lenform(t), singles_full(t)) } else { let r = singles_reduced(t); (r.clone(), r) };
            let ha = a.iter().map(|&(i, op)| fnv64(&s.wrap(t.apply1(&s.der, i as usize, op)))).collect();
            let hb = b.iter().map(|&(i, op)| fnv64(&s.wrap(t.apply1(&s.der, i as usize, op)))).collect();
            Arc::new(PairLists { a, b, ha, hb, hseed: fnv64(&s.wrap(s.der.clone())) })
        }).clone()
    }

    fn log_list(&mut self, seed: usize) -> Arc<Vec<Case1>> {
        let th = self.thorough;
        let env = &self.env;
        let full = self.log_full.get_or_insert_with(|| log_full_seeds(env, th))[seed];
        self.log.entry(seed).or_insert_with(|| Arc::new(log_cases(&env.seeds[seed], full))).clone()
    }

    /// Runs a task with the process-wide log level its space asks for: `Off` (what a process that never touched
    /// logging has) everywhere but in the logging spaces, which run at `Trace`.
    fn run_task(&mut self, t: &Task) -> TaskResult {
        let logging = matches!(t.sp, SpaceId::Log | SpaceId::LogRs);
        log::set_max_level(if logging { log::LevelFilter::Trace } else { log::LevelFilter::Off });
        let before = log_records();
        let mut res = self.run_task_at_level(t);
        log::set_max_level(log::LevelFilter::Off);
        if logging { *res.notes.entry("log records formatted".into()).or_insert(0) += log_records() - before }
        res
    }

    fn run_task_at_level(&mut self, t: &Task) -> TaskResult {
        let mut res = TaskResult::default();
        match t.sp {
            SpaceId::B0 | SpaceId::Own | SpaceId::Scale => {
                let s = &self.env.seeds[t.seed];
                let out = run_case(&self.env, t.ep, &s.bytes, true);
                if out.decoded { res.nontrivial += 1 }
                res.samples.push(format!("{} ({} octets, {} TLV nodes) -> {}: {}", s.name, s.bytes.len(), s.tree.as_ref().map(|t| t.len()).unwrap_or(0),
                    t.ep.name(), if out.decoded { "decoded".to_string() } else { format!("rejected: {}", out.reject) }));
                self.record(&mut res, t.ep, &s.bytes, out, &s.name, t.sp, "0", &|| "seed".to_string());
            }
            SpaceId::B1 | SpaceId::Log => {
                let list = if t.sp == SpaceId::Log { self.log_list(t.seed) } else { self.b1_list(t.seed) };
                let s = &self.env.seeds[t.seed];
                for idx in t.lo..t.hi.min(list.len() as u64) {
                    let c = list[idx as usize];
                    let bytes = case1_bytes(s, c);
                    let out = run_case(&self.env, t.ep, &bytes, true);
                    if idx == t.lo && t.lo == 0 { res.samples.push(format!("({}, {}, {})", s.name, case1_desc(s, c), t.ep.name())) }
                    self.record(&mut res, t.ep, &bytes, out, &s.name, t.sp, &idx.to_string(), &|| case1_desc(s, c));
                }
            }
            SpaceId::B2P | SpaceId::B2L => {
                // linear index = ai * |b| + bi; the triangular space skips bi <= ai
                let lenform = t.sp == SpaceId::B2L;
                let pl = self.pair_lists(t.seed, lenform);
                let s = &self.env.seeds[t.seed];
                let tree = s.tree.as_ref().unwrap();
                let m = pl.b.len() as u64;
                for idx in t.lo..t.hi.min(pl.a.len() as u64 * m) {
                    let (ai, bi) = ((idx / m) as usize, (idx % m) as usize);
                    if !lenform && bi <= ai { continue }
                    let (na, oa) = pl.a[ai];
                    let (nb, ob) = pl.b[bi];
                    if na == nb { continue }
                    let bytes = s.wrap(tree.apply(&s.der, &[(na as usize, oa), (nb as usize, ob)]));
                    let h = fnv64(&bytes);
                    if h != pl.hseed && h != pl.ha[ai] && h != pl.hb[bi] { res.nontrivial += 1 }
                    let out = run_case(&self.env, t.ep, &bytes, true);
                    if res.samples.is_empty() && t.lo == 0 && out.decoded { res.samples.push(format!("({}, {} + {}, {})", s.name, node_desc(tree, na, oa), node_desc(tree, nb, ob), t.ep.name())) }
                    self.record(&mut res, t.ep, &bytes, out, &s.name, t.sp, &idx.to_string(), &|| format!("{}+{}", node_desc(tree, na, oa), node_desc(tree, nb, ob)));
                }
            }
            SpaceId::Str => {
                let mut buf = Vec::new();
                for idx in t.lo..t.hi {
                    mutate::short_string(idx, &mut buf);
                    let out = run_case(&self.env, t.ep, &buf, true);
                    res.nontrivial += 1;
                    if idx == 300 { res.samples.push(format!("(bytes={}, {})", hex(&buf), t.ep.name())) }
                    let b = buf.clone();
                    self.record(&mut res, t.ep, &buf, out, "-", t.sp, &idx.to_string(), &|| format!("bytes={}", hex(&b)));
                }
            }
            SpaceId::Seg => {
                let env = &self.env;
                let list = self.seg.entry(t.seed).or_insert_with(|| Arc::new(seg_cases(&env.seeds[t.seed]))).clone();
                let s = &self.env.seeds[t.seed];
                for idx in t.lo..t.hi.min(list.len() as u64) {
                    let c = list[idx as usize];
                    let bytes = seg_bytes(s, c);
                    let out = run_case(&self.env, t.ep, &bytes, true);
                    if out.decoded && res.samples.is_empty() { res.samples.push(format!("({}, {}, {}) decodes", s.name, seg_desc(s, c), t.ep.name())) }
                    self.record(&mut res, t.ep, &bytes, out, &s.name, t.sp, &idx.to_string(), &|| seg_desc(s, c));
                }
            }
            SpaceId::Rs | SpaceId::LogRs => {
                let env = &self.env;
                let th = self.thorough;
                let list = if t.sp == SpaceId::LogRs { self.log_rs.entry(t.seed).or_insert_with(|| Arc::new(if th { singles_full(&env.rs[t.seed].tree) } else { singles_reduced(&env.rs[t.seed].tree) })).clone() }
                    else { self.rs.entry(t.seed).or_insert_with(|| Arc::new(singles_full(&env.rs[t.seed].tree))).clone() };
                let rs = &self.env.rs[t.seed];
                for idx in t.lo..t.hi.min(list.len() as u64) {
                    let (n, op) = list[idx as usize];
                    let inner = rs.tree.apply1(&rs.inner, n as usize, op);
                    let unsigned = rs.assemble(&self.env, &inner, false);
                    let any = rs.eps().iter().any(|&ep| run_case(&self.env, ep, &unsigned, false).decoded);
                    if !any {
                        res.evals += rs.eps().len() as u64;
                        *res.outcomes.entry("rejected before signing".to_string()).or_insert(0) += rs.eps().len() as u64;
                        continue;
                    }
                    res.nontrivial += 1;
                    let signed = rs.assemble(&self.env, &inner, true);
                    for &ep in rs.eps() {
                        let out = run_case(&self.env, ep, &signed, true);
                        if res.samples.is_empty() { res.samples.push(format!("({}, {}, {}) re-signed", rs.name, node_desc(&rs.tree, n, op), ep.name())) }
                        self.record(&mut res, ep, &signed, out, &rs.name, t.sp, &idx.to_string(), &|| node_desc(&rs.tree, n, op));
                    }
                }
            }
            SpaceId::Time => {
                let cases = tm_cases(self.thorough);
                for idx in t.lo..t.hi.min(cases.len() as u64) {
                    let case = cases[idx as usize];
                    let (fails, decoded, evals) = tm_judge(&self.env, case, self.thorough, &mut self.tm_controls);
                    res.evals += evals;
                    if decoded { res.nontrivial += 1 }
                    let observed = fails.iter().any(|f| f.0 == "C04.time.observed");
                    let class = if fails.iter().any(|f| f.0 != "C04.time.fixture" && f.0 != "C04.time.observed") { "the decoder grows faster than its input or is far slower than on the ordinary object, an accessor runs away, or an operation panics" }
                        else if !case.judged() { if observed { "not one of the property's decoding entry points: measured only; some operation seen to grow well above linear" } else { "not one of the property's decoding entry points: measured only; every operation near-linear" } }
                        else if !decoded { "rejected by the decoder; the rejection itself near-linear" }
                        else if observed { "decode near-linear and close to the ordinary object; an operation on the decoded value seen to grow well above linear (recorded, not judged)" }
                        else { "decode near-linear and close to the ordinary object; so is every operation on the decoded value" };
                    *res.outcomes.entry(class.to_string()).or_insert(0) += 1;
                    if idx % 16 == 0 { res.samples.push(format!("{} at n = {:?} against {}", case.desc(), case.sizes(self.thorough), case.control().desc())) }
                    for (oracle, acc, detail) in fails {
                        if oracle == "C04.time.fixture" { res.mach.push(format!("time space, {}: {detail}", case.desc())); continue }
                        if oracle == "C04.time.observed" { *res.notes.entry(format!("{} | {acc} | {detail}", case.desc())).or_insert(0) += 1; continue }
                        let cause = if oracle == "C04.time.panic" { "panic" } else { "bound" };
                        res.fails.push((oracle.to_string(), format!("mode={};cause={cause} ep={} seed=- sp=time i={idx} case={} acc={}", case.ep().mode(), case.ep().name(), case.desc(), acc.replace(' ', "_")), detail));
                    }
                }
            }
            SpaceId::RtaMx => {
                let th = self.thorough;
                let cfgs = self.mx_cfgs.get_or_insert_with(|| Arc::new(mx_cfgs(th))).clone();
                for idx in t.lo..t.hi.min(cfgs.len() as u64) {
                    let (cfg, depth) = &cfgs[idx as usize];
                    mx_run(&self.env, &mut self.mx_fx, idx, cfg, *depth, &mut res);
                    if idx % 4096 == 0 { res.samples.push(format!("({}) x new_at lenient/strict x every order of up to {depth} supply calls, finalize after each", cfg.desc())) }
                }
            }
            SpaceId::Seq => {
                let s = &self.env.seeds[t.seed];
                let mut out = SeqOut::default();
                let decoded = match guard(|| seq_run(&self.env, t.ep, &s.bytes, self.thorough, &mut out)) {
                    Ok(d) => d,
                    Err(p) => { out.fails.push(("C04.seq.panic", "setup", "decode and first accessors".into(), p)); true }
                };
                res.evals += out.evals.max(1);
                res.nontrivial += out.nontrivial;
                for (k, n) in out.outcomes { *res.outcomes.entry(k).or_insert(0) += n }
                *res.outcomes.entry(if decoded { "object decodes: sequences run" } else { "object does not decode here: nothing to call" }.to_string()).or_insert(0) += 1;
                if decoded && t.seed % 8 == 0 { res.samples.push(format!("{} via {}/{}: {} call sequences, e.g. {}", s.name, t.ep.name(), t.ep.mode(), out.evals, out.sample.clone().unwrap_or_default())) }
                for (oracle, ty, calls, detail) in out.fails {
                    let cause = if oracle == "C04.seq.panic" { if detail.contains("incompatible mode") { "captured-mode" } else { "panic" } } else { "bound" };
                    res.fails.push((oracle.to_string(), format!("mode={};cause={cause} ep={} seed={} sp=seq i=0 case={} acc={}", t.ep.mode(), t.ep.name(), s.name, calls.replace(' ', "_"), ty.replace(' ', "_")), detail));
                }
            }
            SpaceId::SelfTest => {
                for idx in t.lo..t.hi {
                    res.evals += 1;
                    if idx != SELFTEST_CULPRIT { continue }
                    match t.seed {
                        0 => std::process::abort(),
                        1 => {
                            // exhaust the address space: the allocator fails, Rust aborts
                            let mut hold: Vec<Vec<u8>> = Vec::new();
                            loop { hold.push(Vec::with_capacity(256 << 20)); std::hint::black_box(&hold); }
                        }
                        2 => loop { std::thread::sleep(Duration::from_secs(3600)) },
                        _ => {
                            fn rec(n: u64) -> u64 { let a = [n; 64]; if n == 0 { 0 } else { rec(n - 1) + std::hint::black_box(a)[7] } }
                            std::hint::black_box(rec(u64::MAX));
                        }
                    }
                }
            }
        }
        res
    }
}

const SELFTEST_CULPRIT: u64 = 37;

fn worker_main(thorough: bool) -> ! {
    install_quiet_panic_hook();
    unsafe {
        let lim = libc::rlimit { rlim_cur: WORKER_AS_LIMIT, rlim_max: WORKER_AS_LIMIT };
        if libc::setrlimit(libc::RLIMIT_AS, &lim) != 0 {
            println!("{}", json!({"fatal": "setrlimit(RLIMIT_AS) failed"}));
            std::process::exit(3);
        }
    }
    let env = match guard(|| build_env(thorough)) {
        Ok(e) => e,
        Err(p) => { println!("{}", json!({"fatal": format!("worker could not build its environment: {p}")})); std::process::exit(3) }
    };
    let mut w = Worker { env, thorough, b1: HashMap::new(), b2p: HashMap::new(), b2l: HashMap::new(), rs: HashMap::new(), mx_fx: MxFx::default(), mx_cfgs: None, tm_controls: HashMap::new(),
        seg: HashMap::new(), log: HashMap::new(), log_full: None, log_rs: HashMap::new() };
    // the logger of the logging spaces; it must be seen to receive a record once the level is raised, and none while it is off
    {
        let installed = log::set_logger(&SINK_LOGGER).is_ok();
        log::set_max_level(log::LevelFilter::Off);
        log::debug!("c04 worker: logging is off, this must not be formatted");
        let off = log_records();
        log::set_max_level(log::LevelFilter::Trace);
        log::trace!("c04 worker: logging is on, this must be formatted");
        let on = log_records();
        log::set_max_level(log::LevelFilter::Off);
        if !installed || off != 0 || on != 1 {
            println!("{}", json!({"fatal": format!("the worker's logger does not follow the log level (installed={installed}, records while off={off}, after one trace record={on})")}));
            std::process::exit(3);
        }
    }
    println!("{}", json!({"ready": true, "seeds": w.env.seeds.len()}));
    let stdin = std::io::stdin();
    let mut line = String::new();
    loop {
        line.clear();
        match stdin.lock().read_line(&mut line) {
            Ok(0) | Err(_) => {
                if std::env::var("C04_PROFILE").is_ok() {
                    let p = PROF.lock().unwrap();
                    let mut v: Vec<_> = p.iter().collect();
                    v.sort_by_key(|(_, (ns, _))| std::cmp::Reverse(*ns));
                    let mut out = String::new();
                    for (l, (ns, n)) in v { out.push_str(&format!("{:.1}\t{}\t{}\n", *ns as f64 / 1e6, n, l)) }
                    eprint!("{out}");
                    let _ = std::fs::write(std::env::temp_dir().join(format!("c04-prof-{}.tsv", std::process::id())), out);
                }
                std::process::exit(0)
            }
            Ok(_) => {}
        }
        let Some(t) = Task::parse(&line) else {
            println!("{}", json!({"fatal": format!("bad task line {line:?}")}));
            std::process::exit(3);
        };
        let r = w.run_task(&t);
        let mut out = std::io::stdout().lock();
        let _ = writeln!(out, "{}", r.to_json(t.id));
        let _ = out.flush();
    }
}

//============ parent: worker pool, bisection =========================================

/// Process ids of all workers started (their temp directories are removed at the end).
static SPAWNED: Mutex<Vec<u32>> = Mutex::new(Vec::new());

fn remove_worker_temp_dirs() {
    for pid in SPAWNED.lock().unwrap().drain(..) { let _ = std::fs::remove_dir_all(std::env::temp_dir().join(format!("c04-tal-{pid}"))); }
}

struct WorkerProc { child: Child, stdin: ChildStdin, rx: Receiver<String>, stderr_tail: Arc<Mutex<Vec<u8>>> }

enum RunOutcome { Done(TaskResult), Died(String), Hung, Infra(String) }

fn spawn_worker(thorough: bool) -> Result<WorkerProc, String> {
    let exe = std::env::current_exe().map_err(|e| format!("current_exe: {e}"))?;
    let mut child = Command::new(exe).arg(WORKER_ARG).arg(if thorough { "thorough" } else { "quick" })
        .stdin(Stdio::piped()).stdout(Stdio::piped()).stderr(Stdio::piped())
        .spawn().map_err(|e| format!("cannot spawn worker: {e}"))?;
    SPAWNED.lock().unwrap().push(child.id());
    let stdin = child.stdin.take().unwrap();
    let stdout = child.stdout.take().unwrap();
    let mut stderr = child.stderr.take().unwrap();
    let (tx, rx) = mpsc::channel::<String>();
    std::thread::spawn(move || {
        let rd = BufReader::with_capacity(1 << 20, stdout);
        for line in rd.lines() { match line { Ok(l) => { if tx.send(l).is_err() { break } } Err(_) => break } }
    });
    let tail = Arc::new(Mutex::new(Vec::new()));
    let tail2 = tail.clone();
    std::thread::spawn(move || {
        let mut buf = [0u8; 4096];
        while let Ok(n) = stderr.read(&mut buf) {
            if n == 0 { break }
            let mut t = tail2.lock().unwrap();
            t.extend_from_slice(&buf[..n]);
            let l = t.len();
            if l > 2048 { t.drain(..l - 2048); }
        }
    });
    let mut w = WorkerProc { child, stdin, rx, stderr_tail: tail };
    match w.rx.recv_timeout(Duration::from_secs(120)) {
        Ok(l) => {
            let v: Value = serde_json::from_str(&l).map_err(|e| format!("worker greeting unreadable: {e}: {l}"))?;
            if v["ready"] == true { Ok(w) } else { let _ = w.child.kill(); let _ = w.child.wait(); Err(format!("worker failed to start: {l}")) }
        }
        Err(_) => { let _ = w.child.kill(); let st = w.child.wait(); Err(format!("worker did not become ready ({st:?}): {}", w.tail())) }
    }
}

impl WorkerProc {
    fn tail(&self) -> String {
        std::thread::sleep(Duration::from_millis(20));
        let t = self.stderr_tail.lock().unwrap();
        String::from_utf8_lossy(&t).trim().replace('\n', " / ")
    }
}

fn describe_exit(st: std::process::ExitStatus) -> String {
    use std::os::unix::process::ExitStatusExt;
    match (st.signal(), st.code()) {
        (Some(6), _) => "worker aborted (SIGABRT)".into(),
        (Some(11), _) => "worker crashed (SIGSEGV: stack overflow or invalid memory access)".into(),
        (Some(9), _) => "worker was killed (SIGKILL)".into(),
        (Some(s), _) => format!("worker terminated by signal {s}"),
        (None, Some(c)) => format!("worker exited with status {c}"),
        _ => "worker ended".into(),
    }
}

/// Runs one task on the thread's worker (spawning it if needed).
fn run_on(slot: &mut Option<WorkerProc>, t: &Task, timeout: Duration, thorough: bool) -> RunOutcome {
    if let Some(w) = slot.as_mut() {
        if let Ok(Some(_)) = w.child.try_wait() { *slot = None }
    }
    if slot.is_none() {
        match spawn_worker(thorough) { Ok(w) => *slot = Some(w), Err(e) => return RunOutcome::Infra(e) }
    }
    let w = slot.as_mut().unwrap();
    if let Err(e) = w.stdin.write_all(t.line().as_bytes()).and_then(|_| w.stdin.flush()) {
        let st = w.child.wait();
        *slot = None;
        return RunOutcome::Infra(format!("cannot send task to worker: {e} ({st:?})"));
    }
    match w.rx.recv_timeout(timeout) {
        Ok(l) => {
            let v: Value = match serde_json::from_str(&l) { Ok(v) => v, Err(e) => {
                let _ = w.child.kill(); let _ = w.child.wait(); *slot = None;
                return RunOutcome::Infra(format!("unreadable worker reply: {e}"));
            } };
            if let Some(f) = v.get("fatal") { let _ = w.child.kill(); let _ = w.child.wait(); *slot = None; return RunOutcome::Infra(format!("worker: {f}")) }
            match TaskResult::from_json(&v) {
                Some((id, r)) if id == t.id => RunOutcome::Done(r),
                _ => { let _ = w.child.kill(); let _ = w.child.wait(); *slot = None; RunOutcome::Infra(format!("worker reply does not match task {}: {}", t.id, trunc(&l, 200))) }
            }
        }
        Err(RecvTimeoutError::Timeout) => { let _ = w.child.kill(); let _ = w.child.wait(); *slot = None; RunOutcome::Hung }
        Err(RecvTimeoutError::Disconnected) => {
            let st = w.child.wait();
            let how = match st { Ok(s) => describe_exit(s), Err(e) => format!("wait failed: {e}") };
            let tail = w.tail();
            *slot = None;
            RunOutcome::Died(if tail.is_empty() { how } else { format!("{how}; stderr: {}", trunc(&tail, 300)) })
        }
    }
}

struct Death { task: Task, hung: bool, how: String }

struct PoolState {
    queue: Mutex<VecDeque<Task>>,
    results: Mutex<Vec<(Task, TaskResult)>>,
    deaths: Mutex<Vec<Death>>,
    infra: Mutex<Vec<String>>,
    thorough: bool,
    /// per space: (summed task seconds, longest task, time of last completion)
    times: Mutex<BTreeMap<SpaceId, (f64, f64, f64)>>,
    t0: Instant,
    /// isolated dead inputs per (space, seed, entry point); at DEATH_CAP the
    /// rest of that combination is no longer run (and the space is reported
    /// as not exhaustive)
    dead_count: Mutex<HashMap<(SpaceId, usize, usize), u32>>,
    skipped: Mutex<BTreeMap<SpaceId, u64>>,
    coarse: Mutex<Vec<Death>>,
    /// per space: (seconds, indexes, tasks) of completed tasks, for the wall budgets
    stats: Mutex<HashMap<SpaceId, (f64, u64, u64)>>,
}

const DEATH_CAP: u32 = 3;

impl PoolState {
    /// Wall budget of a batch: a fixed ceiling, lowered to a generous
    /// multiple of what batches of this space have been taking once that is
    /// known (so that isolating a hang does not take minutes per step).
    fn timeout(&self, t: &Task, bisecting: bool) -> Duration {
        if t.sp == SpaceId::SelfTest { return Duration::from_millis(1500) }
        if t.sp == SpaceId::Own { return Duration::from_secs(10) }
        // a case of the time space bounds its own CPU time (a few seconds); the wall budget only has to catch a true stall
        if t.sp == SpaceId::Time { return Duration::from_secs(if bisecting { 120 } else { 150 }) }
        let ceiling = if bisecting { 30.0 } else if self.thorough { 180.0 } else { 90.0 };
        let est = self.stats.lock().unwrap().get(&t.sp).and_then(|&(secs, idx, n)| if n >= 4 && idx > 0 { Some(secs / idx as f64 * t.size() as f64) } else { None });
        let secs = match est {
            Some(e) => if bisecting { (e * 30.0).clamp(4.0, ceiling) } else { (e * 60.0).clamp(20.0, ceiling) },
            None => ceiling,
        };
        Duration::from_secs_f64(secs)
    }
    /// The single input that is about to be blamed gets a fixed generous budget.
    fn timeout_single(&self, t: &Task) -> Duration {
        if t.sp == SpaceId::SelfTest { Duration::from_millis(1500) } else if t.sp == SpaceId::Own { Duration::from_secs(10) } else if t.sp == SpaceId::Time { Duration::from_secs(150) } else { Duration::from_secs(30) }
    }

    fn key(t: &Task) -> (SpaceId, usize, usize) { (t.sp, t.seed, t.ep.idx()) }
    fn count_death(&self, t: &Task) { *self.dead_count.lock().unwrap().entry(Self::key(t)).or_insert(0) += 1; }
    fn poisoned(&self, t: &Task) -> bool {
        t.sp != SpaceId::SelfTest && self.dead_count.lock().unwrap().get(&Self::key(t)).copied().unwrap_or(0) >= DEATH_CAP
    }

    /// `cur` died or hung as a whole: narrow it down to one index.
    fn bisect(&self, slot: &mut Option<WorkerProc>, mut cur: Task, mut hung: bool, mut how: String) {
        while cur.size() > 1 {
            let mid = cur.lo + cur.size() / 2;
            let first = Task { hi: mid, ..cur.clone() };
            let second = Task { lo: mid, ..cur.clone() };
            match run_on(slot, &first, self.timeout(&first, true), self.thorough) {
                RunOutcome::Done(r) => {
                    self.results.lock().unwrap().push((first, r));
                    match run_on(slot, &second, self.timeout(&second, true), self.thorough) {
                        RunOutcome::Done(r2) => {
                            self.results.lock().unwrap().push((second, r2));
                            self.infra.lock().unwrap().push(format!("batch {} [{}..{}) of {} seed {} ended a worker ({how}) but neither half reproduces it",
                                cur.id, cur.lo, cur.hi, cur.sp.code(), cur.seed));
                            return;
                        }
                        RunOutcome::Died(h) => { hung = false; how = h; cur = second }
                        RunOutcome::Hung => { hung = true; how = "no reply within the wall budget".into(); cur = second }
                        RunOutcome::Infra(e) => { self.infra.lock().unwrap().push(e); return }
                    }
                }
                RunOutcome::Died(h) => { self.queue.lock().unwrap().push_front(second); hung = false; how = h; cur = first }
                RunOutcome::Hung => { self.queue.lock().unwrap().push_front(second); hung = true; how = "no reply within the wall budget".into(); cur = first }
                RunOutcome::Infra(e) => { self.infra.lock().unwrap().push(e); return }
            }
        }
        // confirm the single input on a fresh worker
        match run_on(slot, &cur, self.timeout_single(&cur), self.thorough) {
            RunOutcome::Done(r) => {
                self.results.lock().unwrap().push((cur.clone(), r));
                self.infra.lock().unwrap().push(format!("input {} of {} seed {} ended a worker ({how}) but not when run alone", cur.lo, cur.sp.code(), cur.seed));
            }
            RunOutcome::Died(h) => { self.count_death(&cur); self.deaths.lock().unwrap().push(Death { task: cur, hung: false, how: h }) }
            RunOutcome::Hung => { let _ = hung; self.count_death(&cur); self.deaths.lock().unwrap().push(Death { task: cur, hung: true, how: "no reply within the wall budget".into() }) }
            RunOutcome::Infra(e) => self.infra.lock().unwrap().push(e),
        }
    }

    fn drive(&self, nworkers: usize) {
        let trace = std::env::var("C04_TRACE").is_ok();
        std::thread::scope(|sc| {
            for _ in 0..nworkers {
                sc.spawn(|| {
                    let mut slot: Option<WorkerProc> = None;
                    loop {
                        let t = { self.queue.lock().unwrap().pop_front() };
                        let Some(t) = t else { break };
                        if self.poisoned(&t) { *self.skipped.lock().unwrap().entry(t.sp).or_insert(0) += t.size(); continue }
                        let t_task = Instant::now();
                        let outcome = run_on(&mut slot, &t, self.timeout(&t, false), self.thorough);
                        if trace {
                            let el = t_task.elapsed().as_secs_f64();
                            let mut tm = self.times.lock().unwrap();
                            let e = tm.entry(t.sp).or_insert((0.0, 0.0, 0.0));
                            e.0 += el; if el > e.1 { e.1 = el } e.2 = self.t0.elapsed().as_secs_f64();
                            if el > 3.0 { eprintln!("c04 trace: slow task {:?} {:.1}s", t, el) }
                        }
                        match outcome {
                            RunOutcome::Done(r) => {
                                let mut stt = self.stats.lock().unwrap();
                                let e = stt.entry(t.sp).or_insert((0.0, 0, 0));
                                e.0 += t_task.elapsed().as_secs_f64(); e.1 += t.size(); e.2 += 1;
                                drop(stt);
                                self.results.lock().unwrap().push((t, r))
                            }
                            RunOutcome::Died(how) => {
                                if self.poisoned(&t) { self.coarse.lock().unwrap().push(Death { task: t, hung: false, how }) } else { self.bisect(&mut slot, t, false, how) }
                            }
                            RunOutcome::Hung => {
                                let how = "no reply within the wall budget".to_string();
                                if self.poisoned(&t) { self.coarse.lock().unwrap().push(Death { task: t, hung: true, how }) } else { self.bisect(&mut slot, t, true, how) }
                            }
                            RunOutcome::Infra(e) => {
                                let mut inf = self.infra.lock().unwrap();
                                inf.push(e);
                                if inf.len() > 8 { self.queue.lock().unwrap().clear(); break }
                            }
                        }
                    }
                    // let the worker leave by itself (end of input) so that it can flush
                    // whatever an instrumented build wants to write; kill only if it lingers
                    if let Some(mut w) = slot.take() {
                        drop(w.stdin);
                        let until = Instant::now() + Duration::from_secs(5);
                        loop {
                            match w.child.try_wait() {
                                Ok(Some(_)) => break,
                                Ok(None) if Instant::now() < until => std::thread::sleep(Duration::from_millis(5)),
                                _ => { let _ = w.child.kill(); let _ = w.child.wait(); break }
                            }
                        }
                    }
                });
            }
        });
    }
}

//============ parent: planning ========================================================

/// Description of one case by its index (parent side: witnesses for dead workers, replay).
fn describe_case(env: &Env, thorough: bool, t: &Task) -> (String, String, Vec<u8>) {
    let idx = t.lo;
    match t.sp {
        SpaceId::B0 | SpaceId::Own | SpaceId::Scale => { let s = &env.seeds[t.seed]; (s.name.clone(), "seed".into(), s.bytes.clone()) }
        SpaceId::B1 | SpaceId::Log => {
            let s = &env.seeds[t.seed];
            let list = if t.sp == SpaceId::Log { log_cases(s, log_full_seeds(env, thorough)[t.seed]) } else { b1_cases(s, thorough) };
            match list.get(idx as usize) { Some(&c) => (s.name.clone(), case1_desc(s, c), case1_bytes(s, c)), None => (s.name.clone(), "out of range".into(), vec![]) }
        }
        SpaceId::B2P | SpaceId::B2L => {
            let s = &env.seeds[t.seed];
            let tree = s.tree.as_ref().unwrap();
            let (a, b) = if t.sp == SpaceId::B2L { (singles_lenform(tree), singles_full(tree)) } else { let r = singles_reduced(tree); (r.clone(), r) };
            let m = b.len() as u64;
            let (ai, bi) = ((idx / m) as usize, (idx % m) as usize);
            match (a.get(ai), b.get(bi)) {
                (Some(&(na, oa)), Some(&(nb, ob))) if na != nb =>
                    (s.name.clone(), format!("{}+{}", node_desc(tree, na, oa), node_desc(tree, nb, ob)), s.wrap(tree.apply(&s.der, &[(na as usize, oa), (nb as usize, ob)]))),
                _ => (s.name.clone(), "skipped index".into(), vec![]),
            }
        }
        SpaceId::Str => { let mut b = Vec::new(); mutate::short_string(idx, &mut b); ("-".into(), format!("bytes={}", hex(&b)), b) }
        SpaceId::Seg => {
            let s = &env.seeds[t.seed];
            match seg_cases(s).get(idx as usize) { Some(&c) => (s.name.clone(), seg_desc(s, c), seg_bytes(s, c)), None => (s.name.clone(), "out of range".into(), vec![]) }
        }
        SpaceId::Rs | SpaceId::LogRs => {
            let rs = &env.rs[t.seed];
            let list = if t.sp == SpaceId::LogRs && !thorough { singles_reduced(&rs.tree) } else { singles_full(&rs.tree) };
            match list.get(idx as usize) {
                Some(&(n, op)) => (rs.name.clone(), node_desc(&rs.tree, n, op), rs.assemble(env, &rs.tree.apply1(&rs.inner, n as usize, op), true)),
                None => (rs.name.clone(), "out of range".into(), vec![]),
            }
        }
        SpaceId::SelfTest => ("selftest".into(), format!("kind={}", t.seed), vec![]),
        SpaceId::Time => ("-".into(), tm_cases(thorough).get(idx as usize).map(|c| c.desc()).unwrap_or_else(|| "out of range".into()), vec![]),
        SpaceId::RtaMx => ("-".into(), mx_cfgs(thorough).get(idx as usize).map(|(c, _)| c.desc()).unwrap_or_else(|| "out of range".into()), vec![]),
        SpaceId::Seq => { let s = &env.seeds[t.seed]; (s.name.clone(), "call sequences".into(), s.bytes.clone()) }
    }
}

struct Plan { tasks: Vec<Task>, next_id: u64 }

impl Plan {
    fn add_range(&mut self, sp: SpaceId, seed: usize, ep: Ep, total: u64, chunk: u64) {
        let chunk = chunk.max(1);
        let mut lo = 0;
        while lo < total {
            let hi = (lo + chunk).min(total);
            self.tasks.push(Task { id: self.next_id, sp, seed, ep, lo, hi });
            self.next_id += 1;
            lo = hi;
        }
    }
}

fn token<'a>(w: &'a str, key: &str) -> Option<&'a str> {
    w.split([' ', ';']).find_map(|t| t.strip_prefix(key))
}

fn main() {
    let args: Vec<String> = std::env::args().collect();
    if args.iter().any(|a| a == WORKER_ARG) { worker_main(args.iter().any(|a| a == "thorough")) }

    let ctx = Ctx::new("C04", "fault_enumeration");
    let thorough = ctx.tier.is_thorough();
    ctx.assume("aws-lc (RSA/ECDSA, SHA) and the operating system's process isolation are trusted");
    ctx.assume("'time or memory beyond a fixed multiple of the input' is decided as counted quantities: Source calls <= 64n+1024 per decode, iterators <= n items, worker address space <= 2 GiB, a wall budget per batch of cases");
    ctx.assume("inputs further than two structural deviations from every seed and longer than 3 octets are not explored");
    ctx.assume("the time clause binds the decoding entry points; accessors, iterators and validation of a decoded value are held to panic-freedom and to returning (their growth with the input is measured and recorded, not judged); an accessor, iterator, lookup or re-encoding the property names is taken not to return when it needs more than 20x the CPU time of the same call on an ordinary object of the same size and count and more than a second longer");
    let t_start = Instant::now();
    // the fixtures are built with the library under test: guard against panics and stalls
    let env = {
        let (tx, rx) = mpsc::channel();
        std::thread::spawn(move || { let _ = tx.send(guard(|| build_env(thorough))); });
        match rx.recv_timeout(Duration::from_secs(180)) {
            Ok(Ok(e)) => e,
            Ok(Err(p)) => { ctx.machinery_error(format!("cannot build the fixtures: {p}")); ctx.finish() }
            Err(_) => { ctx.machinery_error("building the fixtures did not finish within 180 s"); ctx.finish() }
        }
    };
    // sanity of the deviation engine: no operator = the seed itself; the tree covers the whole object
    for s in env.seeds.iter() {
        if let Some(t) = &s.tree {
            if t.apply(&s.der, &[]) != s.der || t.nodes[0].end() != s.der.len() {
                ctx.machinery_error(format!("TLV tree of seed {} does not reproduce the seed", s.name));
            }
            let i = t.len() - 1;
            if t.apply1(&s.der, i, Op::Duplicate).len() <= s.der.len() || t.apply1(&s.der, i, Op::Delete).len() >= s.der.len() {
                ctx.machinery_error(format!("ancestor length fix-up failed on seed {}", s.name));
            }
            // size classes are hit exactly, by every way of growing (checked on small definite-length seeds)
            if s.der.len() < 1500 && !t.nodes[0].indef && t.nodes[0].tag & 0x20 != 0 {
                for how in 0..3u8 { for (k, &target) in mutate::SIZE_CLASSES.iter().enumerate() {
                    if t.nodes[0].len >= target { continue }
                    match Tree::parse(&t.apply1(&s.der, 0, Op::Size(how, k as u8))) {
                        Some(t2) if t2.nodes[0].len == target => {}
                        Some(t2) if how == 1 && t2.nodes[0].len + 1 == target => {}   // repetition may leave one octet that no TLV can fill
                        other => ctx.machinery_error(format!("size class {target} (how={how}) on seed {} gives content length {:?}", s.name, other.map(|t| t.nodes[0].len))),
                    }
                } }
            }
            // a duplicated leaf must leave a well-formed object with more nodes
            match Tree::parse(&t.apply1(&s.der, i, Op::Duplicate)) {
                _ if t.len() == 1 => {}
                Some(t2) if t2.len() > t.len() => {}
                _ => ctx.machinery_error(format!("duplicating a node of seed {} does not give a well-formed object", s.name)),
            }
        }
    }
    for r in [11usize, 12, 100, 126, 127, 130, 140, 255, 270, 300, 65400, 65535, 65536, 65537] {
        let f = mutate::filler(r);
        if f.len() != r || f[0] != 0x30 || Tree::parse(&der::seq(&[f.clone()])).is_none() {
            ctx.machinery_error(format!("filler({r}) is not a well-formed run of SEQUENCEs of that size"));
        }
    }
    let nworkers: usize = std::env::var("C04_WORKERS").ok().and_then(|s| s.parse().ok()).unwrap_or(16);

    //--- replay of one recorded case
    if let Some((_, wit)) = ctx.replay.clone() {
        let sp = ctx.space("replay", "one recorded case");
        let parsed = (|| {
            let spid = SpaceId::parse(token(&wit, "sp=")?)?;
            let idx: u64 = token(&wit, "i=")?.parse().ok()?;
            let (mode, epn, seedn) = (token(&wit, "mode=")?, token(&wit, "ep=")?, token(&wit, "seed=")?);
            let ep = *ALL_EPS.iter().find(|e| e.name() == epn && e.mode() == mode)?;
            let seed = match spid {
                SpaceId::Rs | SpaceId::LogRs => env.rs.iter().position(|s| s.name == seedn)?,
                SpaceId::Str | SpaceId::Time | SpaceId::RtaMx => 0,
                SpaceId::SelfTest => return None,
                _ => env.seeds.iter().position(|s| s.name == seedn)?,
            };
            Some(Task { id: 1, sp: spid, seed, ep, lo: idx, hi: idx + 1 })
        })();
        match parsed {
            None => ctx.machinery_error(format!("cannot parse replay witness {wit}")),
            Some(t) => {
                let st = PoolState { queue: Mutex::new(VecDeque::from(vec![t])), results: Mutex::new(vec![]), deaths: Mutex::new(vec![]), infra: Mutex::new(vec![]), thorough, times: Mutex::new(BTreeMap::new()), t0: Instant::now(), dead_count: Mutex::new(HashMap::new()), skipped: Mutex::new(BTreeMap::new()), coarse: Mutex::new(Vec::new()), stats: Mutex::new(HashMap::new()) };
                st.drive(1);
                remove_worker_temp_dirs();
                for e in st.infra.lock().unwrap().iter() { ctx.machinery_error(e.clone()) }
                for (_, r) in st.results.lock().unwrap().iter() {
                    sp.evals(r.evals);
                    for (o, w, d) in &r.fails { ctx.fail(o, w.clone(), d.clone()) }
                }
                for d in st.deaths.lock().unwrap().iter() { report_death(&ctx, &env, thorough, d) }
            }
        }
        sp.done(true, "one case");
        ctx.finish();
    }

    //--- plan
    let mut plan = Plan { tasks: Vec::new(), next_id: 0 };
    // worker self-test: the machinery must find a planted abort / OOM / hang / stack overflow
    for kind in 0..4usize { plan.add_range(SpaceId::SelfTest, kind, Ep::Cert, 64, 64) }
    // the time clause first (its cases are the longest single tasks), then the RTA matrix and the call sequences
    {
        // the key families two to a task (neighbours share their ordinary object, which a worker measures once)
        let (all, first_key) = (tm_cases(thorough).len() as u64, tm_cases(thorough).iter().position(|c| c.key_dims().is_some()).unwrap_or(0) as u64);
        plan.add_range(SpaceId::Time, 0, Ep::Crl, first_key, 1);
        let mut lo = first_key;
        while lo < all { let hi = (lo + 2).min(all); plan.tasks.push(Task { id: plan.next_id, sp: SpaceId::Time, seed: 0, ep: Ep::Crl, lo, hi }); plan.next_id += 1; lo = hi; }
    }
    let n_mx = mx_cfgs(thorough).len() as u64;
    plan.add_range(SpaceId::RtaMx, 0, Ep::RtaS, n_mx, 192);
    let seq_eps = |k: Kind| -> &'static [Ep] { match k {
        Kind::Cert => &[Ep::Cert], Kind::Crl => &[Ep::Crl], Kind::Mft => &[Ep::MftS, Ep::MftR], Kind::Roa => &[Ep::RoaS, Ep::RoaR], Kind::Aspa => &[Ep::AspaS, Ep::AspaR],
        Kind::Rta => &[Ep::RtaS, Ep::RtaR], Kind::Tal => &[Ep::Tal], Kind::AsText => &[Ep::AsText], Kind::IpText => &[Ep::IpText], _ => &[] } };
    let seq_seed = |s: &Seed| !s.no_mutate || ["/00003-", "/00040-", "/00257-", "scale/17-blocks-ca", "scale/17-blocks-middle"].iter().any(|p| s.name.contains(p));
    for (i, s) in env.seeds.iter().enumerate() { if seq_seed(s) { for &ep in seq_eps(s.kind) { plan.add_range(SpaceId::Seq, i, ep, 1, 1) } } }
    // objects with a space of their own (first, so that a stall overlaps with the rest)
    for (i, s) in env.seeds.iter().enumerate() { if s.own_space { for &ep in eps_for(s.kind) { plan.add_range(SpaceId::Own, i, ep, 1, 1) } } }
    // re-signed
    for (i, rs) in env.rs.iter().enumerate() {
        let total = singles_full(&rs.tree).len() as u64;
        plan.add_range(SpaceId::Rs, i, rs.eps()[0], total, 96);
    }
    // bound 1 (largest seeds first)
    let b1_lists: Vec<Vec<Case1>> = env.seeds.par_iter().map(|s| if s.own_space || s.no_mutate { Vec::new() } else { b1_cases(s, thorough) }).collect();
    let mut order: Vec<usize> = (0..env.seeds.len()).collect();
    order.sort_by_key(|&i| std::cmp::Reverse(env.seeds[i].bytes.len()));
    for &i in &order {
        let s = &env.seeds[i];
        let chunk = (1536u64).min((16u64 << 20) / s.bytes.len().max(1) as u64).max(16);
        for &ep in eps_for(s.kind) { plan.add_range(SpaceId::B1, i, ep, b1_lists[i].len() as u64, chunk) }
    }
    // segmentation: every string-typed node in pieces
    let seg_lists: Vec<Vec<SegCase>> = env.seeds.par_iter().map(|s| if seg_seed(s, thorough) { seg_cases(s) } else { Vec::new() }).collect();
    for &i in &order {
        let s = &env.seeds[i];
        if !seg_seed(s, thorough) { continue }
        let chunk = (1536u64).min((16u64 << 20) / s.bytes.len().max(1) as u64).max(16);
        for &ep in seg_eps(s.kind, thorough) { plan.add_range(SpaceId::Seg, i, ep, seg_lists[i].len() as u64, chunk) }
    }
    // logging switched on: every seed as it is, the complete bound-1 list of the representative seeds, the reduced one of the others
    let log_full = log_full_seeds(&env, thorough);
    let log_lists: Vec<Vec<Case1>> = env.seeds.par_iter().enumerate().map(|(i, s)| log_cases(s, log_full[i])).collect();
    for &i in &order {
        let s = &env.seeds[i];
        let chunk = (1536u64).min((16u64 << 20) / s.bytes.len().max(1) as u64).max(16);
        for &ep in eps_for(s.kind) { plan.add_range(SpaceId::Log, i, ep, log_lists[i].len() as u64, chunk) }
    }
    for (i, rs) in env.rs.iter().enumerate() {
        let total = if thorough { singles_full(&rs.tree).len() } else { singles_reduced(&rs.tree).len() } as u64;
        plan.add_range(SpaceId::LogRs, i, rs.eps()[0], total, 96);
    }
    // bound 0
    for (i, s) in env.seeds.iter().enumerate() { if !s.own_space { for &ep in eps_for(s.kind) { plan.add_range(if s.no_mutate { SpaceId::Scale } else { SpaceId::B0 }, i, ep, 1, 1) } } }
    // bound 2 (thorough): one seed per kind, the one with the fewest TLV nodes
    let mut b2_seeds: Vec<usize> = Vec::new();
    if thorough {
        let mut best: BTreeMap<Kind, usize> = BTreeMap::new();
        for (i, s) in env.seeds.iter().enumerate() {
            let Some(t) = &s.tree else { continue };
            if s.own_space || s.no_mutate { continue }
            // freshly built seeds (known to decode) are preferred; the parent never
            // runs the subject on a seed itself
            if !s.fresh && env.seeds.iter().any(|o| o.kind == s.kind && o.fresh && o.tree.is_some()) { continue }
            let better = match best.get(&s.kind) { None => true, Some(&j) => t.len() < env.seeds[j].tree.as_ref().unwrap().len() };
            if better { best.insert(s.kind, i); }
        }
        b2_seeds = best.values().copied().collect();
        for &i in &b2_seeds {
            let s = &env.seeds[i];
            let t = s.tree.as_ref().unwrap();
            let m = singles_reduced(t).len() as u64;
            let (la, lb) = (singles_lenform(t).len() as u64, singles_full(t).len() as u64);
            for &ep in eps_for(s.kind) {
                plan.add_range(SpaceId::B2P, i, ep, m * m, 60_000);
                plan.add_range(SpaceId::B2L, i, ep, la * lb, 30_000);
            }
        }
    }
    // short strings
    let max_len = ctx.tier.pick(2u32, 3u32);
    let nstr = mutate::short_string_count(max_len);
    for &ep in ALL_EPS.iter() { plan.add_range(SpaceId::Str, 0, ep, nstr, ctx.tier.pick(16_384, 524_288)) }

    // debugging aid: C04_ONLY=seg,log runs the named spaces only (the others are then reported empty: exit 2 unless a violation is found)
    if let Ok(only) = std::env::var("C04_ONLY") {
        let keep: Vec<&str> = only.split(',').collect();
        plan.tasks.retain(|t| t.sp == SpaceId::SelfTest || keep.contains(&t.sp.code()));
    }
    if std::env::var("C04_PLAN").is_ok() {
        let mut by: BTreeMap<&str, (u64, u64)> = BTreeMap::new();
        for t in &plan.tasks { let e = by.entry(t.sp.code()).or_insert((0, 0)); e.0 += 1; e.1 += t.size(); }
        for (k, (n, c)) in by { println!("space {k}: {n} tasks, {c} indexes") }
        for (i, s) in env.seeds.iter().enumerate() {
            println!("seed {i} {} kind={:?} len={} nodes={} b1={} seg={}x{} log={}{}", s.name, s.kind, s.bytes.len(), s.tree.as_ref().map(|t| t.len()).unwrap_or(0), b1_lists[i].len(),
                seg_lists[i].len(), if seg_seed(s, thorough) { seg_eps(s.kind, thorough).len() } else { 0 }, log_lists[i].len(), if log_full[i] { " (full)" } else { "" });
        }
        for &i in &b2_seeds { let t = env.seeds[i].tree.as_ref().unwrap(); println!("b2 seed {} reduced={} full={}", env.seeds[i].name, singles_reduced(t).len(), singles_full(t).len()); }
        println!("skipped: {:?}", env.skipped);
        std::process::exit(0);
    }

    // distinct non-trivial bound-1 inputs per seed (measured: distinct by content, different from the seed)
    let b1_distinct: Vec<u64> = env.seeds.par_iter().enumerate().map(|(i, s)| {
        let mut seen: HashSet<u64> = HashSet::new();
        seen.insert(fnv64(&s.bytes));
        let mut n = 0u64;
        for &c in &b1_lists[i] { if seen.insert(fnv64(&case1_bytes(s, c))) { n += 1 } }
        n
    }).collect();

    let seg_distinct: Vec<u64> = env.seeds.par_iter().enumerate().map(|(i, s)| {
        let mut seen: HashSet<u64> = HashSet::new();
        seen.insert(fnv64(&s.bytes));
        let mut n = 0u64;
        for &c in &seg_lists[i] { if seen.insert(fnv64(&seg_bytes(s, c))) { n += 1 } }
        n
    }).collect();
    let log_distinct: Vec<u64> = env.seeds.par_iter().enumerate().map(|(i, s)| {
        let mut seen: HashSet<u64> = HashSet::new();
        let mut n = 0u64;
        for &c in &log_lists[i] { if seen.insert(fnv64(&case1_bytes(s, c))) { n += 1 } }
        n
    }).collect();

    //--- run
    let ntasks = plan.tasks.len();
    let st = PoolState { queue: Mutex::new(VecDeque::from(plan.tasks)), results: Mutex::new(Vec::new()), deaths: Mutex::new(Vec::new()), infra: Mutex::new(Vec::new()), thorough, times: Mutex::new(BTreeMap::new()), t0: Instant::now(), dead_count: Mutex::new(HashMap::new()), skipped: Mutex::new(BTreeMap::new()), coarse: Mutex::new(Vec::new()), stats: Mutex::new(HashMap::new()) };
    eprintln!("c04: planned in {:.1}s", t_start.elapsed().as_secs_f64());
    st.drive(nworkers);
    remove_worker_temp_dirs();
    eprintln!("c04: driven in {:.1}s {:?}", t_start.elapsed().as_secs_f64(), st.times.lock().unwrap());
    for e in st.infra.lock().unwrap().iter() { ctx.machinery_error(e.clone()) }
    let mut results = std::mem::take(&mut *st.results.lock().unwrap());
    results.sort_by_key(|(t, _)| (t.id, t.lo));
    let mut deaths = std::mem::take(&mut *st.deaths.lock().unwrap());
    deaths.sort_by_key(|d| (d.task.id, d.task.lo));

    //--- spaces
    let mut per: BTreeMap<SpaceId, TaskResult> = BTreeMap::new();
    let mut fails: Vec<(String, String, String)> = Vec::new();
    for (t, mut r) in results {
        fails.append(&mut r.fails);
        for m in r.mach.drain(..) { ctx.machinery_error(m) }
        per.entry(t.sp).or_default().merge(r);
    }
    let seed_json: Vec<Value> = env.seeds.iter().enumerate().map(|(i, s)| json!({
        "name": s.name, "fresh": s.fresh, "kind": format!("{:?}", s.kind), "octets": s.bytes.len(), "tlv_nodes": s.tree.as_ref().map(|t| t.len()).unwrap_or(0),
        "bound1_cases": b1_lists[i].len(), "entry_points": eps_for(s.kind).iter().map(|e| format!("{}/{}", e.name(), e.mode())).collect::<Vec<_>>(),
    })).collect();
    let skipped = std::mem::take(&mut *st.skipped.lock().unwrap());
    let mut coarse = std::mem::take(&mut *st.coarse.lock().unwrap());
    coarse.sort_by_key(|d| (d.task.id, d.task.lo));
    let finish_space = |id: SpaceId, name: &str, rule: &str, exhaustive: bool, bound: &str, nt_override: Option<u64>| {
        let sp = ctx.space(name, rule);
        let sk = skipped.get(&id).copied().unwrap_or(0);
        let bound_s = if sk > 0 { format!("{bound}, EXCEPT {sk} indexes not run after {DEATH_CAP} inputs of the same seed and entry point had already ended a worker") } else { bound.to_string() };
        let (exhaustive, bound) = (exhaustive && sk == 0, bound_s.as_str());
        if let Some(r) = per.get(&id) {
            sp.evals(r.evals);
            sp.nontrivial(nt_override.unwrap_or(r.nontrivial));
            for (k, n) in &r.outcomes { sp.outcomes_n(k, *n) }
            for s in r.samples.iter().take(4) { let s = s.clone(); sp.sample_str(|| s) }
            sp.set("max_source_calls_per_octet", json!(r.max_ratio as f64 / 1000.0));
            sp.set("cases_in_which_a_validation_succeeded", json!(r.marks));
        }
        sp.done(exhaustive, bound);
        sp
    };

    // self-test verdicts
    {
        let sp = ctx.space("worker.selftest", "a planted abort, address-space exhaustion, endless sleep and stack overflow at index 37 of a 64-case batch must each be bisected to exactly that index; non-trivial = planted faults");
        sp.evals(per.get(&SpaceId::SelfTest).map(|r| r.evals).unwrap_or(0));
        let names = ["abort", "address-space exhaustion", "hang", "stack overflow"];
        for (kind, name) in names.iter().enumerate() {
            let found: Vec<&Death> = deaths.iter().filter(|d| d.task.sp == SpaceId::SelfTest && d.task.seed == kind).collect();
            sp.nontrivial(1);
            if found.len() == 1 && found[0].task.lo == SELFTEST_CULPRIT && found[0].hung == (kind == 2) {
                sp.outcome(&format!("{name}: found at the planted index"));
                sp.sample_str(|| format!("{name}: {}", found[0].how));
            } else {
                sp.outcome(&format!("{name}: NOT found"));
                ctx.machinery_error(format!("worker self-test: planted {name} was not isolated (got {:?})", found.iter().map(|d| (d.task.lo, d.hung, d.how.clone())).collect::<Vec<_>>()));
            }
        }
        sp.outcome("unaffected indexes ran to completion");
        sp.done(true, "4 planted faults");
    }
    deaths.retain(|d| d.task.sp != SpaceId::SelfTest);

    let menu = "size classes: at every string, INTEGER, SEQUENCE, SET and context-tagged node the content is brought to each of 127, 128, 255, 256, 65535, 65536, 65537 octets (primitive: zero padding or cut; constructed: appended unknown-attribute filler, repeated last element, padded last leaf), ancestors fixed up; for primitive string-typed nodes (OCTET/BIT STRING, character strings, times, primitive context tags) the 24 BER constructed-string spellings (2 parts cut after the first / in the middle / before the last octet; last part twice; last octet dropped; extra part of 1/4/64 octets; empty part; nested depth 2; wrong inner tag; single part; each with definite and indefinite outer length); tag := each of 16 tags; length := {-1, +1, 0, indefinite with/without end-of-contents, non-minimal long form, 84 FFFFFFFF}; content := {one octet short, empty, one zero octet, all FF, first/last octet +-1}; delete; duplicate; swap with next sibling; splice in the first node of every other tag of the same object; wrap in 64 (thorough, seeds <= 4 KiB: also 20000 indefinite / 3000 definite) levels of constructed nesting";
    let sp0 = finish_space(SpaceId::B0, "bound0.seeds",
        "every seed (files of a decodable type under test-data, base64 payloads of serde-compat/*.json, freshly built objects of every type) into each entry point of its type, strict and relaxed; full accessor sweep after every successful decode; non-trivial = (seed, entry point) pairs that decode",
        true, "all seeds", None);
    sp0.set("seeds", json!(seed_json));
    sp0.set("files_without_public_entry_point", json!(env.skipped));
    let b1_nt: u64 = env.seeds.iter().enumerate().map(|(i, s)| b1_distinct[i] * eps_for(s.kind).len() as u64).sum();
    finish_space(SpaceId::B1, "bound1.single_deviation",
        &format!("every seed x every entry point of its type x one deviation: at every TLV node (E5 reader; TAL: nodes of the embedded key, re-wrapped in base64) {menu}; every truncation length; every octet := {{00,7F,80,FF}} (TAL also LF # CR = SP){}; seeds > 16 KiB: raw-octet operators only at the first/last 512 octets and at every node's header and first/last two content octets; non-trivial = inputs that differ from the seed, distinct by content per seed (measured by hashing), times entry points",
            if thorough { "; every single-bit flip" } else { "" }),
        true, "deviation bound 1 on all seeds", Some(b1_nt));
    if thorough {
        let sp = finish_space(SpaceId::B2P, "bound2.pairs_reduced_menu",
            "one seed per type (the freshly built one with the fewest TLV nodes; the repository's router-csr.der for BGPsec CSRs) x every entry point of the type x all unordered pairs of single deviations at two different nodes from a reduced menu (tag := {02,04,30,05}; length -1, +1, 0, indefinite, non-minimal; constructed-string split-mid and last-part-twice; content one short, empty, all FF, first+1, last-1, one zero octet; delete; duplicate; swap); an operator on an ancestor acts on the already rewritten descendant; non-trivial = pairs whose result differs from the seed and from both single deviations (measured by hashing; byte-identical results of different pairs are not merged)",
            true, "deviation bound 2, reduced menu, one seed per type", None);
        sp.set("seeds", json!(b2_seeds.iter().map(|&i| env.seeds[i].name.clone()).collect::<Vec<_>>()));
        finish_space(SpaceId::B2L, "bound2.length_form_x_any",
            "same seeds x entry points: (indefinite or non-minimal length at any node, or the split-mid constructed spelling of a string node) x (any operator of the full bound-1 menu at any other node); non-trivial as for the pairs space",
            true, "length-form x full menu, one seed per type", None);
    }
    finish_space(SpaceId::Rs, "bound1.resigned",
        &format!("deviations behind the signature checks: every full-menu operator at every node of a to-be-signed part (TBS of fresh EE/CA/router and identity certificates; TBSCertList and identity EE certificate inside a signed message; ROA/manifest/ASPA eContent), after which the object is signed again with the pool keys (message digest, signed attributes, CRL and certificate signatures) and decoded and swept; cases rejected with zero signatures are not signed; non-trivial = deviations that still decode. Operator menu: {menu}"),
        true, "deviation bound 1 on 9 to-be-signed parts", None);
    {
        let seg_nt: u64 = env.seeds.iter().enumerate().map(|(i, s)| if seg_seed(s, thorough) { seg_distinct[i] * seg_eps(s.kind, thorough).len() as u64 } else { 0 }).sum();
        let sp = finish_space(SpaceId::Seg, "bound1.segmented_strings",
            &format!("the segmentation dimension: a string value that arrives in pieces (BER constructed spelling). Every seed of a type with a relaxed entry point (quick: seeds up to 16 KiB into the relaxed decoder of the type; thorough: every seed into every entry point of its type, where strict and DER decoding must refuse) x every primitive string-typed TLV node (OCTET / BIT STRING, character strings, times, primitive context tags such as the [0] signer identifier; value length L, a BIT STRING without its unused-bits octet) x the total the pieces add up to: L-1, L, L+1, L+L/2, 2L (the value's own octets cut or repeated; L > 2048: the first three) x the lay-out: ALL two-piece splits (cut at every position 0..=total for totals up to 80 octets; beyond that the 17 positions at either end, +-1 around L, the middle, 127/128, 255/256, 1000, 65535/65536), a menu of up to 14 three-piece splits (empty pieces in front / in the middle / at the end, one-octet pieces, thirds, the second cut one before / at / one behind L with the first cut in the middle, one before L or at L), and at the cuts {{1, L/2, L-1, L, L+1, total-1}} the two-piece split with the first / the second piece itself constructed of two halves (one level of nesting) and the two-piece split under an indefinite outer length; all ancestors' lengths follow. So every relation between a piece boundary and the expected length occurs: every piece shorter than L while the total is larger, a piece that starts before octet L and ends behind it, a piece that ends exactly at L followed by more, empty pieces anywhere. Each case is decoded and, if it decodes, gets the full accessor sweep; non-trivial = inputs distinct by content per seed (measured by hashing), times entry points"),
            true, "every string-typed node of every such seed x 5 totals x all two-piece splits + three-piece, nested and indefinite menus", Some(seg_nt));
        sp.set("seeds", json!(env.seeds.iter().enumerate().filter(|(_, s)| seg_seed(s, thorough)).map(|(i, s)| json!({"name": s.name, "cases": seg_lists[i].len(), "entry_points": seg_eps(s.kind, thorough).iter().map(|e| format!("{}/{}", e.name(), e.mode())).collect::<Vec<_>>()})).collect::<Vec<_>>()));
        let log_nt: u64 = env.seeds.iter().enumerate().map(|(i, s)| log_distinct[i] * eps_for(s.kind).len() as u64).sum();
        let sp = finish_space(SpaceId::Log, "environment.logging",
            &format!("the environment an EARLIER call may have left behind: the process-global maximum level of the `log` crate. All other spaces run at level Off (a process that never touched logging: no argument of a log statement is evaluated); here the worker has raised the level to Trace and installed a logger that is enabled for everything and formats every record into a sink, so every argument of every `error!` .. `trace!` statement on the path is evaluated and formatted inside the case's panic guard. Run that way: EVERY seed as it is (including the count / scale objects: CRLs, manifests, ROAs with 0..=40 and 255..=257 entries, TALs with 0..=3, 40 and 257 URIs, certificates with 17/33/65 blocks) through every entry point of its type with the full accessor sweep; the COMPLETE bound-1 list (quick-tier menu) of every text-format seed (TALs, AS and IP block lists) and of one seed per type (the freshly built one with the fewest TLV nodes){}; for all other seeds the reduced list: at every TLV node one representative per operator class (tag := {{02,04,30,05}}; length -1, +1, 0, indefinite, non-minimal; content one short, empty, all FF, first+1, last-1, one zero octet; constructed-string split-mid and last-part-twice; reverse the elements; delete; duplicate; swap) and the truncation in front of the node. Oracles and witnesses as in bound 1 (sp=log). Non-trivial = inputs distinct by content per seed (measured by hashing), times entry points",
                if thorough { " - thorough: of every seed" } else { "" }),
            true, "all seeds as they are; full bound-1 list of the representative seeds, reduced list of the others; at log level Trace", Some(log_nt));
        let recs = per.get(&SpaceId::Log).and_then(|r| r.notes.get("log records formatted").copied()).unwrap_or(0);
        sp.set("log_records_formatted", json!(recs));
        sp.set("seeds_with_complete_bound1_list", json!(env.seeds.iter().enumerate().filter(|(i, s)| log_full[*i] && !s.no_mutate && !s.own_space).map(|(_, s)| s.name.clone()).collect::<Vec<_>>()));
        if recs == 0 { ctx.machinery_error("environment.logging: the library's log statements produced no record at level Trace; the level did not take effect") }
        let sp = finish_space(SpaceId::LogRs, "environment.logging.resigned",
            &format!("log level Trace behind the signature checks: the to-be-signed parts of bound1.resigned x {} at every node, signed again with the pool keys, decoded and swept (validation, revocation lookup, resource verification run with every log argument evaluated); non-trivial = deviations that still decode",
                if thorough { "the full operator menu" } else { "the reduced operator menu (one representative per operator class)" }),
            true, "reduced (thorough: full) menu on the to-be-signed parts, at log level Trace", None);
        sp.set("log_records_formatted", json!(per.get(&SpaceId::LogRs).and_then(|r| r.notes.get("log records formatted").copied()).unwrap_or(0)));
    }
    finish_space(SpaceId::Scale, "scale.lists",
        "the scale dimension, unmutated objects through every entry point of their type and the full sweep: (a) CA / EE certificates with 17, 33 and 65 disjoint blocks per family, and correctly signed ROAs and ASPAs under them (EE resources independent of the content) asking for a prefix / customer AS below the first block, at the first, a middle and the last block, in the gaps after the first and a middle block, above the last block; (b) CRLs, manifests and ROAs with 0..=40 and 255..=257 entries, ASPAs with 1..=40, 255..=257 and 16379..=16381 providers, TALs with 0..=3, 40 and 257 URIs (thorough: also the neighbourhoods of 64, 128, 1024, 4096, and for providers 8192 and 16384); every decoded block list of every space is in addition probed at and around its first, middle and last block (C04.ip.probes, C04.as.probes), every CRL at its first, middle and last entry; non-trivial = (object, entry point) pairs that decode",
        true, "3 block counts x 7 placements x {ROA, ASPA}; list counts as stated", None);
    {
        let hung = deaths.iter().filter(|d| d.task.sp == SpaceId::Own).count() as u64;
        let hung_eps: Vec<Ep> = deaths.iter().filter(|d| d.task.sp == SpaceId::Own).map(|d| d.task.ep).collect();
        let sp = finish_space(SpaceId::Own, "rta.ca_cycle",
            "one hand-built object: an RTA that embeds two CA certificates naming (and signing) each other as issuer, each with its CRL and inherited resources, and a detached EE certificate under one of them that signs the attestation; decoded strict and relaxed and swept (rta::Validation::new_at must return); non-trivial = both runs",
            true, "1 object x 2 modes", Some(2));
        if hung > 0 { sp.evals(hung); for ep in hung_eps { sp.outcome(&format!("worker stalled in the sweep [{}/{}]", ep.name(), ep.mode())) } }
    }
    {
        let cases = tm_cases(thorough);
        let sp = finish_space(SpaceId::Time, "time.growth",
            &format!("the time clause, measured as CPU time of the calling thread (clock_gettime(CLOCK_THREAD_CPUTIME_ID), best of three runs): for every crafted family the object is built with n elements for each n of a 1:4 ladder (1 024, 4 096, 16 384; CRLs also 65 536; thorough one step further) next to an ordinary object of the same kind, size and count, and the decode and every accessor are timed one by one. Families: resource block lists of n disjoint blocks (IPv4 /24, IPv6 /56, AS ranges) in descending, even-then-odd, zigzag, highest-first, stride-permuted, adjacent-descending and overlapping-descending order through every way in: FromStr, Deserialize, DER take_from, FromIterator, the builders, ResourceSet::from_strs, the three extensions of a certificate (then validate_ca_at), the attested resources of an RTA (then rta::Validation); set operations on two lists that interleave / are identical / nest / one covers all; CRLs whose n serial numbers are equal in all octets but a four-octet window at offset 1, 4, 8, 12 or 16 (rest 00 or A5) with decode, iteration, lookups without cache, cache_serials, 64 cached lookups of listed and of unlisted serials of the same family, CrlStore with caching, re-encoding, serde; manifests whose n names share a 48-octet prefix / suffix, are all equal, or whose hashes are all equal; ASPAs whose providers are multiples of 2^16 / 2^8, consecutive, descending or share their high octets; ROAs with n prefixes descending, zigzag, all equal, one address at every length, and n prefixes under an EE certificate with n blocks. TALs with n URIs (schemes alternating, n comment lines, CR LF, 400-octet lines, the key in one-character lines); signed protocol messages whose embedded CRL lists n such serial numbers. KEY FAMILIES, for every collection of keys a decoder or accessor builds, looks up or orders (the 20-octet serial numbers of a CRL, also inside a signed message; the names (16-octet key in hex) and the 32-octet hashes of a manifest; the providers of an ASPA; host prefixes /32 and /128 of a ROA; single addresses and AS numbers in the resource extensions of a certificate): n pairwise different keys that AGREE IN A CHOSEN SET OF OCTETS, the counter spread bit by bit over all others — agree in the low k octets and differ in every octet above (k on the ladder 1, 2, 4, 8, 12, 16, 24, 28 as the length allows), agree in the high k octets, differ only in the octets at positions = r mod k (k = 2, 3, 4, 8, every r that leaves at least 3 positions, 2 for 4-octet keys), agree in the middle (differ in the two outermost octets at either end), and the counter written twice one / two / three words apart, the second time as it is or negated (a word-wise XOR or sum sees one value); the ladder of a family ends where it runs out of keys; the quick tier runs the serial-number, file-name and hash menus on a coarser ladder of k (every kind of family present), the thorough tier all of them; ROA host prefixes go one rung further (65 536) for four IPv6 families in the quick tier and for all in the thorough tier. JUDGED is the first operation of each family where it is one of the decoding entry points the property names (Cert, Crl, Manifest, Roa, Aspa, Rta, Tal::read_named, SignedMessage::decode, strict) with everything it does inside, e.g. collecting the resource blocks: C04.time.growth = it takes more than {}x the time for 4x the size AND more than {} ms above linear growth (crafted and ordinary object alike); C04.time.vs_control = more than {}x the ordinary object of the same size AND more than {} ms above it. ProvisioningCms::decode on the same bytes is judged alike. The accessors, iterators, lookups and re-encodings of the decoded value (Crl::cache_serials, cached and uncached contains, CrlStore push/get, iter, iter_uris, iter_origins, to_set, to_blocks, asn_count, contains/union/difference of the decoded blocks, to_captured, encode_ref, serde) are held to C04.time.panic and to coming back: C04.time.accessor_runaway = the call takes more than {}x the CPU time of the same call on the ordinary object of the same size and count AND more than {} ms longer, or (either object) more than {}x the time for 4x the size AND more than {} ms above linear growth — one second for an input of at most a few megabytes that an object of the same size answers in milliseconds is the call not returning in any time commensurate with its input; a slow-down below that is recorded, not judged. Validation against an issuer (validate_*, process, rta::Validation), RtaBuilder, and FromStr / Deserialize / FromIterator / builders / set operations (no decoding entry points) are held to C04.time.panic and to returning at all (worker wall budget); where growth crosses the decoders' thresholds without being judged that is recorded under growth_observed_but_not_judged. Non-trivial = crafted families that decode at the largest size",
                TM_GROWTH, TM_MARGIN_NS / 1_000_000, TM_VS_CONTROL, TM_MARGIN_NS / 1_000_000, TM_VS_CONTROL, TM_RUNAWAY_NS / 1_000_000, TM_GROWTH, TM_RUNAWAY_NS / 1_000_000),
            true, &format!("{} crafted families x the size ladder x every accessor of the type", cases.len()), None);
        sp.set("families", json!(cases.iter().map(|c| c.desc()).collect::<Vec<_>>()));
        sp.set("growth_observed_but_not_judged", json!(per.get(&SpaceId::Time).map(|r| r.notes.keys().cloned().collect::<Vec<_>>()).unwrap_or_default()));
        let cfgs = mx_cfgs(thorough);
        let sp = finish_space(SpaceId::RtaMx, "rta.validation.matrix",
            "freshly built RTAs over a chain TA -> d CA certificates -> EE certificate, d = 0..3: the EE certificate claims each of its three families as inherit / blocks / absent (d <= 1: also blocks wider than any CA holds), every CA certificate each family as inherit / blocks (quick d = 3: all three alike), blocks nested from level to level; the lowest 0..d+1 issuers travel inside the RTA with their CRLs, the rest is supplied; overclaim policy refuse / trim / trim on the EE only; one or two signers (the second EE certificate swaps inherit and blocks); the attestation lists exactly what the model says the signers hold, or one block more (thorough d <= 2: all twelve combinations; otherwise one at a time: refuse / trim / trim-EE-only / second signer / extra block, of which quick d = 2 and thorough d = 3 run refuse, trim and the second signer). Each is decoded, Validation::new_at is run lenient and strict, and from there EVERY order of the d + 2 possible calls {supply_tal, supply_ca(TA), supply_ca(CA1..d)} is walked as a tree (beyond d = 1, thorough d = 2: the first three calls), with finalize on a copy at every node. Oracle C04.rta.validation.panic: no call panics (hangs and aborts end the worker and are reported as such). Non-trivial = configurations in which some call order ends in a valid attestation",
            true, &format!("{} configurations x 2 validation modes x all call orders", cfgs.len()), None);
        if per.get(&SpaceId::RtaMx).map(|r| r.nontrivial).unwrap_or(0) == 0 { ctx.machinery_error("rta.validation.matrix: no configuration validates; the fixtures are wrong") }
        sp.set("configurations_by_depth", json!((0..=3usize).map(|d| cfgs.iter().filter(|(c, _)| c.d == d).count()).collect::<Vec<_>>()));
        finish_space(SpaceId::Seq, "accessor.sequences",
            &format!("for every seed that decodes (all test-data and fresh objects; of the count/scale objects those with 3, 40 and 257 entries and the 17-block ones) and every entry point of its type: ALL sequences of 1..={} calls (thorough: 4 where the alphabet allows) over the type's methods, each sequence on a freshly decoded object — Crl: cache_serials, contains(first/middle/last/0/2^127-1), revoked_certs().contains, iter, to_captured, clone, serde round trip, CrlStore with and without caching; Manifest/Roa/Aspa: the list accessors, validate_at / process (lenient and strict, every issuer the object names plus one it does not) on a clone followed by the accessors of what it returns, clone, and after a strict decode to_captured and serde; Cert: validate_{{ta,ca,ee,router}}_at, inspect, resources, re-encode, serde; Tal: prefer_https, uris; block lists from text: intersection_assign / union / difference / reparse with live clones held and dropped; Rta: Validation::new_at then all sequences with repetition of supply_tal / supply_ca(each fixed issuer) with finalize after each, RtaBuilder::from_rta. For every iterator the objects hand out (revocation entries, file lists, URIs, prefixes, origins, providers, blocks, ASNs, TAL URIs) two live iterators are advanced in every interleaving of up to {} steps from {{a.next, b.next, a.nth(1), a.size_hint, a.count, a.last}} and must give the items of one plain pass. Oracles: C04.seq.panic; C04.seq.same_answer (a pure accessor answers as it does as the first call on a fresh object); C04.seq.iter. Non-trivial = sequences of at least two calls",
                3, 3),
            true, "all call sequences up to the stated length on every decodable seed", None);
    }
    finish_space(SpaceId::Str, "strings.short",
        &format!("all octet strings of length 0..={max_len} into each of the 21 entry point/mode combinations (non-UTF-8 strings cannot be passed to the two FromStr decoders and count as rejected); every (string, entry point) pair is distinct and counted as non-trivial"),
        true, &format!("all strings of length <= {max_len}"), None);

    //--- violations (deterministic order)
    let mut classes: BTreeMap<String, u64> = BTreeMap::new();
    for (o, w, _) in &fails {
        let k = format!("{o} mode={} cause={} ep={} acc={}", token(w, "mode=").unwrap_or("?"), token(w, "cause=").unwrap_or("?"), token(w, "ep=").unwrap_or("?"), token(w, "acc=").unwrap_or("?"));
        *classes.entry(k).or_insert(0) += 1;
    }
    sp0.set("accessor_failure_classes", json!(classes));
    for (o, w, d) in fails { ctx.fail(&o, w, d) }
    for d in &deaths { report_death(&ctx, &env, thorough, d) }
    for d in &coarse {
        let (oracle, cause) = if d.hung { ("C04.worker.hang", "hang") } else { ("C04.worker.abort", "abort") };
        let name = if matches!(d.task.sp, SpaceId::Rs | SpaceId::LogRs) { env.rs[d.task.seed].name.clone() } else if d.task.sp == SpaceId::Str { "-".into() } else { env.seeds[d.task.seed].name.clone() };
        ctx.fail(oracle, format!("mode={};cause={} ep={} seed={} sp={} i={}..{} case=batch-not-bisected acc=decode+sweep", d.task.ep.mode(), cause, d.task.ep.name(), name, d.task.sp.code(), d.task.lo, d.task.hi),
            format!("{} (more than {DEATH_CAP} inputs of this seed and entry point end a worker; this batch was not bisected)", d.how));
    }

    eprintln!("c04: {} tasks on {} workers, {:.1}s", ntasks, nworkers, t_start.elapsed().as_secs_f64());
    ctx.finish();
}

fn report_death(ctx: &Ctx, env: &Env, thorough: bool, d: &Death) {
    let (seed, desc, bytes) = describe_case(env, thorough, &d.task);
    let (oracle, cause) = if d.hung { ("C04.worker.hang", "hang") } else { ("C04.worker.abort", "abort") };
    let ep = d.task.ep;
    let w = format!("mode={};cause={} ep={} seed={} sp={} i={} case={} acc=decode+sweep", ep.mode(), cause, ep.name(), seed, d.task.sp.code(), d.task.lo, desc);
    let mut detail = d.how.clone();
    if bytes.len() <= 2048 { detail.push_str(" | input="); detail.push_str(&hex(&bytes)); } else { detail.push_str(&format!(" | input of {} octets", bytes.len())); }
    ctx.fail(oracle, w, detail);
}
