//! C02 — a ROA, manifest, ASPA or generic RPKI signed object is accepted
//! under an issuer exactly when digest, signature (over the SET OF encoding
//! of the signed attributes, whatever its size), signer identifier, EE
//! certificate and resource coverage all hold, and the CRL callback agrees.
//!
//! Every CMS octet is produced by the independent encoder (`engine::der`),
//! every signature by aws-lc directly (`PoolSigner::sign_raw`) over
//! `der::signed_attrs_tbs`. Only the EE certificates' to-be-signed part comes
//! from the library's `TbsCert` (C01's business); they are assembled and
//! signed by the independent encoder as well.
//!
//! Spaces (all enumerated completely, nothing sampled):
//!  * baseline: kind x 6 attribute orders x UTCTime/GeneralizedTime x the four
//!    algorithm-identifier spellings x strict/relaxed: all accepted;
//!  * signed-attribute size: every total length reachable between ~97 and
//!    ~310 octets by lengthening the content-type OID, x 2 time forms x 6
//!    orders (crosses 127/128 and 255/256);
//!  * content sizes {0,1,127,128,65535,65536} (typed kinds: tuned to
//!    127/128/65535/65536 where the grammar allows);
//!  * condition vector: every single violation (all variants), all satisfied,
//!    all pairs of violations of different conditions, x kind x order x mode;
//!  * ROA coverage: all (prefix, maxLength) of a trie x all subsets of an
//!    8-atom universe of EE resources, both families, two-prefix and
//!    two-family ROAs; the issuing CA as a dimension (inherited, refused and
//!    trimmed EE resources under CAs holding every subset / nothing);
//!  * ASPA: 5 issuers (with / without IP resources, all / few ASNs) x
//!    customer AS x all subsets of an 8-atom AS universe / inherit x
//!    9 IP-resource combinations, refuse / trim;
//!  * evaluation instants around the EE validity bounds down to 1 ns; repeated
//!    validation of one decoded value over all pairs / triples of settings;
//!  * CRL callback {Ok, Err} x condition through `process()`;
//!  * every single-bit flip of one valid object of each kind, both modes;
//!  * ignored fields: every field of the object and of its EE certificate that the
//!    acceptance predicate does not name (signing-time value and form, further
//!    attributes / certificates / CRLs, EE serial, names, validity wider or narrower
//!    than the issuer's, URIs, extensions, ROA asID, ASPA providers, manifest number
//!    and update times, ...) x all satisfied / every single violation, singly and in
//!    pairs; issuer window x EE window x signing time x evaluation instant over one
//!    5-point domain;
//!  * history: on a new OS thread one predecessor leaving at every distinct stage
//!    (thorough: every pair), then all subjects forward and in reverse, against their
//!    fresh-thread observations; every entry point (decode, take_from, decode_if_type,
//!    validate, validate_at, process, clone, re-encode, typed wrappers, serde) x every
//!    single violation; the subject set under 7 TZ settings in child processes;
//!  * blocks.position: N resource blocks (AS, IPv4, IPv6; across 8, 16, 32, ... 256) x five block
//!    shapes x every item of the stride of the queried block (gap, first, interior, last);
//!  * identifier.spelling: sid, message digest and the EE certificate's key identifiers in every
//!    length around the expected one (right prefix / right suffix / all wrong), all else satisfied;
//!  * roa.count.relation: the number of prefixes of a ROA (0..=40 and around every power of two up to 1025)
//!    x one or two further prefixes chosen by their RELATION to the others and to the EE certificate's blocks
//!    x where they stand in the list x the order of the list;
//!  * history.fold_collision: right after the genuine object was accepted on a thread, copies whose signature,
//!    digest value, signing time or EE key differ in two places that cancel out in a folded / truncated key.
//!  * object.history: ONE decoded value judged two / three times in a row (on clones taken before or after the earlier steps,
//!    after by-reference checks on its EE certificate) under every ordered pair / triple of settings: the SAME issuer key under
//!    re-issued certificates holding other resources, instants, strict flag, callback verdict, entry point; against a newly
//!    decoded value under that setting alone and the model (verdict, validated resources, returned content).
//!
//! Reference model: the condition vector itself (accept <=> all true); for
//! coverage a bitmask over the atoms.

use std::cell::Cell;
use std::collections::{BTreeMap, BTreeSet};
use std::sync::Mutex;
use bytes::Bytes;
use rayon::prelude::*;
use rpki::repository::aspa::Aspa;
use rpki::repository::cert::{Overclaim, ResourceCert};
use rpki::repository::error::{ValidationError, VerificationError};
use rpki::repository::manifest::Manifest;
use rpki::repository::roa::Roa;
use rpki::repository::sigobj::SignedObject;
use rpki::repository::x509::{Time, Validity};
use rpki_verif::engine::der::{self, Civil, MftEntry, RoaAddr, SignedDataParts};
use rpki_verif::engine::enumerate::permutations;
use rpki_verif::engine::pki::{self, Claim, Res, Spec, T0};
use rpki_verif::engine::signer::{sha256, PoolSigner};
use rpki_verif::{guard, hex, trunc, Ctx, Space};

//------------ keys and fixed instants -------------------------------------------

const K_TA: usize = 0;
const K_CA: usize = 1;
const K_EE: usize = 2;
const K_CA2: usize = 3;
const K_OTHER: usize = 4;

const DAY: i64 = 86_400;
/// 2049-12-31T23:59:59Z — last UTCTime instant.
const FAR: i64 = 2_524_607_999;

fn civil(secs: i64) -> Civil {
    use chrono::{Datelike, Timelike};
    let d = chrono::DateTime::from_timestamp(secs, 0).unwrap();
    Civil { y: d.year(), mo: d.month(), d: d.day(), h: d.hour(), mi: d.minute(), s: d.second() }
}

fn wide_validity() -> Validity { Validity::new(pki::time(T0 - DAY), pki::time(FAR)) }
fn expired_validity() -> Validity { Validity::new(pki::time(T0 - 3 * DAY), pki::time(T0 - 2 * DAY)) }

//------------ kinds ---------------------------------------------------------------

#[derive(Clone, Copy, Debug, PartialEq, Eq, PartialOrd, Ord)]
enum Kind { Roa, Mft, Aspa, Gen }

const KINDS: [Kind; 4] = [Kind::Roa, Kind::Mft, Kind::Aspa, Kind::Gen];

impl Kind {
    fn name(self) -> &'static str { match self { Kind::Roa => "roa", Kind::Mft => "mft", Kind::Aspa => "aspa", Kind::Gen => "generic" } }
    fn ect(self) -> Vec<u64> {
        match self {
            Kind::Roa => der::OID_CT_ROA.to_vec(),
            Kind::Mft => der::OID_CT_MANIFEST.to_vec(),
            Kind::Aspa => der::OID_CT_ASPA.to_vec(),
            // an arbitrary content type nobody registered
            Kind::Gen => vec![1, 3, 6, 1, 4, 1, 99999, 7, 1],
        }
    }
    /// A different well-formed OID used as "the other content type".
    fn other_ct(self) -> Vec<u64> {
        match self { Kind::Roa => der::OID_CT_MANIFEST.to_vec(), _ => der::OID_CT_ROA.to_vec() }
    }
}

//------------ verdicts --------------------------------------------------------------

#[derive(Clone, Debug, PartialEq, Eq)]
enum Verdict { Accept, Decode(String), Invalid(String), Panic(String) }

impl Verdict {
    fn accepted(&self) -> bool { matches!(self, Verdict::Accept) }
    fn class(&self) -> &'static str {
        match self { Verdict::Accept => "accepted", Verdict::Decode(_) => "rejected-at-decode", Verdict::Invalid(_) => "rejected-at-validation", Verdict::Panic(_) => "panic" }
    }
    fn show(&self) -> String {
        match self { Verdict::Accept => "accepted".into(), Verdict::Decode(e) => format!("decode error: {e}"), Verdict::Invalid(e) => format!("validation error: {e}"), Verdict::Panic(e) => e.clone() }
    }
}

#[derive(Clone, Copy, Debug, PartialEq, Eq)]
enum Entry {
    /// `SignedObject::validate_at` / `Manifest::validate_at` at T0; ROA and
    /// ASPA have no timed entry point and go through `process` (wall clock).
    At,
    /// `process()` with the given callback verdict (generic, ROA, ASPA).
    Process(bool),
}

/// What the callback saw: (number of calls, EE certificate had the expected SKI).
type CbSeen = (u32, bool);

fn run(fx: &Fx, kind: Kind, bytes: &[u8], issuer: &ResourceCert, strict: bool, entry: Entry) -> (Verdict, CbSeen) {
    let calls = Cell::new(0u32);
    let ski_ok = Cell::new(true);
    let ee_ski = fx.s.ski(K_EE);
    let cb_ok = match entry { Entry::At => true, Entry::Process(b) => b };
    let b = Bytes::copy_from_slice(bytes);
    let r = guard(|| {
        let cb = |c: &rpki::repository::cert::Cert| -> Result<(), ValidationError> {
            calls.set(calls.get() + 1);
            if c.subject_key_identifier() != ee_ski { ski_ok.set(false) }
            if cb_ok { Ok(()) } else { Err(VerificationError::new("revoked (callback)").into()) }
        };
        match kind {
            Kind::Roa => match Roa::decode(b, strict) {
                Err(e) => Verdict::Decode(e.to_string()),
                Ok(o) => match o.process(issuer, strict, cb) { Ok(_) => Verdict::Accept, Err(e) => Verdict::Invalid(e.to_string()) },
            },
            Kind::Aspa => match Aspa::decode(b, strict) {
                Err(e) => Verdict::Decode(e.to_string()),
                Ok(o) => match o.process(issuer, strict, cb) { Ok(_) => Verdict::Accept, Err(e) => Verdict::Invalid(e.to_string()) },
            },
            Kind::Mft => match Manifest::decode(b, strict) {
                Err(e) => Verdict::Decode(e.to_string()),
                Ok(o) => match o.validate_at(issuer, strict, pki::time(T0)) { Ok(_) => Verdict::Accept, Err(e) => Verdict::Invalid(e.to_string()) },
            },
            Kind::Gen => match SignedObject::decode(b, strict) {
                Err(e) => Verdict::Decode(e.to_string()),
                Ok(o) => match entry {
                    Entry::At => match o.validate_at(issuer, strict, pki::time(T0)) { Ok(_) => Verdict::Accept, Err(e) => Verdict::Invalid(e.to_string()) },
                    Entry::Process(_) => match o.process(issuer, strict, cb) { Ok(_) => Verdict::Accept, Err(e) => Verdict::Invalid(e.to_string()) },
                },
            },
        }
    });
    let v = match r { Ok(v) => v, Err(p) => Verdict::Panic(p) };
    (v, (calls.get(), ski_ok.get()))
}

//------------ fixtures -----------------------------------------------------------------

struct Fx {
    s: PoolSigner,
    ca: ResourceCert,
}

impl Fx {
    fn load() -> Fx {
        let s = PoolSigner::load();
        let ta = pki::valid_ta(&s, K_TA, Res::all());
        let ca = pki::valid_ca(&s, &ta, K_TA, K_CA, Res::all());
        Fx { s, ca }
    }
}

#[derive(Clone, Copy, Debug, PartialEq, Eq, PartialOrd, Ord)]
enum EeV { Ok, WrongIssuerKey, Expired, AkiMismatch }

impl EeV {
    fn name(self) -> &'static str { match self { EeV::Ok => "ok", EeV::WrongIssuerKey => "ee-signed-by-other-key", EeV::Expired => "ee-expired", EeV::AkiMismatch => "ee-aki-mismatch" } }
}

/// EE certificate (key K_EE) under the CA (key K_CA).
fn ee_der(fx: &Fx, res: Res, v: EeV, serial: u128) -> Vec<u8> { ee_der_oc(fx, res, v, serial, Overclaim::Refuse) }

fn ee_der_oc(fx: &Fx, res: Res, v: EeV, serial: u128, overclaim: Overclaim) -> Vec<u8> {
    let mut sp = Spec::issued(pki::Kind::Ee, K_EE, K_CA, fx.s.ski(K_CA), res, overclaim);
    sp.validity = wide_validity();
    sp.serial = serial;
    match v {
        EeV::Ok => {}
        EeV::WrongIssuerKey => sp.signing_key = K_CA2,
        EeV::Expired => sp.validity = expired_validity(),
        EeV::AkiMismatch => sp.aki = Some(fx.s.ski(K_CA2)),
    }
    pki::build_cert_der(&fx.s, &sp)
}

fn default_res(kind: Kind) -> Res {
    match kind {
        Kind::Roa => Res { v4: Claim::Blocks(vec![(0x0a00_0000, 0x0aff_ffff)]), v6: Claim::Blocks(vec![(0x2001_0db8u128 << 96, (0x2001_0db9u128 << 96) - 1)]), asn: Claim::Missing },
        Kind::Mft => Res { v4: Claim::Inherit, v6: Claim::Inherit, asn: Claim::Inherit },
        Kind::Aspa => Res { v4: Claim::Missing, v6: Claim::Missing, asn: Claim::Blocks(vec![(64496, 64496)]) },
        Kind::Gen => Res { v4: Claim::Blocks(vec![(0x0a00_0000, 0x0a00_00ff)]), v6: Claim::Missing, asn: Claim::Blocks(vec![(64496, 64511)]) },
    }
}

fn default_content(kind: Kind) -> Vec<u8> {
    match kind {
        Kind::Roa => der::roa_content(None, 64496,
            Some(&[der::roa_addr_from(0x0a00_0000, 8, 32, Some(24)), der::roa_addr_from(0x0a01_0200, 24, 32, None)]),
            Some(&[der::roa_addr_from(0x2001_0db8u128 << 96, 32, 128, Some(48))])),
        Kind::Mft => mft_content(&[(b"a.roa".to_vec(), 1), (b"b.cer".to_vec(), 2)]),
        Kind::Aspa => der::aspa_content(Some(1), 64496, &[64497, 64498]),
        Kind::Gen => b"arbitrary content \x00\x01\xff".to_vec(),
    }
}

fn mft_content(files: &[(Vec<u8>, u8)]) -> Vec<u8> {
    let entries: Vec<MftEntry> = files.iter().map(|(n, h)| MftEntry { name: n.clone(), hash_unused: 0, hash: vec![*h; 32] }).collect();
    der::manifest_content(None, &[1], der::gentime(civil(T0 - 3600)), der::gentime(civil(T0 + DAY)), der::OID_SHA256, &entries)
}

//------------ the plan of one object ----------------------------------------------------

#[derive(Clone, Copy, Debug, PartialEq, Eq, PartialOrd, Ord)]
enum DigestV { Ok, FlipFirst, FlipLast, Short31, Long33, Empty, OfOtherContent,
    /// the correct digest of ANOTHER valid content of the kind (entry 1 of its content menu); history subjects only
    OfSibling,
    /// a value of this many octets derived from the correct digest (identifier.spelling only)
    Spell(u16, Fill) }
#[derive(Clone, Copy, Debug, PartialEq, Eq, PartialOrd, Ord)]
enum SigV { Ok, OtherKey, OverImplicitTag, OverContent, FlipLastBit,
    /// the correct signature value without its last octet / without any octet (history predecessors only)
    Short, Empty }
#[derive(Clone, Copy, Debug, PartialEq, Eq, PartialOrd, Ord)]
enum SidV { Ok, OtherSki, FlipLastBit,
    /// a value of this many octets derived from the EE certificate's subject key identifier (identifier.spelling only)
    Spell(u16, Fill) }
#[derive(Clone, Copy, Debug, PartialEq, Eq, PartialOrd, Ord)]
enum CtV { Ok, AttrOther, EncapOther,
    /// the object's content type with arcs dropped / appended (see `ct_spell`), in the attribute resp. in encapContentInfo (identifier.spelling only)
    AttrSpell(i8), EncapSpell(i8) }
#[derive(Clone, Copy, Debug, PartialEq, Eq, PartialOrd, Ord)]
enum CardV { Ok, DupSame(usize, usize), DupOther(usize, usize), Missing(usize) }

const ATTR_NAMES: [&str; 3] = ["ct", "md", "st"];

#[derive(Clone, Debug)]
struct Plan {
    kind: Kind,
    ect: Vec<u64>,
    content: Vec<u8>,
    order: [usize; 3],
    st_gen: bool,
    /// NULL parameters of the digest algorithm: bit 0 in SignedData.digestAlgorithms, bit 1 in SignerInfo.digestAlgorithm (independent)
    digest_null: u8,
    sig_alg: u8,
    digest: DigestV,
    sig: SigV,
    sid: SidV,
    ee: EeV,
    ct: CtV,
    card: CardV,
    /// value of the signing-time attribute (seconds since the epoch); no stated condition mentions it
    st_secs: i64,
    /// further signed attributes: (position in the written list, complete attribute TLV)
    extra_attrs: Vec<(usize, Vec<u8>)>,
    /// further members of the certificates [0] set, written after the EE certificate
    extra_certs: Vec<Vec<u8>>,
    /// members of the crls [1] set (empty = field absent)
    crls: Vec<Vec<u8>>,
}

impl Plan {
    fn base(kind: Kind) -> Plan {
        Plan { kind, ect: kind.ect(), content: default_content(kind), order: [0, 1, 2], st_gen: false, digest_null: 0, sig_alg: 0,
               digest: DigestV::Ok, sig: SigV::Ok, sid: SidV::Ok, ee: EeV::Ok, ct: CtV::Ok, card: CardV::Ok,
               st_secs: T0 - 60, extra_attrs: Vec::new(), extra_certs: Vec::new(), crls: Vec::new() }
    }
    fn all_ok(&self) -> bool {
        self.digest == DigestV::Ok && self.sig == SigV::Ok && self.sid == SidV::Ok && self.ee == EeV::Ok && self.ct == CtV::Ok && self.card == CardV::Ok
    }
    fn violated(&self) -> Vec<String> {
        let mut v = Vec::new();
        if self.digest != DigestV::Ok { v.push(format!("digest:{:?}", self.digest)) }
        if self.sig != SigV::Ok { v.push(format!("signature:{:?}", self.sig)) }
        if self.sid != SidV::Ok { v.push(format!("sid:{:?}", self.sid)) }
        if self.ee != EeV::Ok { v.push(format!("ee:{}", self.ee.name())) }
        if self.ct != CtV::Ok { v.push(format!("content-type:{:?}", self.ct)) }
        if self.card != CardV::Ok { v.push(format!("cardinality:{:?}", self.card)) }
        v
    }
    fn witness(&self, strict: bool) -> String {
        format!("kind={} order={} st={} digest-null(set|signerinfo<<1)={} sigalg={} content={}B violated=[{}] strict={}",
            self.kind.name(), self.order.iter().map(|&i| ATTR_NAMES[i]).collect::<Vec<_>>().join(","),
            if self.st_gen { "generalized" } else { "utc" }, self.digest_null, self.sig_alg, self.content.len(),
            self.violated().join(" "), strict)
    }
}

fn sig_alg_tlv(n: u8) -> Vec<u8> {
    match n {
        0 => der::alg_rsa_encryption(),
        1 => der::alg_sha256_with_rsa(),
        2 => der::seq(&[der::oid(der::OID_RSA_ENCRYPTION)]),
        _ => der::seq(&[der::oid(der::OID_SHA256_WITH_RSA)]),
    }
}

/// The three mandatory attributes [content-type, message-digest, signing-time].
fn base_attrs(ct: &[u64], digest: &[u8], st_gen: bool, secs: i64) -> [Vec<u8>; 3] {
    let t = if st_gen { der::gentime(civil(secs)) } else { der::utctime(civil(secs)) };
    [der::attr_content_type(ct), der::attr_message_digest(digest), der::attr_signing_time(t)]
}

/// Assembles the attribute list of a plan (in written order).
fn plan_attrs(p: &Plan) -> Vec<Vec<u8>> {
    let good = sha256(&p.content);
    let dg: Vec<u8> = match p.digest {
        DigestV::Ok => good,
        DigestV::FlipFirst => { let mut d = good; d[0] ^= 0x80; d }
        DigestV::FlipLast => { let mut d = good; d[31] ^= 0x01; d }
        DigestV::Short31 => good[..31].to_vec(),
        DigestV::Long33 => { let mut d = good; d.push(0); d }
        DigestV::Empty => Vec::new(),
        DigestV::OfOtherContent => { let mut c = p.content.clone(); c.push(0); sha256(&c) }
        DigestV::OfSibling => sha256(&content_menu(p.kind)[1].covered),
        DigestV::Spell(l, f) => spell_id(&good, l as usize, f),
    };
    let ct_attr_oid = match p.ct { CtV::AttrOther => p.kind.other_ct(), CtV::AttrSpell(n) => ct_spell(&p.ect, n), _ => p.ect.clone() };
    let base = base_attrs(&ct_attr_oid, &dg, p.st_gen, p.st_secs);
    // the "other value" copies used for DupOther
    let alt = base_attrs(&[1, 2, 3, 4], &sha256(b"other"), p.st_gen, T0 - 120);
    let mut attrs: Vec<Vec<u8>> = p.order.iter().map(|&i| base[i].clone()).collect();
    match p.card {
        CardV::Ok => {}
        CardV::DupSame(i, pos) => attrs.insert(pos, base[i].clone()),
        CardV::DupOther(i, pos) => attrs.insert(pos, alt[i].clone()),
        CardV::Missing(i) => attrs.retain(|a| *a != base[i]),
    }
    for (pos, a) in &p.extra_attrs { let at = (*pos).min(attrs.len()); attrs.insert(at, a.clone()) }
    attrs
}

fn assemble(fx: &Fx, p: &Plan, cert: &[u8]) -> Vec<u8> {
    let attrs = plan_attrs(p);
    let tbs = match p.sig {
        SigV::OverImplicitTag => der::tlv(0xA0, &der::cat(&attrs)),
        SigV::OverContent => p.content.clone(),
        _ => der::signed_attrs_tbs(&attrs),
    };
    let key = if p.sig == SigV::OtherKey { K_OTHER } else { K_EE };
    let mut signature = fx.s.sign_raw(key, &tbs);
    if p.sig == SigV::FlipLastBit { let n = signature.len(); signature[n - 1] ^= 1 }
    if p.sig == SigV::Short { signature.pop(); }
    if p.sig == SigV::Empty { signature.clear() }
    let sid: Vec<u8> = match p.sid {
        SidV::Ok => fx.s.key(K_EE).ski.to_vec(),
        SidV::OtherSki => fx.s.key(K_OTHER).ski.to_vec(),
        SidV::FlipLastBit => { let mut k = fx.s.key(K_EE).ski.to_vec(); k[19] ^= 1; k }
        SidV::Spell(l, f) => spell_id(&fx.s.key(K_EE).ski, l as usize, f),
    };
    let ect = match p.ct { CtV::EncapOther => p.kind.other_ct(), CtV::EncapSpell(n) => ct_spell(&p.ect, n), _ => p.ect.clone() };
    der::signed_data(&SignedDataParts {
        version: 3,
        digest_alg_set: der::set_unsorted(&[der::alg_sha256(p.digest_null & 1 != 0)]),
        econtent_type: ect,
        econtent: p.content.clone(),
        certificates: { let mut c = vec![cert.to_vec()]; c.extend(p.extra_certs.iter().cloned()); c },
        crls: p.crls.clone(),
        si_version: 3,
        sid,
        si_digest_alg: der::alg_sha256(p.digest_null & 2 != 0),
        signed_attrs: attrs,
        sig_alg: sig_alg_tlv(p.sig_alg),
        signature,
    })
}

/// EE certificates of the condition spaces: (kind, EeV) -> DER.
fn ee_table(fx: &Fx) -> BTreeMap<(Kind, EeV), Vec<u8>> {
    let mut jobs = Vec::new();
    for k in KINDS { for v in [EeV::Ok, EeV::WrongIssuerKey, EeV::Expired, EeV::AkiMismatch] { jobs.push((k, v)) } }
    jobs.par_iter().map(|&(k, v)| ((k, v), ee_der(fx, default_res(k), v, 100 + k as u128))).collect()
}

//------------ variant menus ------------------------------------------------------------

fn digest_variants() -> Vec<DigestV> { vec![DigestV::FlipFirst, DigestV::FlipLast, DigestV::Short31, DigestV::Long33, DigestV::Empty, DigestV::OfOtherContent] }
fn sig_variants() -> Vec<SigV> { vec![SigV::OtherKey, SigV::OverImplicitTag, SigV::OverContent, SigV::FlipLastBit] }
fn sid_variants() -> Vec<SidV> { vec![SidV::OtherSki, SidV::FlipLastBit] }
fn ee_variants() -> Vec<EeV> { vec![EeV::WrongIssuerKey, EeV::Expired, EeV::AkiMismatch] }
fn ct_variants() -> Vec<CtV> { vec![CtV::AttrOther, CtV::EncapOther] }
fn card_variants(full: bool) -> Vec<CardV> {
    let mut v = Vec::new();
    for i in 0..3 { v.push(CardV::Missing(i)) }
    for i in 0..3 {
        if full { for pos in 0..4 { v.push(CardV::DupSame(i, pos)) } } else { v.push(CardV::DupSame(i, 3)) }
    }
    if full { for i in 0..3 { for pos in [0, 3] { v.push(CardV::DupOther(i, pos)) } } }
    v
}

/// One condition = one setter applied to a plan.
#[derive(Clone, Copy, Debug)]
enum Viol { D(DigestV), S(SigV), I(SidV), E(EeV), C(CtV), K(CardV) }

impl Viol {
    fn cond(self) -> u8 { match self { Viol::D(_) => 0, Viol::S(_) => 1, Viol::I(_) => 2, Viol::E(_) => 3, Viol::C(_) => 4, Viol::K(_) => 5 } }
    fn apply(self, p: &mut Plan) {
        match self { Viol::D(x) => p.digest = x, Viol::S(x) => p.sig = x, Viol::I(x) => p.sid = x, Viol::E(x) => p.ee = x, Viol::C(x) => p.ct = x, Viol::K(x) => p.card = x }
    }
}

fn all_single() -> Vec<Viol> {
    let mut v = Vec::new();
    v.extend(digest_variants().into_iter().map(Viol::D));
    v.extend(sig_variants().into_iter().map(Viol::S));
    v.extend(sid_variants().into_iter().map(Viol::I));
    v.extend(ee_variants().into_iter().map(Viol::E));
    v.extend(ct_variants().into_iter().map(Viol::C));
    v.extend(card_variants(true).into_iter().map(Viol::K));
    v
}

/// Representatives used for the pairs.
fn pair_reps() -> Vec<Viol> {
    let mut v = vec![Viol::D(DigestV::FlipFirst), Viol::S(SigV::OtherKey), Viol::S(SigV::OverImplicitTag), Viol::I(SidV::OtherSki)];
    v.extend(ee_variants().into_iter().map(Viol::E));
    v.push(Viol::C(CtV::AttrOther));
    v.extend(card_variants(false).into_iter().map(Viol::K));
    v
}

//------------ helpers --------------------------------------------------------------------

struct Tally { oc: Mutex<BTreeMap<&'static str, u64>>, distinct: Mutex<BTreeSet<[u8; 8]>> }
impl Tally {
    fn new() -> Tally { Tally { oc: Mutex::new(BTreeMap::new()), distinct: Mutex::new(BTreeSet::new()) } }
    fn add(&self, class: &'static str) { *self.oc.lock().unwrap().entry(class).or_insert(0) += 1 }
    fn seen(&self, bytes: &[u8]) { let h = sha256(bytes); let mut k = [0u8; 8]; k.copy_from_slice(&h[..8]); self.distinct.lock().unwrap().insert(k); }
    fn flush(&self, sp: &Space) { sp.merge_outcomes(&self.oc.lock().unwrap()); sp.nontrivial(self.distinct.lock().unwrap().len() as u64); }
}

/// accept <=> expected; reports under `oracle`.
fn expect(_ctx: &Ctx, oracle_accept: &str, oracle_reject: &str, want_accept: bool, v: &Verdict, witness: impl FnOnce() -> String) {
    if let Verdict::Panic(p) = v {
        fail("C02.no_panic", witness(), p.clone());
        return;
    }
    if want_accept && !v.accepted() {
        fail(oracle_accept, witness(), format!("all stated conditions hold but the object was rejected: {}", trunc(&v.show(), 200)));
    } else if !want_accept && v.accepted() {
        fail(oracle_reject, witness(), "a stated condition is violated but the object was accepted");
    }
}

/// Searches (n, j) with 0 <= j <= n * jmul such that make(n, j).len() == target
/// (make must grow by one octet per step of j, apart from header growth).
fn tune(target: usize, per_item_min: usize, jmul: usize, make: &dyn Fn(usize, usize) -> Vec<u8>) -> Option<Vec<u8>> {
    let hi = target / per_item_min + 2;
    let lo = (target / (per_item_min + jmul)).saturating_sub(40).max(1);
    for n in lo..=hi {
        let l0 = make(n, 0).len();
        if l0 > target { break }
        let l1 = make(n, n * jmul).len();
        if l1 < target { continue }
        if target - l0 <= n * jmul {
            let b = make(n, target - l0);
            if b.len() == target { return Some(b) }
        }
        for j in 0..=n * jmul {
            let b = make(n, j);
            if b.len() == target { return Some(b) }
            if b.len() > target { break }
        }
    }
    None
}

fn roa_sized(n: usize, j: usize) -> Vec<u8> {
    // n distinct v4 prefixes under 10.0.0.0/8; the first j are /25 (one octet longer), the rest /24
    let addrs: Vec<RoaAddr> = (0..n).map(|i| {
        let base = 0x0a00_0000u128 | ((i as u128) << 8);
        if i < j { der::roa_addr_from(base, 25, 32, None) } else { der::roa_addr_from(base, 24, 32, None) }
    }).collect();
    der::roa_content(None, 64496, Some(&addrs), None)
}

fn mft_sized(n: usize, j: usize) -> Vec<u8> {
    // n entries "f000000.roa"; j extra stem characters spread evenly over the entries (at most 40 each)
    let files: Vec<(Vec<u8>, u8)> = (0..n).map(|i| {
        let extra = j / n + if i < j % n { 1 } else { 0 };
        (format!("f{:06}{}.roa", i, "x".repeat(extra)).into_bytes(), (i % 251) as u8)
    }).collect();
    mft_content(&files)
}

fn aspa_sized(n: usize, j: usize) -> Vec<u8> {
    // providers ascending: n - j three-octet values first (70000..), then j four-octet values (0x0100_0000..)
    let mut p: Vec<u128> = (0..(n - j)).map(|i| 70_000 + i as u128).collect();
    p.extend((0..j).map(|i| 0x0100_0000 + i as u128));
    der::aspa_content(Some(1), 64496, &p)
}

//------------ deterministic failure reporting ---------------------------------------------
// Failures found on worker threads are collected and handed to the report in
// sorted order, so that the (at most three) printed witnesses per oracle do
// not depend on thread timing.

static FAILS: Mutex<Vec<(String, String, String)>> = Mutex::new(Vec::new());

fn fail(oracle: &str, witness: impl Into<String>, detail: impl Into<String>) {
    FAILS.lock().unwrap().push((oracle.to_string(), witness.into(), detail.into()));
}

fn flush_fails(ctx: &Ctx) {
    let mut v = std::mem::take(&mut *FAILS.lock().unwrap());
    v.sort();
    for (o, w, d) in v { ctx.fail(&o, w, d) }
}

//------------ main ------------------------------------------------------------------------

fn main() {
    if std::env::args().any(|a| a == "--observe-env") {
        rpki_verif::engine::report::install_quiet_panic_hook();
        for l in env_observations() { println!("{l}") }
        return;
    }
    let ctx = Ctx::new("C02", "exploration");
    ctx.assume("aws-lc RSA PKCS#1 v1.5 / SHA-256 / SHA-1 are correct (used by both the library and the independent signer)");
    ctx.assume("EE certificate validation itself is C01's subject; here three representative EE failures are used");
    ctx.assume("Roa::process / Aspa::process / SignedObject::process read the wall clock: the EE certificates are valid from 2023-11-13 to 2049-12-31, the run must happen in between (interactions.time: after 2023-11-15T22:13:20Z and before 2049-12-31T23:59:59Z)");
    ctx.assume("keys are the 8 fixed pool keys");
    let fx = Fx::load();
    let thorough = ctx.tier.is_thorough();
    let perms: Vec<[usize; 3]> = permutations(3).into_iter().map(|p| [p[0], p[1], p[2]]).collect();
    let ees = ee_table(&fx);

    //--- (1) baseline: everything satisfied ------------------------------------------------
    {
        let sp = ctx.space("baseline.accept",
            "kind x 6 signed-attribute orders x signing-time form x digest-algorithm parameters NULL/absent independently in SignedData.digestAlgorithms and SignerInfo.digestAlgorithm (4) x 4 signature-algorithm spellings x strict/relaxed, all conditions satisfied; plus a digest-violated and a sid-violated twin per (kind, order) so that both classes occur; non-trivial = distinct object encodings");
        let mut jobs = Vec::new();
        for k in KINDS { for o in &perms { for st_gen in [false, true] { for dn in 0..4u8 { for sa in 0..4u8 { for strict in [true, false] {
            let mut p = Plan::base(k); p.order = *o; p.st_gen = st_gen; p.digest_null = dn; p.sig_alg = sa;
            jobs.push((p, strict));
        }}}}}}
        for k in KINDS { for o in &perms {
            let mut p = Plan::base(k); p.order = *o; p.digest = DigestV::FlipLast; jobs.push((p, true));
            let mut p = Plan::base(k); p.order = *o; p.sid = SidV::OtherSki; jobs.push((p, true));
        } }
        let t = Tally::new();
        jobs.par_iter().for_each(|(p, strict)| {
            let bytes = assemble(&fx, p, &ees[&(p.kind, p.ee)]);
            let (v, _) = run(&fx, p.kind, &bytes, &fx.ca, *strict, Entry::At);
            sp.eval(); t.add(v.class()); t.seen(&bytes);
            expect(&ctx, "C02.baseline.accept", "C02.cond.single.reject", p.all_ok(), &v, || p.witness(*strict));
        });
        t.flush(&sp);
        let p = Plan::base(Kind::Gen);
        sp.sample_str(|| format!("{} -> signed attributes {}", p.witness(true), hex(&der::cat(&plan_attrs(&p)))));
        sp.done(true, "4 kinds x 6 orders x 2 time forms x 4 x 4 algorithm spellings x 2 modes");
    }

    //--- (2) signed-attribute total size ----------------------------------------------------
    {
        let sp = ctx.space("attrs.size",
            "generic object, content-type OID 1.2(.1)^k for k = 0..=max, x UTCTime/GeneralizedTime signing time x 6 orders, correctly signed over the DER SET OF encoding: all accepted; twins with the signature over the [0]-tagged encoding or a wrong digest (first order only): rejected; non-trivial = distinct total lengths of the signed attributes reached (reported with the gaps in 100..=300)");
        let kmax = 230usize;
        let mut jobs = Vec::new();
        let modes: &[bool] = if thorough { &[true, false] } else { &[true] };
        for k in 0..=kmax { for st_gen in [false, true] { for (oi, o) in perms.iter().enumerate() { for &strict in modes {
            // the [0]-tag twin only for the first order (it needs one more signature each)
            jobs.push((k, st_gen, *o, 0u8, strict));
            if oi == 0 { jobs.push((k, st_gen, *o, 1u8, strict)); jobs.push((k, st_gen, *o, 2u8, strict)) }
        }}}}
        let lens: Mutex<BTreeSet<usize>> = Mutex::new(BTreeSet::new());
        let t = Tally::new();
        let cert = &ees[&(Kind::Gen, EeV::Ok)];
        jobs.par_iter().for_each(|&(k, st_gen, o, twin, strict)| {
            let mut p = Plan::base(Kind::Gen);
            let mut arcs = vec![1u64, 2]; arcs.extend(std::iter::repeat(1).take(k));
            p.ect = arcs; p.order = o; p.st_gen = st_gen;
            if twin == 1 { p.sig = SigV::OverImplicitTag }
            if twin == 2 { p.digest = DigestV::FlipFirst }
            let twin_name = ["SET OF", "[0]-tagged", "SET OF (digest attribute wrong)"][twin as usize];
            let twin = twin != 0;
            let alen = der::cat(&plan_attrs(&p)).len();
            let bytes = assemble(&fx, &p, cert);
            let (v, _) = run(&fx, Kind::Gen, &bytes, &fx.ca, strict, Entry::At);
            sp.eval(); t.add(v.class());
            if !twin { lens.lock().unwrap().insert(alen); }
            expect(&ctx, "C02.attrs.size.accept", "C02.attrs.size.reject", !twin, &v,
                || format!("kind=generic attrs_len={alen} ct_oid_octets={} order={} st={} signed-over={} strict={strict}", k + 1,
                    o.iter().map(|&i| ATTR_NAMES[i]).collect::<Vec<_>>().join(","), if st_gen { "generalized" } else { "utc" },
                    twin_name));
        });
        // the documented limit: 65534 / 65535 octets must be accepted, 65536 / 65537 are counted only - but nothing may panic
        for target in [65534usize, 65535, 65536, 65537] {
            let mut found = None;
            for k in (target - 200)..target {
                let mut p = Plan::base(Kind::Gen);
                let mut arcs = vec![1u64, 2]; arcs.extend(std::iter::repeat(1).take(k)); p.ect = arcs;
                if der::cat(&plan_attrs(&p)).len() == target { found = Some(p); break }
            }
            let Some(p) = found else { ctx.machinery_error(format!("attrs.size cannot reach {target} octets")); continue };
            let bytes = assemble(&fx, &p, cert);
            for strict in [true, false] {
                let (v, _) = run(&fx, Kind::Gen, &bytes, &fx.ca, strict, Entry::At);
                sp.eval();
                let wit = || format!("kind=generic attrs_len={target} order=ct,md,st st=utc signed-over=SET OF strict={strict}");
                if target <= 65535 { t.add(v.class()); lens.lock().unwrap().insert(target); expect(&ctx, "C02.attrs.size.accept", "-", true, &v, wit) }
                else { t.add(match &v { Verdict::Accept => "over-limit-accepted", Verdict::Panic(_) => "panic", _ => "over-limit-rejected" }); if let Verdict::Panic(pn) = &v { fail("C02.no_panic", wit(), pn.clone()) } }
            }
        }
        let lens = lens.into_inner().unwrap();
        let gaps: Vec<usize> = (100..=300).filter(|l| !lens.contains(l)).collect();
        sp.nontrivial(lens.len() as u64);
        sp.merge_outcomes(&t.oc.lock().unwrap());
        sp.set("attrs_len_min", serde_json::json!(lens.iter().next()));
        sp.set("attrs_len_max", serde_json::json!(lens.iter().last()));
        sp.set("unreached_lengths_100_300", serde_json::json!(gaps));
        sp.sample_str(|| format!("lengths reached: {}..={} ({} distinct), unreached in 100..=300: {:?}", lens.iter().next().unwrap(), lens.iter().last().unwrap(), lens.len(), gaps));
        if !(lens.contains(&127) && lens.contains(&128) && lens.contains(&255) && lens.contains(&256)) {
            ctx.machinery_error("attrs.size does not reach 127/128/255/256");
        }
        sp.done(true, &format!("content-type OID of 1..={} octets x 2 time forms x 6 orders x {} mode(s); totals 65534..=65537", kmax + 1, modes.len()));
    }

    //--- (3) content sizes --------------------------------------------------------------------
    {
        let sp = ctx.space("content.size",
            "eContent of exactly {0,1,127,128,65535,65536} octets for the generic kind; ROA / manifest / ASPA eContent tuned to exactly {127,128,65535,65536} octets plus the default; x 2 attribute orders, accepted; twins with the last digest bit flipped / signed by another key, rejected; non-trivial = distinct (kind, size) reached");
        let mut contents: Vec<(Kind, Vec<u8>)> = Vec::new();
        for n in [0usize, 1, 127, 128, 65535, 65536] {
            contents.push((Kind::Gen, (0..n).map(|i| (i * 7 + 3) as u8).collect()));
        }
        let mut missing = Vec::new();
        for target in [127usize, 128, 65535, 65536] {
            match tune(target, 8, 1, &roa_sized) { Some(c) => contents.push((Kind::Roa, c)), None => missing.push(format!("roa/{target}")) }
            match tune(target, 50, 40, &mft_sized) { Some(c) => contents.push((Kind::Mft, c)), None => missing.push(format!("mft/{target}")) }
            match tune(target, 5, 1, &aspa_sized) { Some(c) => contents.push((Kind::Aspa, c)), None => missing.push(format!("aspa/{target}")) }
        }
        for k in [Kind::Roa, Kind::Mft, Kind::Aspa] { contents.push((k, default_content(k))) }
        // the ASPA EE may not carry IP resources; the ROA EE must cover 10/8
        let mut jobs = Vec::new();
        for (ci, _) in contents.iter().enumerate() { for o in [perms[0], perms[5]] { for bad in [0u8, 1, 2] { jobs.push((ci, o, bad)) } } }
        let t = Tally::new();
        let sizes: Mutex<BTreeSet<(Kind, usize)>> = Mutex::new(BTreeSet::new());
        jobs.par_iter().for_each(|&(ci, o, bad)| {
            let (k, c) = &contents[ci];
            let mut p = Plan::base(*k); p.content = c.clone(); p.order = o;
            if bad == 1 { p.digest = DigestV::FlipLast }
            if bad == 2 { p.sig = SigV::OtherKey }
            let bad = bad != 0;
            let bytes = assemble(&fx, &p, &ees[&(*k, EeV::Ok)]);
            let (v, _) = run(&fx, *k, &bytes, &fx.ca, true, Entry::At);
            sp.eval(); t.add(v.class());
            sizes.lock().unwrap().insert((*k, c.len()));
            expect(&ctx, "C02.content.size.accept", "C02.content.size.reject", !bad, &v, || p.witness(true));
        });
        let sizes = sizes.into_inner().unwrap();
        sp.nontrivial(sizes.len() as u64);
        sp.merge_outcomes(&t.oc.lock().unwrap());
        sp.set("sizes", serde_json::json!(sizes.iter().map(|(k, n)| format!("{}:{}", k.name(), n)).collect::<Vec<_>>()));
        sp.set("sizes_not_reachable", serde_json::json!(missing));
        sp.sample_str(|| format!("sizes: {:?}", sizes.iter().map(|(k, n)| format!("{}:{}", k.name(), n)).collect::<Vec<_>>()));
        sp.done(true, "6 generic sizes + 4 tuned sizes x 3 typed kinds + defaults, x 2 orders x {good, bad digest, other key}");
    }

    //--- (4) condition vector -----------------------------------------------------------------
    {
        let sp = ctx.space("cond.vector",
            "kind x 6 orders x strict/relaxed x {all satisfied; every variant of every single condition violated (digest 6, signature 4, sid 2, EE 3, content-type 2, cardinality 21); all pairs of violations of two different conditions (quick: over 14 representative variants; thorough: over all 38 variants)}; plus every single violation x all 32 benign spellings of the wrapper (time form, digest-algorithm parameters in either place, 4 signature-algorithm spellings) x 2 orders; non-trivial = distinct object encodings with at least one condition violated");
        let singles = all_single();
        let reps = if thorough { all_single() } else { pair_reps() };
        let mut viols: Vec<Vec<Viol>> = vec![vec![]];
        for s in &singles { viols.push(vec![*s]) }
        for (i, a) in reps.iter().enumerate() { for b in reps.iter().skip(i + 1) { if a.cond() != b.cond() { viols.push(vec![*a, *b]) } } }
        // (kind, order, mode, violation set, spelling = time form / digest-alg NULL / signature-algorithm spelling)
        let mut jobs = Vec::new();
        for k in KINDS { for o in &perms { for strict in [true, false] { for (vi, _) in viols.iter().enumerate() { jobs.push((k, *o, strict, vi, (false, 0u8, 0u8))) } } } }
        // every single violation crossed with every benign spelling of the wrapper (two orders)
        for k in KINDS { for o in [perms[0], perms[4]] { for vi in 0..=singles.len() { for st_gen in [false, true] { for dn in 0..4u8 { for sa in 0..4u8 {
            if (st_gen, dn, sa) != (false, 0, 0) { jobs.push((k, o, true, vi, (st_gen, dn, sa))) }
        }}}}}}
        let t = Tally::new();
        let by_cond: Mutex<BTreeMap<String, u64>> = Mutex::new(BTreeMap::new());
        jobs.par_iter().for_each(|&(k, o, strict, vi, (st_gen, dn, sa))| {
            let mut p = Plan::base(k); p.order = o; p.st_gen = st_gen; p.digest_null = dn; p.sig_alg = sa;
            for v in &viols[vi] { v.apply(&mut p) }
            let bytes = assemble(&fx, &p, &ees[&(k, p.ee)]);
            let (v, _) = run(&fx, k, &bytes, &fx.ca, strict, Entry::At);
            sp.eval(); t.add(v.class());
            if !p.all_ok() { t.seen(&bytes) }
            let n = viols[vi].len();
            let (oa, or) = ("C02.cond.all.accept", if n == 1 { "C02.cond.single.reject" } else { "C02.cond.pair.reject" });
            expect(&ctx, oa, or, p.all_ok(), &v, || p.witness(strict));
            if n == 1 && !v.accepted() {
                *by_cond.lock().unwrap().entry(format!("{}:{}", p.violated().join(""), v.class())).or_insert(0) += 1;
            }
        });
        t.flush(&sp);
        sp.set("violation_sets", serde_json::json!(viols.len()));
        sp.set("single_violation_rejections", serde_json::json!(*by_cond.lock().unwrap()));
        let mut p = Plan::base(Kind::Roa); p.sid = SidV::OtherSki; p.ee = EeV::Expired;
        sp.sample_str(|| p.witness(true));
        sp.done(true, &format!("{} violation sets (1 + {} single + pairs) x 4 kinds x 6 orders x 2 modes; (1 + {}) x 31 further spellings x 2 orders x 4 kinds", viols.len(), singles.len(), singles.len()));
    }

    //--- (4b) evaluation instants against the EE certificate's validity ----------------------------
    {
        let sp = ctx.space("ee.validity.instants",
            "manifest and generic object (the kinds with a timed entry point), 6 orders, both modes, EE certificate valid [T0-1d, 2049-12-31T23:59:59]: validate_at T0 and, around each of notBefore and notAfter, at bound -1 s, -1 ns, the bound itself, +1 ns, +0.5 s, +0.999999999 s, +1 s: accepted <=> notBefore <= t <= notAfter compared exactly (no rounding to whole seconds); non-trivial = all instants but T0");
        let mut instants: Vec<(i64, u32, bool)> = vec![(T0, 0, true)];
        for (bound, lower) in [(T0 - DAY, true), (FAR, false)] {
            // (seconds, nanoseconds, before-or-at the bound)
            for (s, n, at_or_before, before) in [(bound - 1, 0, true, true), (bound - 1, 999_999_999, true, true), (bound, 0, true, false), (bound, 1, false, false),
                                         (bound, 500_000_000, false, false), (bound, 999_999_999, false, false), (bound + 1, 0, false, false)] {
                instants.push((s, n, if lower { !before } else { at_or_before }));
            }
        }
        let at = |s: i64, n: u32| Time::new(chrono::DateTime::from_timestamp(s, n).unwrap());
        for k in [Kind::Mft, Kind::Gen] { for o in &perms {
            let mut p = Plan::base(k); p.order = *o;
            let bytes = assemble(&fx, &p, &ees[&(k, EeV::Ok)]);
            for strict in [true, false] { for &(t, ns, want) in &instants {
                let r = guard(|| match k {
                    Kind::Mft => match Manifest::decode(Bytes::copy_from_slice(&bytes), strict) {
                        Err(e) => Verdict::Decode(e.to_string()),
                        Ok(m) => match m.validate_at(&fx.ca, strict, at(t, ns)) { Ok(_) => Verdict::Accept, Err(e) => Verdict::Invalid(e.to_string()) } },
                    _ => match SignedObject::decode(Bytes::copy_from_slice(&bytes), strict) {
                        Err(e) => Verdict::Decode(e.to_string()),
                        Ok(m) => match m.validate_at(&fx.ca, strict, at(t, ns)) { Ok(_) => Verdict::Accept, Err(e) => Verdict::Invalid(e.to_string()) } },
                });
                let v = match r { Ok(v) => v, Err(pn) => Verdict::Panic(pn) };
                sp.eval(); sp.outcome(v.class()); if t != T0 { sp.nontrivial(1) }
                expect(&ctx, "C02.ee.instants.accept", "C02.ee.instants.reject", want, &v, || format!("{} evaluated at unix {t} s + {ns} ns (EE valid [{}, {}])", p.witness(strict), T0 - DAY, FAR));
            }}
        }}
        sp.sample_str(|| format!("kind=mft evaluated at unix {} s + 1 ns (notAfter + 1 ns) -> rejected", FAR));
        sp.done(true, "2 kinds x 6 orders x 2 modes x 15 instants");
    }

    //--- (4c) history independence: the verdict depends on (object, issuer, time), not on earlier validations --------
    {
        let sp = ctx.space("history.independence",
            "one decoded value per kind and mode, validated repeatedly on clones of that same value over all ordered pairs and triples of settings: manifest / generic: issuer {the CA, another CA with another key} x instant {T0, before notBefore, after notAfter}; ROA / ASPA / generic through process(): issuer x callback {Ok, Err}; every verdict must equal the verdict of a freshly decoded value under the same setting (and the model: accepted <=> right issuer, inside the window, callback Ok); non-trivial = steps that follow a step with a different verdict");
        let ta = pki::valid_ta(&fx.s, K_TA, Res::all());
        let ca2 = pki::valid_ca(&fx.s, &ta, K_TA, K_CA2, Res::all());
        let issuers: [(&ResourceCert, &str); 2] = [(&fx.ca, "ca"), (&ca2, "other-ca")];
        let times = [(T0, "T0"), (T0 - DAY - 1, "before"), (FAR + 1, "after")];
        // sequences of setting indexes of length 2 and 3
        let seqs = |n: usize| -> Vec<Vec<usize>> {
            let mut v = Vec::new();
            for a in 0..n { for b in 0..n { v.push(vec![a, b]); for c in 0..n { v.push(vec![a, b, c]) } } }
            v
        };
        for k in KINDS { for strict in [true, false] {
            let p = Plan::base(k);
            let bytes = assemble(&fx, &p, &ees[&(k, EeV::Ok)]);
            // one step on a given decoded value: returns accepted?
            enum Obj { Roa(Roa), Aspa(Aspa), Mft(Manifest), Gen(SignedObject) }
            let decode = || -> Option<Obj> {
                let b = Bytes::copy_from_slice(&bytes);
                match k {
                    Kind::Roa => Roa::decode(b, strict).ok().map(Obj::Roa),
                    Kind::Aspa => Aspa::decode(b, strict).ok().map(Obj::Aspa),
                    Kind::Mft => Manifest::decode(b, strict).ok().map(Obj::Mft),
                    Kind::Gen => SignedObject::decode(b, strict).ok().map(Obj::Gen),
                }
            };
            // settings: (issuer index, time index or callback verdict, timed?)
            let mut settings: Vec<(usize, usize, bool)> = Vec::new();
            if matches!(k, Kind::Mft | Kind::Gen) { for i in 0..2 { for t in 0..3 { settings.push((i, t, true)) } } }
            if !matches!(k, Kind::Mft) { for i in 0..2 { for cb in 0..2 { settings.push((i, cb, false)) } } }
            let step = |o: &Obj, st: (usize, usize, bool)| -> Result<bool, String> {
                let (issuer, _) = issuers[st.0];
                guard(|| {
                    let cb = |_: &rpki::repository::cert::Cert| -> Result<(), ValidationError> { if st.1 == 0 { Ok(()) } else { Err(VerificationError::new("revoked (callback)").into()) } };
                    match (o, st.2) {
                        (Obj::Mft(m), _) => m.clone().validate_at(issuer, strict, pki::time(times[st.1].0)).is_ok(),
                        (Obj::Gen(m), true) => m.clone().validate_at(issuer, strict, pki::time(times[st.1].0)).is_ok(),
                        (Obj::Gen(m), false) => m.clone().process(issuer, strict, cb).is_ok(),
                        (Obj::Roa(m), _) => m.clone().process(issuer, strict, cb).is_ok(),
                        (Obj::Aspa(m), _) => m.clone().process(issuer, strict, cb).is_ok(),
                    }
                })
            };
            let show = |st: (usize, usize, bool)| if st.2 { format!("({}, {})", issuers[st.0].1, times[st.1].1) } else { format!("({}, callback {})", issuers[st.0].1, if st.1 == 0 { "Ok" } else { "Err" }) };
            let model = |st: (usize, usize, bool)| st.0 == 0 && st.1 == 0;
            // fresh verdicts
            let mut fresh = Vec::new();
            for &st in &settings {
                let Some(o) = decode() else { fail("C02.history.fresh", format!("{} decode", p.witness(strict)), "valid object does not decode"); fresh.push(false); continue };
                let r = step(&o, st);
                sp.eval();
                match &r {
                    Err(pn) => fail("C02.no_panic", format!("{} fresh {}", p.witness(strict), show(st)), pn.clone()),
                    Ok(a) => { sp.outcome(if *a { "accepted" } else { "rejected" });
                        if *a != model(st) { fail("C02.history.fresh", format!("{} fresh {}", p.witness(strict), show(st)), format!("accepted={a}, model says {}", model(st))) } }
                }
                fresh.push(r.unwrap_or(false));
            }
            let Some(shared) = decode() else { continue };
            for sq in seqs(settings.len()) {
                let mut prev: Option<bool> = None;
                for (pos, &si) in sq.iter().enumerate() {
                    let r = step(&shared, settings[si]);
                    sp.eval();
                    let a = match r { Ok(a) => a, Err(pn) => { fail("C02.no_panic", format!("{} sequence {:?}", p.witness(strict), sq.iter().map(|&i| show(settings[i])).collect::<Vec<_>>()), pn); break } };
                    sp.outcome(if a { "accepted" } else { "rejected" });
                    if prev.is_some() && prev != Some(fresh[si]) { sp.nontrivial(1) }
                    if a != fresh[si] {
                        fail("C02.history.independent", format!("{} same decoded value, sequence {} (step {})", p.witness(strict), sq.iter().map(|&i| show(settings[i])).collect::<Vec<_>>().join(" -> "), pos + 1),
                            format!("step {} gave accepted={a}, a freshly decoded value gives accepted={}", pos + 1, fresh[si]));
                    }
                    prev = Some(a);
                }
            }
        }}
        sp.sample_str(|| "kind=mft sequence (ca, T0) -> (other-ca, T0) -> (ca, after): accepted, rejected, rejected".to_string());
        sp.done(true, "4 kinds x 2 modes x all ordered pairs and triples of 4-10 (issuer, instant / callback) settings on one decoded value");
    }

    //--- (4c') history on a new OS thread: predecessors leaving at every stage ---------------------------------------------
    history_independent(&ctx, &fx, &ees, thorough);
    fold_collisions(&ctx, &fx, &ees, thorough);

    //--- (4c'') what one decoded value has seen before: same key under re-issued issuer certificates, instants, strict, callback, entry points ---
    object_history(&ctx, &fx, thorough);

    //--- (4g) fields no stated condition mentions; validity x signing time x evaluation instant ------------------------------
    ignored_fields(&ctx, &fx, thorough);
    interactions_time(&ctx, &fx, thorough);

    //--- (4g') every entry point gives the same verdict ----------------------------------------------------------------------
    routes_equivalence(&ctx, &fx, &ees, &perms);

    //--- (4h) the environment: TZ ------------------------------------------------------------------------------------------
    environment_tz(&ctx);

    //--- (4e) BER respellings of the CMS wrapper (relaxed mode) ---------------------------------------------------------
    ber_respellings(&ctx, &fx, &ees);

    //--- (4f) the scale dimension: number of blocks / prefixes / providers ------------------------------------------------
    scale_spaces(&ctx, &fx, thorough);
    blocks_position(&ctx, &fx, thorough);
    count_relation(&ctx, &fx, thorough);

    //--- (4f') every compared identifier in every length around the expected one ------------------------------------------
    identifier_spelling(&ctx, &fx, thorough);

    //--- (4d) siblings of the checked entry points: wall-clock variants, builder helpers, digest / key helpers -------
    api_siblings(&ctx, &fx, &perms);

    //--- (5) ROA coverage ------------------------------------------------------------------------
    roa_coverage(&ctx, &fx, thorough);

    //--- (6) ASPA -----------------------------------------------------------------------------------
    aspa_space(&ctx, &fx);

    //--- (7) CRL callback ---------------------------------------------------------------------------
    {
        let sp = ctx.space("crl.callback",
            "kind in {ROA, ASPA, generic} through process() x callback verdict {Ok, Err} x {all satisfied, one representative violation of each condition} x 2 modes: accepted <=> all conditions hold and the callback says Ok; when accepted the callback ran exactly once on the EE certificate; non-trivial = cases with callback Err or a violated condition");
        let mut menu: Vec<Option<Viol>> = vec![None];
        menu.extend([Viol::D(DigestV::FlipFirst), Viol::S(SigV::OtherKey), Viol::I(SidV::OtherSki), Viol::E(EeV::WrongIssuerKey), Viol::E(EeV::Expired),
                     Viol::E(EeV::AkiMismatch), Viol::C(CtV::AttrOther), Viol::K(CardV::Missing(2)), Viol::K(CardV::DupSame(1, 3))].into_iter().map(Some));
        let mut jobs = Vec::new();
        for k in [Kind::Roa, Kind::Aspa, Kind::Gen] { for cb in [true, false] { for strict in [true, false] { for m in &menu { jobs.push((k, cb, strict, *m)) } } } }
        let t = Tally::new();
        let nt = Mutex::new(0u64);
        jobs.par_iter().for_each(|&(k, cb, strict, m)| {
            let mut p = Plan::base(k);
            if let Some(v) = m { v.apply(&mut p) }
            let bytes = assemble(&fx, &p, &ees[&(k, p.ee)]);
            let (v, (calls, ski_ok)) = run(&fx, k, &bytes, &fx.ca, strict, Entry::Process(cb));
            sp.eval();
            t.add(match (&v, cb) { (Verdict::Accept, _) => "accepted", (_, false) if p.all_ok() => "rejected-by-callback", _ => v.class() });
            let want = p.all_ok() && cb;
            if !want { *nt.lock().unwrap() += 1 }
            let w = || format!("{} callback={}", p.witness(strict), if cb { "Ok" } else { "Err" });
            if p.all_ok() && !cb && v.accepted() {
                fail("C02.crl.err_honoured", w(), "the callback returned an error but the object was accepted");
            } else {
                expect(&ctx, "C02.crl.accept", "C02.crl.reject", want, &v, w);
            }
            if v.accepted() && (calls != 1 || !ski_ok) {
                fail("C02.crl.callback_called", w(), format!("accepted with {calls} callback invocations, EE SKI as expected: {ski_ok}"));
            }
            if p.all_ok() && !cb && calls != 1 {
                fail("C02.crl.callback_called", w(), format!("callback invoked {calls} times on an otherwise valid object"));
            }
        });
        sp.merge_outcomes(&t.oc.lock().unwrap());
        sp.nontrivial(*nt.lock().unwrap());
        sp.sample_str(|| "kind=roa all satisfied callback=Err -> rejected".to_string());
        sp.done(true, "3 kinds x 2 callback verdicts x 2 modes x 10 condition settings");
    }

    //--- (8) every single-bit flip -------------------------------------------------------------------
    {
        let sp = ctx.space("tamper.bitflip",
            "one valid object of each kind (default content, order ct,md,st) and two generic objects whose signed attributes take a one- and a two-octet long-form length: every single-bit flip of the DER, strict and relaxed decoding: rejected at decode or validation; the untouched object: accepted (when it is not, its flips are skipped and that is a violation of its own); non-trivial = flips (each is a distinct input)");
        let mut seeds: Vec<(String, Plan)> = KINDS.iter().map(|&k| (k.name().to_string(), Plan::base(k))).collect();
        for extra in [100usize, 200] {
            // generic objects whose signed attributes need the one- and two-octet long-form length
            let mut p = Plan::base(Kind::Gen);
            let mut arcs = vec![1u64, 2]; arcs.extend(std::iter::repeat(1).take(extra));
            p.ect = arcs; p.order = [2, 0, 1]; p.st_gen = true;
            seeds.push((format!("generic-attrs-{}", der::cat(&plan_attrs(&p)).len()), p));
        }
        for (nm, p) in seeds {
            let k = p.kind;
            let bytes = assemble(&fx, &p, &ees[&(k, EeV::Ok)]);
            let mut base_ok = true;
            for strict in [true, false] {
                let (v, _) = run(&fx, k, &bytes, &fx.ca, strict, Entry::At);
                sp.eval(); sp.outcome(v.class());
                base_ok &= v.accepted();
                expect(&ctx, "C02.tamper.base.accept", "-", true, &v, || p.witness(strict));
            }
            if !base_ok { sp.set(&format!("skipped_{nm}"), serde_json::json!("untouched object was not accepted; flips not meaningful")); continue }
            let nbits = bytes.len() * 8;
            let t = Tally::new();
            let acc: Mutex<Vec<String>> = Mutex::new(Vec::new());
            (0..nbits * 2).into_par_iter().for_each(|i| {
                let strict = i < nbits;
                let bit = i % nbits;
                let mut m = bytes.clone();
                m[bit / 8] ^= 0x80 >> (bit % 8);
                let (v, _) = run(&fx, k, &m, &fx.ca, strict, Entry::At);
                t.add(v.class());
                if v.accepted() { acc.lock().unwrap().push(format!("strict={} octet={} mask={:#04x}", strict, bit / 8, 0x80u8 >> (bit % 8))) }
                match &v {
                    Verdict::Accept => fail("C02.tamper.bitflip.reject", format!("seed={nm} strict={} octet={} mask={:#04x} (object of {} octets, original octet {:#04x})", strict, bit / 8, 0x80u8 >> (bit % 8), bytes.len(), bytes[bit / 8]),
                        "object with one flipped bit was accepted"),
                    Verdict::Panic(pn) => fail("C02.no_panic", format!("seed={nm} strict={} octet={} mask={:#04x}", strict, bit / 8, 0x80u8 >> (bit % 8)), pn.clone()),
                    _ => {}
                }
            });
            let mut acc = acc.into_inner().unwrap(); acc.sort();
            sp.set(&format!("accepted_flips_{nm}"), serde_json::json!(acc));
            sp.evals(nbits as u64 * 2); sp.nontrivial(nbits as u64 * 2);
            sp.merge_outcomes(&t.oc.lock().unwrap());
            sp.sample_str(|| format!("seed={nm} object of {} octets: {}", bytes.len(), trunc(&hex(&bytes), 120)));
        }
        sp.done(true, "all single-bit flips of 6 objects (4 kinds + generic with about 200 / 300 octets of signed attributes) x 2 modes");
    }

    flush_fails(&ctx);
    ctx.finish();
}

//------------ ROA coverage ----------------------------------------------------------------------

#[derive(Clone, Copy, Debug, PartialEq, Eq, PartialOrd, Ord)]
struct Pfx { bits: u128, len: u8, max: Option<u8> }

fn fam_width(v6: bool) -> u32 { if v6 { 128 } else { 32 } }

fn atom_range(a: u32, v6: bool) -> (u128, u128) {
    let w = fam_width(v6);
    let lo = (a as u128) << (w - 3);
    (lo, lo + ((1u128 << (w - 3)) - 1))
}

fn subset_claim(s: u32, v6: bool) -> Claim {
    if s == 0 { return Claim::Missing }
    Claim::Blocks((0..8).filter(|a| s >> a & 1 == 1).map(|a| atom_range(a, v6)).collect())
}

/// Model: is the prefix inside the union of the atoms of `s`?
fn covered(s: u32, p: &Pfx, v6: bool) -> bool {
    let w = fam_width(v6);
    if p.len >= 3 {
        let a = (p.bits >> (w - 3)) as u32;
        s >> a & 1 == 1
    } else {
        let top = if p.len == 0 { 0 } else { (p.bits >> (w - p.len as u32)) as u32 };
        (0..8u32).filter(|a| (a >> (3 - p.len as u32)) == top).all(|a| s >> a & 1 == 1)
    }
}

fn trie(v6: bool, depth: u8) -> Vec<(u128, u8)> {
    let w = fam_width(v6);
    let mut v = Vec::new();
    for len in 0..=depth { for x in 0..(1u128 << len) { v.push((if len == 0 { 0 } else { x << (w - len as u32) }, len)) } }
    v
}

fn render_pfx(p: &Pfx, v6: bool) -> String {
    let s = if v6 { format!("{:032x}", p.bits) } else { format!("{:08x}", p.bits as u32) };
    format!("{}{}/{}{}", if v6 { "v6:" } else { "v4:" }, s, p.len, p.max.map(|m| format!("-{m}")).unwrap_or_default())
}

fn to_roa_addr(p: &Pfx, v6: bool) -> RoaAddr { der::roa_addr_from(p.bits, p.len, fam_width(v6) as u8, p.max.map(|m| m as u128)) }

/// Pre-signed CMS parts of a ROA content (independent of the EE resources).
struct Signed { content: Vec<u8>, attrs: Vec<Vec<u8>>, sig: Vec<u8> }

fn presign(fx: &Fx, kind: Kind, content: Vec<u8>) -> Signed {
    let mut p = Plan::base(kind); p.content = content;
    let attrs = plan_attrs(&p);
    let sig = fx.s.sign_raw(K_EE, &der::signed_attrs_tbs(&attrs));
    Signed { content: p.content, attrs, sig }
}

fn wrap(fx: &Fx, kind: Kind, sg: &Signed, cert: &[u8]) -> Vec<u8> {
    der::signed_data(&SignedDataParts {
        version: 3, digest_alg_set: der::set_unsorted(&[der::alg_sha256(false)]), econtent_type: kind.ect(), econtent: sg.content.clone(),
        certificates: vec![cert.to_vec()], crls: vec![], si_version: 3, sid: fx.s.key(K_EE).ski.to_vec(),
        si_digest_alg: der::alg_sha256(false), signed_attrs: sg.attrs.clone(), sig_alg: der::alg_rsa_encryption(), signature: sg.sig.clone(),
    })
}

fn roa_coverage(ctx: &Ctx, fx: &Fx, thorough: bool) {
    // EE certificates keyed by (v4 subset, v6 subset); 0 = family absent.
    let mut keys: BTreeSet<(u32, u32)> = BTreeSet::new();
    for s in 0..256u32 { keys.extend([(s, 0), (0, s), (s, 255), (255, s), (s, s)]) }
    let keys: Vec<(u32, u32)> = keys.into_iter().collect();
    let certs: BTreeMap<(u32, u32), Vec<u8>> = keys.par_iter().map(|&(a, b)| {
        let res = Res { v4: subset_claim(a, false), v6: subset_claim(b, true), asn: Claim::Missing };
        ((a, b), ee_der(fx, res, EeV::Ok, 1000 + (a as u128) * 256 + b as u128))
    }).collect();

    // (a) single prefix, all max-lengths
    let sp = ctx.space("roa.coverage.single",
        "one-prefix ROAs: every prefix of the trie of lengths 0..=4 (thorough: 0..=6) plus first/last host address of every /3 atom, x maxLength in {absent, len, len+1, family width}, both families, x EE certificates holding every subset of the eight /3 atoms of that family (other family absent): accepted <=> every atom under the prefix is in the subset; in addition 10 prefixes around 10.0.0.0/24 (2001:db8::/32) x the 9 EE ranges whose ends lie one address below / at / above the prefix ends: accepted <=> range contains prefix; non-trivial = cases with a subset that is neither empty nor full, and all unaligned-range cases");
    for v6 in [false, true] {
        let w = fam_width(v6) as u8;
        let mut pf: Vec<Pfx> = Vec::new();
        let mut nodes = trie(v6, if thorough { 6 } else { 4 });
        for a in 0..8 { let (lo, hi) = atom_range(a, v6); nodes.push((lo, w)); nodes.push((hi, w)); }
        for (bits, len) in nodes {
            let mut ms: BTreeSet<Option<u8>> = BTreeSet::new();
            ms.insert(None); ms.insert(Some(len)); ms.insert(Some((len + 1).min(w))); ms.insert(Some(w));
            for m in ms { pf.push(Pfx { bits, len, max: m }) }
        }
        let signed: Vec<Signed> = pf.par_iter().map(|p| {
            let a = [to_roa_addr(p, v6)];
            presign(fx, Kind::Roa, if v6 { der::roa_content(None, 64496, None, Some(&a)) } else { der::roa_content(None, 64496, Some(&a), None) })
        }).collect();
        let t = Tally::new();
        let nt = Mutex::new(0u64);
        (0..pf.len() * 256).into_par_iter().for_each(|i| {
            let (pi, s) = (i / 256, (i % 256) as u32);
            let key = if v6 { (0, s) } else { (s, 0) };
            let bytes = wrap(fx, Kind::Roa, &signed[pi], &certs[&key]);
            let (v, _) = run(fx, Kind::Roa, &bytes, &fx.ca, true, Entry::Process(true));
            t.add(v.class());
            if s != 0 && s != 255 { *nt.lock().unwrap() += 1 }
            expect(ctx, "C02.roa.covered.accept", "C02.roa.uncovered.reject", covered(s, &pf[pi], v6), &v,
                || format!("roa prefix={} ee-{}-atoms={:#010b} (atom i = /3 block number i)", render_pfx(&pf[pi], v6), if v6 { "v6" } else { "v4" }, s));
        });
        sp.evals(pf.len() as u64 * 256); sp.nontrivial(*nt.lock().unwrap());
        sp.merge_outcomes(&t.oc.lock().unwrap());
        sp.sample_str(|| format!("{} with EE atoms 0b00000110 -> {}", render_pfx(&pf[10], v6), covered(0b110, &pf[10], v6)));
    }
    // unaligned EE ranges around one prefix: every combination of the range ends one address below / at / above the prefix ends
    for v6 in [false, true] {
        let w = fam_width(v6);
        let (base, plen): (u128, u8) = if v6 { (0x2001_0db8u128 << 96, 32) } else { (0x0a00_0000, 24) };
        let span = (1u128 << (w - plen as u32)) - 1;
        let end = base + span;
        let half = (span + 1) / 2;
        let mk = |bits: u128, len: u8| Pfx { bits, len, max: None };
        let pf = vec![mk(base, plen), mk(base, plen + 1), mk(base + half, plen + 1), mk(base, w as u8), mk(end, w as u8),
                      mk(base & !((span << 1) | 1), plen - 1), mk(end + 1, plen), mk(base - span - 1, plen), mk(base + 1, w as u8), mk(end - 1, w as u8)];
        let ranges: Vec<(u128, u128)> = [base - 1, base, base + 1].into_iter().flat_map(|lo| [end - 1, end, end + 1].into_iter().map(move |hi| (lo, hi))).collect();
        let ecerts: Vec<Vec<u8>> = ranges.par_iter().enumerate().map(|(i, &(lo, hi))| {
            let c = Claim::Blocks(vec![(lo, hi)]);
            ee_der(fx, if v6 { Res { v4: Claim::Missing, v6: c, asn: Claim::Missing } } else { Res { v4: c, v6: Claim::Missing, asn: Claim::Missing } }, EeV::Ok, 900 + i as u128)
        }).collect();
        let signed: Vec<Signed> = pf.par_iter().map(|p| {
            let a = [to_roa_addr(p, v6)];
            presign(fx, Kind::Roa, if v6 { der::roa_content(None, 64496, None, Some(&a)) } else { der::roa_content(None, 64496, Some(&a), None) })
        }).collect();
        for (pi, p) in pf.iter().enumerate() { for (ri, &(lo, hi)) in ranges.iter().enumerate() {
            let pmax = p.bits + if p.len as u32 == w { 0 } else { (1u128 << (w - p.len as u32)) - 1 };
            let want = lo <= p.bits && pmax <= hi;
            let bytes = wrap(fx, Kind::Roa, &signed[pi], &ecerts[ri]);
            let (v, _) = run(fx, Kind::Roa, &bytes, &fx.ca, true, Entry::Process(true));
            sp.eval(); sp.nontrivial(1); sp.outcome(v.class());
            expect(ctx, "C02.roa.covered.accept", "C02.roa.uncovered.reject", want, &v,
                || format!("roa prefix={} ee-range=[{:#x},{:#x}] ({})", render_pfx(p, v6), lo, hi, if v6 { "v6" } else { "v4" }));
        }}
    }
    sp.done(true, &format!("({} trie nodes + 16 host addresses) x up to 4 max-lengths x 256 subsets x 2 families; 10 prefixes x 9 unaligned EE ranges x 2 families", if thorough { 127 } else { 31 }));

    // (b) two prefixes in one family, (c) one prefix in each family
    let sp = ctx.space("roa.coverage.multi",
        "two-prefix ROAs: all ordered pairs of the 3-level trie (15 nodes) in one family x all 256 subsets (both families); one v4 and one v6 prefix (trie depth per tier) x EE certificates (S,full),(full,S),(S,S),(S,absent),(absent,S) for all 256 S: accepted <=> every prefix is covered by its family's subset; non-trivial = cases where exactly one of the two prefixes is covered");
    let t = Tally::new();
    let nt = Mutex::new(0u64);
    for v6 in [false, true] {
        let nodes = trie(v6, 3);
        let pairs: Vec<(usize, usize)> = (0..nodes.len()).flat_map(|a| (0..nodes.len()).map(move |b| (a, b))).collect();
        let signed: Vec<Signed> = pairs.par_iter().map(|&(a, b)| {
            let ad = [to_roa_addr(&Pfx { bits: nodes[a].0, len: nodes[a].1, max: None }, v6), to_roa_addr(&Pfx { bits: nodes[b].0, len: nodes[b].1, max: None }, v6)];
            presign(fx, Kind::Roa, if v6 { der::roa_content(None, 64496, None, Some(&ad)) } else { der::roa_content(None, 64496, Some(&ad), None) })
        }).collect();
        (0..pairs.len() * 256).into_par_iter().for_each(|i| {
            let (pi, s) = (i / 256, (i % 256) as u32);
            let (a, b) = pairs[pi];
            let (pa, pb) = (Pfx { bits: nodes[a].0, len: nodes[a].1, max: None }, Pfx { bits: nodes[b].0, len: nodes[b].1, max: None });
            let key = if v6 { (0, s) } else { (s, 0) };
            let bytes = wrap(fx, Kind::Roa, &signed[pi], &certs[&key]);
            let (v, _) = run(fx, Kind::Roa, &bytes, &fx.ca, true, Entry::Process(true));
            t.add(v.class());
            let (ca, cb) = (covered(s, &pa, v6), covered(s, &pb, v6));
            if ca != cb { *nt.lock().unwrap() += 1 }
            expect(ctx, "C02.roa.covered.accept", "C02.roa.uncovered.reject", ca && cb, &v,
                || format!("roa prefixes=[{}, {}] ee-atoms={:#010b}", render_pfx(&pa, v6), render_pfx(&pb, v6), s));
        });
        sp.evals(pairs.len() as u64 * 256);
    }
    {
        let depth = if thorough { 3 } else { 2 };
        let (n4, n6) = (trie(false, depth), trie(true, depth));
        let pairs: Vec<(usize, usize)> = (0..n4.len()).flat_map(|a| (0..n6.len()).map(move |b| (a, b))).collect();
        let signed: Vec<Signed> = pairs.par_iter().map(|&(a, b)| {
            let a4 = [to_roa_addr(&Pfx { bits: n4[a].0, len: n4[a].1, max: None }, false)];
            let a6 = [to_roa_addr(&Pfx { bits: n6[b].0, len: n6[b].1, max: None }, true)];
            presign(fx, Kind::Roa, der::roa_content(None, 64496, Some(&a4), Some(&a6)))
        }).collect();
        let nk = keys.len();
        (0..pairs.len() * nk).into_par_iter().for_each(|i| {
            let (pi, ki) = (i / nk, i % nk);
            let (a, b) = pairs[pi];
            let (s4, s6) = keys[ki];
            let (pa, pb) = (Pfx { bits: n4[a].0, len: n4[a].1, max: None }, Pfx { bits: n6[b].0, len: n6[b].1, max: None });
            let bytes = wrap(fx, Kind::Roa, &signed[pi], &certs[&(s4, s6)]);
            let (v, _) = run(fx, Kind::Roa, &bytes, &fx.ca, true, Entry::Process(true));
            t.add(v.class());
            let (ca, cb) = (covered(s4, &pa, false), covered(s6, &pb, true));
            if ca != cb { *nt.lock().unwrap() += 1 }
            expect(ctx, "C02.roa.covered.accept", "C02.roa.uncovered.reject", ca && cb, &v,
                || format!("roa prefixes=[{}, {}] ee-v4-atoms={:#010b} ee-v6-atoms={:#010b}", render_pfx(&pa, false), render_pfx(&pb, true), s4, s6));
        });
        sp.evals((pairs.len() * nk) as u64);
        sp.set("two_family_trie_depth", serde_json::json!(depth));
        sp.set("ee_certificates", serde_json::json!(nk));
    }
    sp.nontrivial(*nt.lock().unwrap());
    sp.merge_outcomes(&t.oc.lock().unwrap());
    sp.sample_str(|| "roa prefixes=[v4:00000000/1, v4:80000000/2] ee-atoms=0b00111111 -> accepted (atoms 0-3 and 4-5)".to_string());
    sp.done(true, &format!("225 same-family pairs x 256 x 2 families + two-family pairs (trie depth {}) x {} EE certificates", if thorough { 3 } else { 2 }, keys.len()));

    // (d) the issuer as a dimension: what counts is what the EE certificate has been VALIDATED to hold under this issuer
    let sp = ctx.space("roa.coverage.issuer",
        "issuing CAs holding (S4,S6) in {(S,none),(none,S),(S,all),(all,S)} for all 256 subsets S (none = the CA has nothing in that family); (1) EE certificate inherits {v4, v6, both}: one-prefix ROAs of either family over the trie: accepted <=> the EE inherits the prefix's family and the prefix lies inside the CA's subset of it; (2) EE certificate claims one of 15 explicit subsets of atoms {0,1,2,7} under overclaim mode refuse / trim, CAs (S,none) resp. (none,S): accepted <=> refuse: claim inside S and prefix inside claim; trim: prefix inside claim AND S; non-trivial = cases where the family is lacking at the CA, not inherited by the EE, or the claim is not inside S");
    let ta = pki::valid_ta(&fx.s, K_TA, Res::all());
    let depth = if thorough { 3 } else { 2 };
    let mut ca_keys: BTreeSet<(u32, u32)> = BTreeSet::new();
    for s in 0..256u32 { ca_keys.extend([(s, 0), (0, s), (s, 255), (255, s)]) }
    let ca_keys: Vec<(u32, u32)> = ca_keys.into_iter().collect();
    let cas: Vec<ResourceCert> = ca_keys.par_iter().map(|&(a, b)| {
        pki::valid_ca(&fx.s, &ta, K_TA, K_CA, Res { v4: subset_claim(a, false), v6: subset_claim(b, true), asn: Claim::Blocks(vec![(1, 1)]) })
    }).collect();
    // contents: (v6, prefix, pre-signed)
    let mut contents: Vec<(bool, Pfx)> = Vec::new();
    for v6 in [false, true] { for (bits, len) in trie(v6, depth) { contents.push((v6, Pfx { bits, len, max: None })) } }
    let signed: Vec<Signed> = contents.par_iter().map(|(v6, p)| {
        let a = [to_roa_addr(p, *v6)];
        presign(fx, Kind::Roa, if *v6 { der::roa_content(None, 64496, None, Some(&a)) } else { der::roa_content(None, 64496, Some(&a), None) })
    }).collect();
    let t = Tally::new();
    let nt = Mutex::new(0u64);
    // (1) inheriting EE certificates
    let inh: Vec<(bool, bool, Vec<u8>)> = [(true, false), (false, true), (true, true)].into_iter().enumerate().map(|(i, (i4, i6))| {
        let res = Res { v4: if i4 { Claim::Inherit } else { Claim::Missing }, v6: if i6 { Claim::Inherit } else { Claim::Missing }, asn: Claim::Missing };
        (i4, i6, ee_der(fx, res, EeV::Ok, 70 + i as u128))
    }).collect();
    let (nc, ni) = (contents.len(), inh.len());
    (0..ca_keys.len() * ni * nc).into_par_iter().for_each(|i| {
        let (ki, r) = (i / (ni * nc), i % (ni * nc));
        let (ii, ci) = (r / nc, r % nc);
        let (s4, s6) = ca_keys[ki];
        let (i4, i6, cert) = &inh[ii];
        let (v6, p) = &contents[ci];
        let bytes = wrap(fx, Kind::Roa, &signed[ci], cert);
        let (v, _) = run(fx, Kind::Roa, &bytes, &cas[ki], true, Entry::Process(true));
        t.add(v.class());
        let (inherits, s) = if *v6 { (*i6, s6) } else { (*i4, s4) };
        if !inherits || s == 0 { *nt.lock().unwrap() += 1 }
        expect(ctx, "C02.roa.covered.accept", "C02.roa.uncovered.reject", inherits && covered(s, p, *v6), &v,
            || format!("roa prefix={} ee inherits {} from CA with v4-atoms={:#010b} v6-atoms={:#010b} (0 = CA holds nothing in the family)", render_pfx(p, *v6),
                match (i4, i6) { (true, true) => "v4+v6", (true, false) => "v4 only", _ => "v6 only" }, s4, s6));
    });
    sp.evals((ca_keys.len() * ni * nc) as u64);
    // (2) explicit claims under refuse / trim
    let claims: Vec<u32> = (1..16u32).map(|m| (m & 7) | ((m >> 3) << 7)).collect();
    let mut ekeys = Vec::new();
    for v6 in [false, true] { for &c in &claims { for trim in [false, true] { ekeys.push((v6, c, trim)) } } }
    let ecerts: Vec<Vec<u8>> = ekeys.par_iter().enumerate().map(|(i, &(v6, c, trim))| {
        let res = if v6 { Res { v4: Claim::Missing, v6: subset_claim(c, true), asn: Claim::Missing } } else { Res { v4: subset_claim(c, false), v6: Claim::Missing, asn: Claim::Missing } };
        ee_der_oc(fx, res, EeV::Ok, 300 + i as u128, if trim { Overclaim::Trim } else { Overclaim::Refuse })
    }).collect();
    let ca_index: BTreeMap<(u32, u32), usize> = ca_keys.iter().enumerate().map(|(i, k)| (*k, i)).collect();
    let per = nc / 2; // contents of one family
    (0..ekeys.len() * 256 * per).into_par_iter().for_each(|i| {
        let (ei, r) = (i / (256 * per), i % (256 * per));
        let (s, pi) = ((r / per) as u32, r % per);
        let (v6, c, trim) = ekeys[ei];
        let ci = if v6 { per + pi } else { pi };
        let p = &contents[ci].1;
        let ki = ca_index[&if v6 { (0, s) } else { (s, 0) }];
        let bytes = wrap(fx, Kind::Roa, &signed[ci], &ecerts[ei]);
        let (v, _) = run(fx, Kind::Roa, &bytes, &cas[ki], true, Entry::Process(true));
        t.add(v.class());
        let inside = c & !s == 0;
        if !inside { *nt.lock().unwrap() += 1 }
        let want = if trim { covered(c & s, p, v6) } else { inside && covered(c, p, v6) };
        expect(ctx, "C02.roa.covered.accept", "C02.roa.uncovered.reject", want, &v,
            || format!("roa prefix={} ee claims atoms={:#010b} overclaim={} under CA with atoms={:#010b} ({})", render_pfx(p, v6), c, if trim { "trim" } else { "refuse" }, s, if v6 { "v6" } else { "v4" }));
    });
    sp.evals((ekeys.len() * 256 * per) as u64);
    sp.nontrivial(*nt.lock().unwrap());
    sp.merge_outcomes(&t.oc.lock().unwrap());
    sp.set("issuing_cas", serde_json::json!(ca_keys.len()));
    sp.sample_str(|| "roa prefix=v6:00000000000000000000000000000000/1 ee inherits v4+v6 from CA with v4-atoms=0b11111111 v6-atoms=0b00000000 -> rejected".to_string());
    sp.sample_str(|| "roa prefix=v4:00000000/3 ee claims atoms=0b10000001 overclaim=trim under CA with atoms=0b00000001 (v4) -> accepted".to_string());
    sp.done(true, &format!("{} issuing CAs x 3 inheriting EE certificates x {} prefixes; 60 claiming EE certificates x 256 CAs x {} prefixes", ca_keys.len(), nc, per));
}

//------------ ASPA ---------------------------------------------------------------------------------

fn aspa_space(ctx: &Ctx, fx: &Fx) {
    let sp = ctx.space("aspa.resources",
        "issuing CA in {everything, v4+AS, v6+AS, AS only, AS atoms {0,1,2,3} only} x customer AS from 12 values x EE AS resources in {every subset of the 8-atom universe {0,1,2,3,64512,64513,MAX-1,MAX} (empty = extension absent), inherit} x EE IPv4 in {absent, inherit, 10.0.0.0/8} x EE IPv6 in {absent, inherit, 2001:db8::/32} (overclaim refuse), plus every explicit AS subset without IP extensions under overclaim trim: accepted <=> the EE certificate carries no IP resources extension at all (whatever the issuer holds), AS not inherited, and the customer is in the validated AS resources (refuse: subset inside the CA's, else nothing; trim: subset AND the CA's); non-trivial = cases with no IP extension and a non-empty explicit AS subset, plus all cases with an inherited IP family the CA lacks");
    const MAX: u128 = u32::MAX as u128;
    let atoms: [u128; 8] = [0, 1, 2, 3, 64512, 64513, MAX - 1, MAX];
    let customers: Vec<u128> = vec![0, 1, 2, 3, 4, 64511, 64512, 64513, 64514, MAX - 2, MAX - 1, MAX];
    let ipc = |n: u32, v6: bool| match n { 0 => Claim::Missing, 1 => Claim::Inherit, _ => if v6 { Claim::Blocks(vec![(0x2001_0db8u128 << 96, (0x2001_0db9u128 << 96) - 1)]) } else { Claim::Blocks(vec![(0x0a00_0000, 0x0aff_ffff)]) } };
    // issuers: (name, holds v4, holds v6, AS mask over the atoms)
    let ta = pki::valid_ta(&fx.s, K_TA, Res::all());
    let all = Res::all();
    let issuer_specs: Vec<(&str, bool, bool, u32)> = vec![("everything", true, true, 255), ("v4+AS", true, false, 255), ("v6+AS", false, true, 255), ("AS only", false, false, 255), ("AS 0-3 only", false, false, 0b1111)];
    let issuers: Vec<ResourceCert> = issuer_specs.iter().map(|&(_, h4, h6, m)| {
        let res = Res { v4: if h4 { all.v4.clone() } else { Claim::Missing }, v6: if h6 { all.v6.clone() } else { Claim::Missing },
                        asn: if m == 255 { all.asn.clone() } else { Claim::Blocks(vec![(0, 3)]) } };
        pki::valid_ca(&fx.s, &ta, K_TA, K_CA, res)
    }).collect();
    // AS choice: 0..=255 subsets (0 = absent), 256 = inherit; last field: overclaim trim
    let mut keys = Vec::new();
    for a in 0..=256u32 { for i4 in 0..3u32 { for i6 in 0..3u32 { keys.push((a, i4, i6, false)) } } }
    for a in 1..256u32 { keys.push((a, 0, 0, true)) }
    let certs: Vec<Vec<u8>> = keys.par_iter().map(|&(a, i4, i6, trim)| {
        let asn = if a == 256 { Claim::Inherit } else if a == 0 { Claim::Missing } else { Claim::Blocks((0..8).filter(|i| a >> i & 1 == 1).map(|i| (atoms[i], atoms[i])).collect()) };
        ee_der_oc(fx, Res { v4: ipc(i4, false), v6: ipc(i6, true), asn }, EeV::Ok, 5000 + (a as u128) * 32 + (i4 * 3 + i6) as u128 + if trim { 16 } else { 0 },
            if trim { Overclaim::Trim } else { Overclaim::Refuse })
    }).collect();
    let signed: Vec<Signed> = customers.par_iter().map(|&c| presign(fx, Kind::Aspa, der::aspa_content(Some(1), c, &[65000, 65001]))).collect();
    let t = Tally::new();
    let nt = Mutex::new(0u64);
    let (nk, ncu) = (keys.len(), customers.len());
    (0..issuers.len() * nk * ncu).into_par_iter().for_each(|i| {
        let (ii, r) = (i / (nk * ncu), i % (nk * ncu));
        let (ki, ci) = (r / ncu, r % ncu);
        let (a, i4, i6, trim) = keys[ki];
        let (iname, h4, h6, mask) = issuer_specs[ii];
        let c = customers[ci];
        let bytes = wrap(fx, Kind::Aspa, &signed[ci], &certs[ki]);
        let (v, _) = run(fx, Kind::Aspa, &bytes, &issuers[ii], true, Entry::Process(true));
        t.add(v.class());
        let validated: u32 = if a == 0 || a == 256 { 0 } else if trim { a & mask } else if a & !mask == 0 { a } else { 0 };
        let in_set = (0..8).any(|k| validated >> k & 1 == 1 && atoms[k] == c);
        let want = in_set && a != 256 && i4 == 0 && i6 == 0;
        let lacking_inherit = (i4 == 1 && !h4) || (i6 == 1 && !h6);
        if (a != 0 && a < 256 && i4 == 0 && i6 == 0) || lacking_inherit { *nt.lock().unwrap() += 1 }
        expect(ctx, "C02.aspa.accept", "C02.aspa.reject", want, &v,
            || format!("aspa customer=AS{} issuer holds {} ee-as={}{} ee-v4={} ee-v6={}", c, iname, if a == 256 { "inherit".to_string() } else { format!("atoms {:#010b} of [0,1,2,3,64512,64513,MAX-1,MAX]", a) },
                if trim { " (overclaim trim)" } else { "" }, ["absent", "inherit", "10.0.0.0/8"][i4 as usize], ["absent", "inherit", "2001:db8::/32"][i6 as usize]));
    });
    sp.evals((issuers.len() * nk * ncu) as u64);
    sp.nontrivial(*nt.lock().unwrap());
    sp.merge_outcomes(&t.oc.lock().unwrap());
    sp.sample_str(|| "aspa customer=AS64512 issuer holds AS only ee-as=atoms 0b00010000 ee-v4=inherit ee-v6=absent -> rejected (IP resources extension present)".to_string());
    sp.done(true, "5 issuers x 12 customers x (257 AS choices x 3 x 3 IP choices + 255 trimmed AS subsets)");
}

//------------ API siblings (differential) ---------------------------------------------------------

fn api_siblings(ctx: &Ctx, fx: &Fx, perms: &[[usize; 3]]) {
    use bcder::{Mode, Oid};
    use bcder::encode::Values;
    use rpki::crypto::{DigestAlgorithm, KeyIdentifier, PublicKey, PublicKeyFormat};
    use rpki::repository::resources::{AsBlock, AsResources, Asn, IpBlock, IpResources};
    use rpki::repository::sigobj::SignedObjectBuilder;
    use rpki_verif::engine::signer::sha1;

    //--- wall-clock variants: validate(issuer, strict) == validate_at(issuer, strict, Time::now())
    let sp = ctx.space("api.wallclock",
        "Manifest::validate and SignedObject::validate (wall clock) against validate_at(Time::now()) on the same decoded value: 2 kinds x EE certificate windows {2000..2100 current, 2000..2001 expired, 2100..2101 future} x 6 attribute orders x 2 modes x issuer {the CA, another CA}: the two verdicts must be equal; non-trivial = all (both classes occur)");
    let ta = pki::valid_ta(&fx.s, K_TA, Res::all());
    let ca2 = pki::valid_ca(&fx.s, &ta, K_TA, K_CA2, Res::all());
    let windows: [(&str, i64, i64); 3] = [("2000..2100", 946_684_800, 4_102_444_800), ("2000..2001", 946_684_800, 978_307_200), ("2100..2101", 4_102_444_800, 4_133_980_800)];
    for k in [Kind::Mft, Kind::Gen] { for (wname, nb, na) in windows {
        let mut spec = Spec::issued(pki::Kind::Ee, K_EE, K_CA, fx.s.ski(K_CA), default_res(k), Overclaim::Refuse);
        spec.validity = Validity::new(pki::time(nb), pki::time(na));
        spec.serial = 4000 + k as u128;
        let cert = pki::build_cert_der(&fx.s, &spec);
        for o in perms { for strict in [true, false] { for (issuer, iname) in [(&fx.ca, "ca"), (&ca2, "other-ca")] {
            let mut p = Plan::base(k); p.order = *o;
            let bytes = assemble(fx, &p, &cert);
            let r = guard(|| -> Option<(bool, bool)> {
                let b = Bytes::copy_from_slice(&bytes);
                Some(match k {
                    Kind::Mft => { let m = Manifest::decode(b, strict).ok()?; (m.clone().validate(issuer, strict).is_ok(), m.validate_at(issuer, strict, Time::now()).is_ok()) }
                    _ => { let m = SignedObject::decode(b, strict).ok()?; (m.clone().validate(issuer, strict).is_ok(), m.validate_at(issuer, strict, Time::now()).is_ok()) }
                })
            });
            sp.eval(); sp.nontrivial(1);
            let w = || format!("{} ee-window={wname} issuer={iname}", p.witness(strict));
            match r {
                Err(pn) => fail("C02.no_panic", w(), pn),
                Ok(None) => fail("C02.api.wallclock", w(), "object built by the independent encoder does not decode"),
                Ok(Some((wall, at))) => {
                    sp.outcome(if wall { "accepted" } else { "rejected" });
                    if wall != at { fail("C02.api.wallclock", w(), format!("validate() accepted={wall}, validate_at(Time::now()) accepted={at}")) }
                }
            }
        }}}
    }}
    sp.sample_str(|| "kind=mft ee-window=2000..2001 issuer=ca: validate() and validate_at(now) both reject".to_string());
    sp.done(true, "2 kinds x 3 windows x 6 orders x 2 modes x 2 issuers");

    //--- SignedObjectBuilder::build_*_resource_blocks == set_*_resources(blocks(...))
    let sp = ctx.space("api.builder.resources",
        "SignedObjectBuilder::build_v4/v6/as_resource_blocks(|b| push atoms) against set_*_resources(blocks(atoms)) for every subset of the 8-atom universes (the family's accessor, has_ip_resources); for 8 subsets per family both builders are finalized with the pool signer, encoded, decoded and validated under the CA: same verdict, same validated resources; non-trivial = non-empty subsets");
    const MAXA: u128 = u32::MAX as u128;
    let as_atoms: [u128; 8] = [0, 1, 2, 3, 64512, 64513, MAXA - 1, MAXA];
    let new_builder = || SignedObjectBuilder::new(12345u64.into(), wide_validity(), pki::rsync("rsync://example.net/repo/ca/ca.crl"), pki::rsync("rsync://example.net/repo/ca.cer"), pki::rsync("rsync://example.net/repo/ca/obj.bin"));
    let ct_oid = { let t = der::oid(&Kind::Gen.ect()); Oid(Bytes::copy_from_slice(&t[2..])) };
    for fam in 0..3usize { for sub in 0..256u32 {
        let ranges: Vec<(u128, u128)> = (0..8).filter(|a| sub >> a & 1 == 1).map(|a| match fam { 0 => atom_range(a, false), 1 => atom_range(a, true), _ => (as_atoms[a as usize], as_atoms[a as usize]) }).collect();
        let (mut a, mut b) = (new_builder(), new_builder());
        match fam {
            0 => { a.build_v4_resource_blocks(|bb| for &(lo, hi) in &ranges { bb.push(IpBlock::from((pki::v4_addr(lo), rpki::repository::resources::Addr::from_bits((hi << 96) | ((1u128 << 96) - 1))))) });
                   b.set_v4_resources(IpResources::blocks(pki::ip_blocks(32, &ranges))); }
            1 => { a.build_v6_resource_blocks(|bb| for &(lo, hi) in &ranges { bb.push(IpBlock::from((pki::v6_addr(lo), pki::v6_addr(hi)))) });
                   b.set_v6_resources(IpResources::blocks(pki::ip_blocks(128, &ranges))); }
            _ => { a.build_as_resource_blocks(|bb| for &(lo, hi) in &ranges { bb.push(AsBlock::from((Asn::from_u32(lo as u32), Asn::from_u32(hi as u32)))) });
                   b.set_as_resources(AsResources::blocks(pki::as_blocks(&ranges))); }
        }
        sp.eval(); if sub != 0 { sp.nontrivial(1) }
        let w = || format!("family={} atoms={:#010b}", ["v4", "v6", "as"][fam], sub);
        let same = a.v4_resources() == b.v4_resources() && a.v6_resources() == b.v6_resources() && a.as_resources().to_string() == b.as_resources().to_string() && a.has_ip_resources() == b.has_ip_resources();
        sp.outcome(if a.has_ip_resources() { "has-ip" } else { "no-ip" });
        if !same { fail("C02.api.builder.resources", w(), format!("build_*_resource_blocks gives v4={:?} v6={:?} as={}, set_*_resources gives v4={:?} v6={:?} as={}", a.v4_resources(), a.v6_resources(), a.as_resources(), b.v4_resources(), b.v6_resources(), b.as_resources())) }
        if [0b1, 0b11, 0b101, 0b1000_0000, 0b1111_0000, 0b0101_0101, 0b1111_1110, 255].contains(&sub) {
            let fin = |bld: SignedObjectBuilder| -> Result<Option<String>, String> {
                guard(|| {
                    let obj = bld.finalize(ct_oid.clone(), Bytes::from_static(b"content"), &fx.s, &fx.s.kid(K_CA)).ok()?;
                    let der = obj.encode_ref().to_captured(Mode::Der).into_bytes();
                    let dec = SignedObject::decode(der, true).ok()?;
                    let rc = dec.validate_at(&fx.ca, true, pki::time(T0)).ok()?;
                    Some(format!("v4={} v6={} as={}", rc.v4_resources().as_v4(), rc.v6_resources().as_v6(), rc.as_resources()))
                })
            };
            let (ra, rb) = (fin(a), fin(b));
            sp.evals(2);
            match (&ra, &rb) {
                (Err(pn), _) | (_, Err(pn)) => fail("C02.no_panic", w(), pn.clone()),
                (Ok(x), Ok(y)) => {
                    sp.outcome(if x.is_some() { "finalized-accepted" } else { "finalized-rejected" });
                    if x != y || x.is_none() { fail("C02.api.builder.resources", w(), format!("finalized objects differ or are not accepted: {x:?} vs {y:?}")) }
                }
            }
        }
    }}
    sp.sample_str(|| "family=v4 atoms=0b00000011: both builders hold 0.0.0.0/2".to_string());
    sp.done(true, "3 families x 256 subsets (accessors) + 3 x 8 finalized pairs");

    //--- digest and key helpers
    let sp = ctx.space("api.digest_keys",
        "DigestAlgorithm::{digest_len, is_sha256}, sha1_digest, start_sha1 on contents of 0..=300 octets and {65535, 65536} against the one-shot digests and the independent SHA-1; DigestAlgorithm::{take_opt_from, skip_set} against take_from / take_set_from on 8 encodings; PublicKey::{rsa_from_bits_bytes, rsa_from_components, bits_bytes, encode} on the 8 pool keys and 2 EC keys against decode / encode_ref; KeyIdentifier::{take_opt_from, skip_opt_in} against take_from on 4 encodings x 8 keys; non-trivial = all");
    let alg = DigestAlgorithm::sha256();
    let mut lens: Vec<usize> = (0..=300).collect(); lens.extend([65535, 65536]);
    for n in lens {
        let data: Vec<u8> = (0..n).map(|i| (i * 13 + 5) as u8).collect();
        sp.eval(); sp.nontrivial(1);
        let r = guard(|| {
            let d = alg.digest(&data);
            let mut bad = Vec::new();
            if d.as_ref().len() != alg.digest_len() { bad.push(format!("digest_len()={} but the digest has {} octets", alg.digest_len(), d.as_ref().len())) }
            if !alg.is_sha256() || d.as_ref() != sha256(&data).as_slice() { bad.push("is_sha256() / digest() disagree with SHA-256".to_string()) }
            if rpki::crypto::digest::sha1_digest(&data).as_ref() != sha1(&data).as_slice() { bad.push("sha1_digest differs from SHA-1".to_string()) }
            let mut c = rpki::crypto::digest::start_sha1(); c.update(&data[..n / 2]); c.update(&data[n / 2..]);
            if c.finish().as_ref() != rpki::crypto::digest::sha1_digest(&data).as_ref() { bad.push("start_sha1 in two steps differs from sha1_digest".to_string()) }
            bad
        });
        match r { Err(pn) => fail("C02.no_panic", format!("digest of {n} octets"), pn), Ok(bad) => { sp.outcome(if n % 2 == 0 { "even-length" } else { "odd-length" }); for b in bad { fail("C02.api.digest", format!("content of {n} octets (octet i = 13 i + 5)"), b) } } }
    }
    let encs: Vec<Vec<u8>> = vec![der::alg_sha256(false), der::alg_sha256(true), der::seq(&[der::oid(der::OID_SHA256_WITH_RSA)]), der::seq(&[der::oid(der::OID_SHA256), der::int_u(1)]),
        der::seq(&[]), der::octets(&[1, 2]), der::null(), Vec::new()];
    for e in &encs {
        sp.eval(); sp.nontrivial(1);
        let one = Mode::Der.decode(e.as_slice(), DigestAlgorithm::take_from).is_ok();
        let opt = Mode::Der.decode(e.as_slice(), DigestAlgorithm::take_opt_from);
        let is_seq = e.first() == Some(&0x30);
        let agree = match &opt { Ok(Some(_)) => one, Ok(None) => !is_seq && !one, Err(_) => is_seq && !one };
        sp.outcome(match &opt { Ok(Some(_)) => "some", Ok(None) => "none", Err(_) => "error" });
        if !agree { fail("C02.api.digest", format!("AlgorithmIdentifier {}", hex(e)), format!("take_from ok={one}, take_opt_from={:?}", opt.map(|o| o.is_some()).map_err(|e| e.to_string()))) }
        let set = der::set_unsorted(&[e.clone()]);
        let t = Mode::Der.decode(set.as_slice(), DigestAlgorithm::take_set_from).is_ok();
        let k = Mode::Der.decode(set.as_slice(), DigestAlgorithm::skip_set).is_ok();
        // a set whose only member is not a SEQUENCE is left unread by skip_set's loop; the members it does read must be judged alike
        if is_seq && t != k { fail("C02.api.digest", format!("SET {{ {} }}", hex(e)), format!("take_set_from ok={t}, skip_set ok={k}")) }
    }
    for i in 0..10usize {
        sp.eval(); sp.nontrivial(1);
        let (pk, spki): (PublicKey, Vec<u8>) = if i < 8 { (fx.s.public(i), fx.s.key(i).spki_der.clone()) } else {
            let pk = rpki_verif::engine::signer::ec_public(i - 8); let d = pk.encode_ref().to_captured(Mode::Der).into_bytes().to_vec(); (pk, d) };
        let w = || format!("pool key {i}");
        let r = guard(|| {
            let mut bad = Vec::new();
            if pk.bits_bytes().as_ref() != pk.bits() { bad.push("bits_bytes() != bits()".to_string()) }
            if pk.clone().encode().to_captured(Mode::Der).as_slice() != spki.as_slice() || pk.encode_ref().to_captured(Mode::Der).as_slice() != spki.as_slice() { bad.push("encode() / encode_ref() differ from the SubjectPublicKeyInfo the key was decoded from".to_string()) }
            if PublicKey::decode(spki.as_slice()).ok().as_ref() != Some(&pk) { bad.push("decode(encode()) != key".to_string()) }
            if pk.algorithm() == PublicKeyFormat::Rsa {
                if PublicKey::rsa_from_bits_bytes(pk.bits_bytes()).ok().as_ref() != Some(&pk) { bad.push("rsa_from_bits_bytes(bits_bytes()) != key".to_string()) }
                // modulus and exponent read with the independent TLV reader
                let node = der::parse_one(&spki, false).unwrap();
                let bits = &node.children[1].content(&spki)[1..];
                let rsa = der::parse_one(bits, false).unwrap();
                let strip = |b: &[u8]| -> Vec<u8> { let mut i = 0; while i + 1 < b.len() && b[i] == 0 { i += 1 } b[i..].to_vec() };
                let (n, e) = (strip(rsa.children[0].content(bits)), strip(rsa.children[1].content(bits)));
                if PublicKey::rsa_from_components(&n, &e).ok().as_ref() != Some(&pk) { bad.push("rsa_from_components(n, e) != key".to_string()) }
                if pk.key_identifier() != fx.s.ski(i) { bad.push("key_identifier() != SHA-1 of the key bits".to_string()) }
            }
            bad
        });
        match r { Err(pn) => fail("C02.no_panic", w(), pn), Ok(bad) => { sp.outcome(if i < 8 { "rsa" } else { "ec" }); for b in bad { fail("C02.api.keys", w(), b) } } }
        if i < 8 {
            let ski = fx.s.key(i).ski.to_vec();
            for enc in [der::octets(&ski), der::octets(&ski[..19]), der::int_u(5), Vec::new()] {
                sp.eval();
                let one = Mode::Der.decode(enc.as_slice(), KeyIdentifier::take_from).ok();
                let opt = Mode::Der.decode(enc.as_slice(), KeyIdentifier::take_opt_from);
                let skip = Mode::Der.decode(enc.as_slice(), KeyIdentifier::skip_opt_in);
                let is_os = enc.first() == Some(&0x04);
                let agree = match (&opt, &skip) {
                    (Ok(Some(k)), Ok(Some(()))) => one == Some(*k) && *k == fx.s.ski(i),
                    (Ok(None), Ok(None)) => !is_os && one.is_none(),
                    (Err(_), Err(_)) => is_os && one.is_none(),
                    _ => false,
                };
                if !agree { fail("C02.api.keys", format!("KeyIdentifier encoding {} (pool key {i})", hex(&enc)), format!("take_from={:?} take_opt_from={:?} skip_opt_in={:?}", one, opt.map_err(|e| e.to_string()), skip.map_err(|e| e.to_string()))) }
            }
        }
    }
    sp.sample_str(|| "pool key 0: rsa_from_components(n, e), rsa_from_bits_bytes(bits_bytes()), decode(encode()) all equal the key".to_string());
    sp.done(true, "303 contents; 8 algorithm-identifier encodings; 10 keys; 4 key-identifier encodings x 8 keys");
}

//------------ BER respelling of one field of a DER object ----------------------------------------------

#[derive(Clone, Debug, PartialEq, Eq, PartialOrd, Ord)]
enum Spell {
    /// definite length with one superfluous length octet
    NonMinimal,
    /// definite length written as 0x84 + four octets
    Long4,
    /// indefinite length + end-of-contents (constructed values only)
    Indefinite,
    /// primitive string written constructed, cut at these positions into OCTET STRING segments
    Segments(Vec<usize>),
}

impl Spell {
    fn name(&self) -> String {
        match self { Spell::NonMinimal => "non-minimal-length".into(), Spell::Long4 => "4-octet-length".into(), Spell::Indefinite => "indefinite-length".into(),
            Spell::Segments(c) => format!("constructed-{}-segments-cut-at-{:?}", c.len() + 1, c) }
    }
}

/// Re-writes `node` (and nothing else) of the DER object `buf` in another BER spelling.
fn respell(buf: &[u8], node: &der::Node, path: &mut Vec<usize>, target: &[usize], sp: &Spell) -> Vec<u8> {
    if !target.starts_with(path) { return node.whole(buf).to_vec() }
    let is_target = path.as_slice() == target;
    let content: Vec<u8> = if node.constructed() {
        let mut c = Vec::new();
        for (i, ch) in node.children.iter().enumerate() { path.push(i); c.extend(respell(buf, ch, path, target, sp)); path.pop(); }
        c
    } else { node.content(buf).to_vec() };
    if !is_target { return der::tlv(node.tag, &content) }
    let n = content.len();
    let mut out = Vec::new();
    match sp {
        Spell::NonMinimal => {
            out.push(node.tag);
            if n < 128 { out.extend([0x81, n as u8]) } else { let l = der::len_octets(n); out.push(l[0] + 1); out.push(0); out.extend(&l[1..]) }
            out.extend(content);
        }
        Spell::Long4 => { out.push(node.tag); out.push(0x84); out.extend((n as u32).to_be_bytes()); out.extend(content) }
        Spell::Indefinite => { out.push(node.tag); out.push(0x80); out.extend(content); out.extend([0, 0]) }
        Spell::Segments(cuts) => {
            let mut segs = Vec::new();
            let mut prev = 0;
            for &c in cuts.iter().chain(std::iter::once(&n)) { segs.extend(der::tlv(der::T_OCTSTR, &content[prev..c])); prev = c }
            out = der::tlv(node.tag | 0x20, &segs);
        }
    }
    out
}

/// All ways to cut `n` octets into `k` non-empty segments (cut positions).
fn cuts_into(n: usize, k: usize) -> Vec<Vec<usize>> {
    fn rec(start: usize, n: usize, left: usize, cur: &mut Vec<usize>, out: &mut Vec<Vec<usize>>) {
        if left == 0 { out.push(cur.clone()); return }
        for c in start..n { cur.push(c); rec(c + 1, n, left - 1, cur, out); cur.pop(); }
    }
    let mut out = Vec::new();
    rec(1, n, k - 1, &mut Vec::new(), &mut out);
    out
}

/// (field name, path, spellings) for a CMS SignedData object.
fn cms_fields(buf: &[u8], full_sid: bool) -> Vec<(&'static str, Vec<usize>, Vec<Spell>)> {
    let root = der::parse_one(buf, false).expect("object of the independent encoder parses");
    let sd = &root.children[1].children[0];
    let si_idx = sd.children.len() - 1;
    let si = vec![1, 0, si_idx, 0];
    let hdr = || vec![Spell::NonMinimal, Spell::Long4, Spell::Indefinite];
    let with = |p: &[usize], i: usize| { let mut v = p.to_vec(); v.push(i); v };
    let mut f: Vec<(&'static str, Vec<usize>, Vec<Spell>)> = vec![
        ("ContentInfo", vec![], hdr()), ("content[0]", vec![1], hdr()), ("SignedData", vec![1, 0], hdr()), ("version", vec![1, 0, 0], vec![Spell::NonMinimal, Spell::Long4]),
        ("digestAlgorithms", vec![1, 0, 1], hdr()), ("digestAlgorithm", vec![1, 0, 1, 0], hdr()), ("encapContentInfo", vec![1, 0, 2], hdr()),
        ("eContentType", vec![1, 0, 2, 0], vec![Spell::NonMinimal, Spell::Long4]), ("eContent[0]", vec![1, 0, 2, 1], hdr()),
        ("certificates[0]", vec![1, 0, 3], hdr()), ("Certificate", vec![1, 0, 3, 0], hdr()),
        ("signerInfos", vec![1, 0, si_idx], hdr()), ("SignerInfo", si.clone(), hdr()), ("SignerInfo.version", with(&si, 0), vec![Spell::NonMinimal, Spell::Long4]),
        ("SignerInfo.digestAlgorithm", with(&si, 2), hdr()), ("signedAttrs[0]", with(&si, 3), hdr()), ("signatureAlgorithm", with(&si, 4), hdr()),
    ];
    if si_idx == 5 { f.push(("crls[1]", vec![1, 0, 4], hdr())); f.push(("CertificateList", vec![1, 0, 4, 0], hdr())) }
    // eContent OCTET STRING
    let ec = &sd.children[2].children[1].children[0];
    let mut sp = vec![Spell::NonMinimal, Spell::Long4];
    for k in [1usize, 2, 3, 4, 17] { if ec.len >= k { sp.push(Spell::Segments((1..k).map(|i| i * ec.len / k).collect())) } }
    f.push(("eContent", vec![1, 0, 2, 1, 0], sp));
    // sid [0]: every split into 1..=4 segments (full) or a few, and 20 segments
    let mut sp = vec![Spell::NonMinimal, Spell::Long4, Spell::Segments(vec![])];
    if full_sid { for k in 2..=4 { sp.extend(cuts_into(20, k).into_iter().map(Spell::Segments)) } }
    else { sp.extend([vec![1], vec![10], vec![19], vec![1, 2], vec![7, 14], vec![5, 10, 15]].map(Spell::Segments)) }
    sp.push(Spell::Segments((1..20).collect()));
    f.push(("sid[0]", with(&si, 1), sp));
    // signature OCTET STRING
    let mut sp = vec![Spell::NonMinimal, Spell::Long4];
    for k in [1usize, 2, 3, 4, 16, 256] { sp.push(Spell::Segments((1..k).collect::<Vec<_>>().iter().map(|i| i * 256 / k).collect())) }
    f.push(("signature", with(&si, 5), sp));
    f
}

fn ber_respellings(ctx: &Ctx, fx: &Fx, ees: &BTreeMap<(Kind, EeV), Vec<u8>>) {
    let sp = ctx.space("ber.respelling",
        "every field of the CMS wrapper of a DER object re-written in another BER spelling, one field at a time: non-minimal length, 4-octet length, indefinite length at ContentInfo, content [0], SignedData, version, digestAlgorithms, its member, encapContentInfo, eContentType, eContent [0], certificates [0], Certificate, signerInfos, SignerInfo, its version, digestAlgorithm, signedAttrs [0], signatureAlgorithm; eContent and signature as constructed OCTET STRINGs of 1,2,3,4,16/17,256 segments; sid [0] constructed in every split into 1..=4 segments and in 20 segments (all-satisfied objects; a selection for violated ones). Objects: 4 kinds x {all satisfied, every single violation}. Relaxed decoding: if the decoder admits the spelling the verdict must be the condition vector's (a validation error on an all-satisfied object is a violation, a decode error is counted per field); strict decoding: nothing with a violated condition may be accepted; nothing may panic; non-trivial = admitted respellings");
    let mut plans: Vec<Plan> = Vec::new();
    for k in KINDS { plans.push(Plan::base(k)); for v in all_single() { let mut p = Plan::base(k); v.apply(&mut p); plans.push(p) } }
    let admitted: Mutex<BTreeMap<String, (u64, u64)>> = Mutex::new(BTreeMap::new());
    let t = Tally::new();
    let nt = Mutex::new(0u64);
    plans.par_iter().for_each(|p| {
        let bytes = assemble(fx, p, &ees[&(p.kind, p.ee)]);
        let Some(root) = der::parse_one(&bytes, false) else { return };
        let mut local: BTreeMap<String, (u64, u64)> = BTreeMap::new();
        let mut n_adm = 0u64;
        for (fname, path, spells) in cms_fields(&bytes, p.all_ok()) { for spl in &spells {
            if matches!(spl, Spell::Indefinite) && path.is_empty() && false { continue }
            let m = respell(&bytes, &root, &mut Vec::new(), &path, spl);
            for strict in [false, true] {
                let (v, _) = run(fx, p.kind, &m, &fx.ca, strict, Entry::At);
                sp.eval();
                t.add(match (&v, strict) { (Verdict::Accept, _) => "accepted", (Verdict::Decode(_), false) => "not-admitted-relaxed", (Verdict::Decode(_), true) => "refused-strict", (Verdict::Panic(_), _) => "panic", _ => "rejected-at-validation" });
                let wit = || format!("{} field={fname} spelling={} (object of {} octets -> {})", p.witness(strict), spl.name(), bytes.len(), m.len());
                match &v {
                    Verdict::Panic(pn) => fail("C02.no_panic", wit(), pn.clone()),
                    Verdict::Accept if !p.all_ok() => fail("C02.ber.reject", wit(), "a stated condition is violated but the respelled object was accepted"),
                    Verdict::Invalid(e) if p.all_ok() && !strict => fail("C02.ber.accept", wit(), format!("all stated conditions hold and the decoder admitted the spelling, yet validation failed: {}", trunc(e, 160))),
                    _ => {}
                }
                if !strict && p.all_ok() {
                    let e = local.entry(fname.to_string()).or_insert((0, 0));
                    if matches!(v, Verdict::Decode(_)) { e.1 += 1 } else { e.0 += 1; n_adm += 1 }
                }
            }
        }}
        *nt.lock().unwrap() += n_adm;
        let mut g = admitted.lock().unwrap();
        for (k, (a, r)) in local { let e = g.entry(k).or_insert((0, 0)); e.0 += a; e.1 += r }
    });
    sp.merge_outcomes(&t.oc.lock().unwrap());
    sp.nontrivial(*nt.lock().unwrap());
    let adm = admitted.into_inner().unwrap();
    sp.set("all_satisfied_relaxed_admitted_vs_refused_per_field", serde_json::json!(adm.iter().map(|(k, (a, r))| format!("{k}: {a} admitted, {r} refused at decode")).collect::<Vec<_>>()));
    sp.sample_str(|| "kind=roa all satisfied field=signedAttrs[0] spelling=indefinite-length relaxed -> accepted".to_string());
    sp.done(true, &format!("{} objects x 22 fields x their spellings (sid: 1162 splits for all-satisfied objects) x 2 modes", plans.len()));
}

//------------ the scale dimension ------------------------------------------------------------------------

fn scale_counts(max_small: usize, powers: &[usize]) -> Vec<usize> {
    let mut v: Vec<usize> = (0..=max_small).collect();
    for &p in powers { v.extend([p - 1, p, p + 1]) }
    v.sort(); v.dedup(); v
}

fn scale_spaces(ctx: &Ctx, fx: &Fx, thorough: bool) {
    //--- number of blocks of the EE certificate / the issuing CA
    let sp = ctx.space("roa.blocks.scale",
        "EE certificates (and issuing CAs the EE inherits from) holding N disjoint blocks with gaps, N in 0..=40, 63..=65, 127..=129, 255..=257: block j is the /24 (v6: /48) number q of the j-th /22 (/46), q in {1, 2}, so that every kind of straddling prefix exists; one-prefix ROAs: before the first block, after the last, far after; and for block j (every j for N <= 40; else first, second, 15th..17th, middle, last but one, last; thorough: every j): the block itself, both halves, first and last host, the /23 around it (start in gap / end in block for q=1, start in block / end in gap for q=2), the /22 spanning it, the gap before and the gap after; v4 explicit and inherited, v6 explicit: accepted <=> one block contains the prefix; non-trivial = all");
    let counts = scale_counts(40, &[64, 128, 256]);
    let maxn = *counts.last().unwrap();
    let ta = pki::valid_ta(&fx.s, K_TA, Res::all());
    for (v6, inherit) in [(false, false), (false, true), (true, false)] {
        let w = fam_width(v6);
        let unit: u128 = 1u128 << (w - if v6 { 48 } else { 24 });     // size of a block
        let base: u128 = if v6 { 0x2001_0db8u128 << 96 } else { 0x0a00_0000 };
        let blen: u8 = if v6 { 48 } else { 24 };
        for q in [1u128, 2] {
            let bmin = |j: usize| base + (j as u128 * 4 + q) * unit;
            // queries of block j: (label, bits, len)
            let queries = |j: usize| -> Vec<(&'static str, u128, u8)> {
                let b = bmin(j);
                vec![("block", b, blen), ("lower-half", b, blen + 1), ("upper-half", b + unit / 2, blen + 1), ("first-host", b, w as u8), ("last-host", b + unit - 1, w as u8),
                     ("straddling-pair", b & !(2 * unit - 1), blen - 1), ("spanning-quad", b & !(4 * unit - 1), blen - 2), ("gap-before", b - unit, blen), ("gap-after", b + unit, blen)]
            };
            // pre-sign every content once: block positions do not depend on N
            let mut contents: Vec<(String, u128, u8)> = vec![("before-first".into(), base - unit, blen), ("far-after".into(), base + (maxn as u128 * 4 + 8) * unit, blen)];
            for j in 0..maxn { for (l, bits, len) in queries(j) { contents.push((format!("{l}-of-block-{j}"), bits, len)) } }
            let signed: Vec<Signed> = contents.par_iter().map(|(_, bits, len)| {
                let a = [to_roa_addr(&Pfx { bits: *bits, len: *len, max: None }, v6)];
                presign(fx, Kind::Roa, if v6 { der::roa_content(None, 64496, None, Some(&a)) } else { der::roa_content(None, 64496, Some(&a), None) })
            }).collect();
            let idx_of = |j: usize, qi: usize| 2 + j * 9 + qi;
            let t = Tally::new();
            counts.par_iter().for_each(|&n| {
                let blocks: Vec<(u128, u128)> = (0..n).map(|j| (bmin(j), bmin(j) + unit - 1)).collect();
                let claim = if n == 0 { Claim::Missing } else { Claim::Blocks(blocks.clone()) };
                // a second family keeps the certificates well-formed when N = 0
                let other = Claim::Blocks(vec![if v6 { (0x0a00_0000, 0x0a00_00ff) } else { (0x2001_0db8u128 << 96, (0x2001_0db8u128 << 96) + 0xffff) }]);
                let res = |c: Claim| if v6 { Res { v4: other.clone(), v6: c, asn: Claim::Missing } } else { Res { v4: c, v6: other.clone(), asn: Claim::Missing } };
                let built = guard(|| if inherit {
                    (ee_der(fx, res(Claim::Inherit), EeV::Ok, 8000 + n as u128), pki::valid_ca(&fx.s, &ta, K_TA, K_CA, res(claim.clone())))
                } else { (ee_der(fx, res(claim.clone()), EeV::Ok, 8000 + n as u128), fx.ca.clone()) });
                let (cert, issuer) = match built { Ok(x) => x, Err(pn) => { fail("C02.no_panic", format!("building certificates with {n} blocks"), pn); return } };
                let mut js: Vec<usize> = if n <= 40 || thorough { (0..n).collect() } else { vec![0, 1, 15, 16, 17, n / 2, n - 2, n - 1] };
                js.sort(); js.dedup();
                let mut cases: Vec<usize> = vec![0, 1];
                for &j in &js { for qi in 0..9 { cases.push(idx_of(j, qi)) } }
                if n < maxn { cases.push(idx_of(n, 0)) }     // the block right after the last one
                for ci in cases {
                    let (label, bits, len) = &contents[ci];
                    let pmax = bits + if *len as u32 == w { 0 } else { (1u128 << (w - *len as u32)) - 1 };
                    let want = blocks.iter().any(|&(lo, hi)| lo <= *bits && pmax <= hi);
                    let bytes = wrap(fx, Kind::Roa, &signed[ci], &cert);
                    let (v, _) = run(fx, Kind::Roa, &bytes, &issuer, true, Entry::Process(true));
                    sp.eval(); sp.nontrivial(1); t.add(v.class());
                    expect(ctx, "C02.roa.covered.accept", "C02.roa.uncovered.reject", want, &v,
                        || format!("roa prefix={} ({label}) {} {n} blocks: block j = {} number {q} of the j-th {} from {}", render_pfx(&Pfx { bits: *bits, len: *len, max: None }, v6),
                            if inherit { "ee inherits from a CA holding" } else { "ee certificate holds" }, if v6 { "/48" } else { "/24" }, if v6 { "/46" } else { "/22" }, if v6 { "2001:db8::" } else { "10.0.0.0" }));
                }
            });
            sp.merge_outcomes(&t.oc.lock().unwrap());
        }
    }
    sp.set("block_counts", serde_json::json!(counts));
    sp.sample_str(|| "roa prefix=v4:0a004400/23 (straddling-pair-of-block-17) ee certificate holds 20 blocks -> rejected (starts in a gap, ends inside block 17)".to_string());
    sp.done(true, &format!("{} block counts x 2 layouts x {{v4 explicit, v4 inherited, v6 explicit}} x (3 + 9 per queried block) prefixes", counts.len()));

    //--- number of prefixes in a ROA, of providers in an ASPA, of entries in a manifest
    let sp = ctx.space("content.count.scale",
        "ROAs with N prefixes (distinct /24s under 10.0.0.0/8, EE holds 10.0.0.0/8 minus nothing) for N in 1..=40, 63..=65, 127..=129, 255..=257, 1023..=1025, 4095..=4097: all covered: accepted; exactly one (first / middle / last) replaced by a prefix outside the EE's resources: rejected. ASPAs with N providers, N in 1..=40 and the neighbourhoods of 64, 128, 256, 1024, 4096, 16384 and 16379..=16381 (MAX 16380): accepted up to the documented maximum, counted beyond it; customer not in the EE's AS resources: rejected. Manifests with N entries (same counts up to 4097): accepted, with a wrong digest rejected; non-trivial = all");
    let t = Tally::new();
    let roa_counts: Vec<usize> = scale_counts(40, &[64, 128, 256, 1024, 4096]).into_iter().filter(|&n| n >= 1).collect();
    let roa_cert = ee_der(fx, Res { v4: Claim::Blocks(vec![(0x0a00_0000, 0x0aff_ffff)]), v6: Claim::Missing, asn: Claim::Missing }, EeV::Ok, 8800);
    let mut jobs: Vec<(usize, Option<usize>)> = Vec::new();
    for &n in &roa_counts { jobs.push((n, None)); for bad in [0, n / 2, n - 1] { jobs.push((n, Some(bad))) } }
    jobs.sort(); jobs.dedup();
    jobs.par_iter().for_each(|&(n, bad)| {
        let addrs: Vec<RoaAddr> = (0..n).map(|i| if Some(i) == bad { der::roa_addr_from(0x0b00_0000 | ((i as u128) << 8), 24, 32, None) } else { der::roa_addr_from(0x0a00_0000 | ((i as u128) << 8), 24, 32, None) }).collect();
        let bytes = wrap(fx, Kind::Roa, &presign(fx, Kind::Roa, der::roa_content(None, 64496, Some(&addrs), None)), &roa_cert);
        let (v, _) = run(fx, Kind::Roa, &bytes, &fx.ca, true, Entry::Process(true));
        sp.eval(); sp.nontrivial(1); t.add(v.class());
        expect(ctx, "C02.roa.covered.accept", "C02.roa.uncovered.reject", bad.is_none(), &v, || format!("roa with {n} prefixes 10.0.i.0/24, i < {n}{}; ee holds 10.0.0.0/8", bad.map(|b| format!(", prefix number {b} replaced by 11.0.{b}.0/24")).unwrap_or_default()));
    });
    let aspa_counts: Vec<usize> = { let mut v = scale_counts(40, &[64, 128, 256, 1024, 4096, 16384]); v.extend([16379, 16380, 16381]); v.sort(); v.dedup(); v.into_iter().filter(|&n| n >= 1).collect() };
    let aspa_cert = ee_der(fx, default_res(Kind::Aspa), EeV::Ok, 8801);
    let mut jobs: Vec<(usize, bool)> = Vec::new();
    for &n in &aspa_counts { jobs.push((n, true)); jobs.push((n, false)) }
    jobs.par_iter().for_each(|&(n, customer_ok)| {
        let providers: Vec<u128> = (0..n).map(|i| 70_000 + 2 * i as u128).collect();
        let bytes = wrap(fx, Kind::Aspa, &presign(fx, Kind::Aspa, der::aspa_content(Some(1), if customer_ok { 64496 } else { 64497 }, &providers)), &aspa_cert);
        let (v, _) = run(fx, Kind::Aspa, &bytes, &fx.ca, true, Entry::Process(true));
        sp.eval(); sp.nontrivial(1);
        let wit = || format!("aspa customer=AS{} with {n} providers AS70000, AS70002, ...; ee holds AS64496", if customer_ok { 64496 } else { 64497 });
        if n > 16380 && customer_ok { t.add(if v.accepted() { "over-maximum-accepted" } else { "over-maximum-rejected" }); if let Verdict::Panic(pn) = &v { fail("C02.no_panic", wit(), pn.clone()) } }
        else { t.add(v.class()); expect(ctx, "C02.aspa.accept", "C02.aspa.reject", customer_ok, &v, wit) }
    });
    let mft_counts: Vec<usize> = scale_counts(40, &[64, 128, 256, 1024, 4096]);
    let mft_cert = ee_der(fx, default_res(Kind::Mft), EeV::Ok, 8802);
    let mut jobs: Vec<(usize, bool)> = Vec::new();
    for &n in &mft_counts { jobs.push((n, true)); jobs.push((n, false)) }
    jobs.par_iter().for_each(|&(n, good)| {
        let files: Vec<(Vec<u8>, u8)> = (0..n).map(|i| (format!("f{:06}.roa", i).into_bytes(), (i % 251) as u8)).collect();
        let mut p = Plan::base(Kind::Mft); p.content = mft_content(&files);
        if !good { p.digest = DigestV::FlipLast }
        let bytes = assemble(fx, &p, &mft_cert);
        let (v, _) = run(fx, Kind::Mft, &bytes, &fx.ca, true, Entry::At);
        sp.eval(); sp.nontrivial(1); t.add(v.class());
        expect(ctx, "C02.content.size.accept", "C02.content.size.reject", good, &v, || format!("manifest with {n} entries; {}", p.witness(true)));
    });
    sp.merge_outcomes(&t.oc.lock().unwrap());
    sp.set("roa_prefix_counts", serde_json::json!(roa_counts));
    sp.set("aspa_provider_counts", serde_json::json!(aspa_counts));
    sp.sample_str(|| "roa with 17 prefixes, prefix number 16 replaced by 11.0.16.0/24 -> rejected".to_string());
    sp.done(true, &format!("{} ROA prefix counts x 4; {} ASPA provider counts x 2; {} manifest entry counts x 2", roa_counts.len(), aspa_counts.len(), mft_counts.len()));
}

//------------ fields no stated condition mentions --------------------------------------------------------------
// The acceptance predicate of the property names: message digest, signature over the SET OF encoding, signer
// identifier, the EE certificate validating under the issuer at the evaluation instant, attribute cardinality /
// content type agreement, ROA prefix and ASPA customer coverage, the CRL callback. Every other field the decoders
// read (sigobj.rs, roa.rs, aspa.rs, manifest.rs, and the EE certificate's fields that C01's predicate does not
// name) is an *ignored field*: its value may not change the verdict in either direction.

const Y0001: i64 = -62_135_596_800;      // 0001-01-01T00:00:00Z
const Y1900: i64 = -2_208_988_800;       // 1900-01-01T00:00:00Z
const Y1950: i64 = -631_152_000;         // 1950-01-01T00:00:00Z, the first UTCTime instant
const Y9999_END: i64 = 253_402_300_799;  // 9999-12-31T23:59:59Z, the last GeneralizedTime instant

fn iso(secs: i64) -> String {
    let c = civil(secs);
    format!("{:04}-{:02}-{:02}T{:02}:{:02}:{:02}Z", c.y, c.mo, c.d, c.h, c.mi, c.s)
}

/// UTCTime can express 1950..=2049 only.
fn utc_expressible(secs: i64) -> bool { (Y1950..=FAR).contains(&secs) }

/// An EE certificate (key K_EE, issued by K_CA) with every field free that C01's predicate does not name.
#[derive(Clone, Debug)]
struct EeOpt {
    res: Res,
    overclaim: Overclaim,
    v: EeV,
    /// big-endian magnitude, at most 20 octets, first bit clear
    serial: Vec<u8>,
    nb: i64,
    na: i64,
    /// DER of the Name; None = the name the library derives from the key
    subject: Option<Vec<u8>>,
    issuer: Option<Vec<u8>>,
    sia: String,
    crl: String,
    aia: String,
    /// a non-critical extension nobody registered, written after the subject key identifier
    unknown_ext: bool,
    /// an id-ad-rpkiNotify access description in the SIA
    notify: bool,
}

impl EeOpt {
    fn base(kind: Kind) -> EeOpt {
        EeOpt { res: default_res(kind), overclaim: Overclaim::Refuse, v: EeV::Ok, serial: vec![100 + kind as u8], nb: T0 - DAY, na: FAR, subject: None, issuer: None,
                sia: "rsync://example.net/repo/ca/obj.roa".into(), crl: "rsync://example.net/repo/ca/ca.crl".into(), aia: "rsync://example.net/repo/ca.cer".into(), unknown_ext: false, notify: false }
    }
}

fn name_from_der(d: &[u8]) -> rpki::repository::x509::Name {
    bcder::Mode::Der.decode(d, rpki::repository::x509::Name::take_from).expect("name written by the independent encoder decodes")
}

fn name_der(n: &rpki::repository::x509::Name) -> Vec<u8> { bcder::Captured::from_values(bcder::Mode::Der, n.encode_ref()).as_slice().to_vec() }

/// Name of one RDN per attribute: commonName and optionally serialNumber, both PrintableString (RFC 6487 section 4.4).
fn rdn_name(cn: &str, sn: Option<&str>) -> Vec<u8> {
    let mut rdns = vec![der::set_unsorted(&[der::seq(&[der::oid(&[2, 5, 4, 3]), der::printable(cn)])])];
    if let Some(sn) = sn { rdns.push(der::set_unsorted(&[der::seq(&[der::oid(&[2, 5, 4, 5]), der::printable(sn)])])) }
    der::seq(&rdns)
}

fn ee_custom(fx: &Fx, o: &EeOpt) -> Vec<u8> {
    use rpki::repository::cert::{KeyUsage, TbsCert};
    use rpki::repository::x509::Serial;
    let issuer_name = match &o.issuer { Some(d) => name_from_der(d), None => fx.s.public(K_CA).to_subject_name() };
    let subject = o.subject.as_ref().map(|d| name_from_der(d));
    let validity = if o.v == EeV::Expired { expired_validity() } else { Validity::new(pki::time(o.nb), pki::time(o.na)) };
    let mut tbs = TbsCert::new(Serial::from_slice(&o.serial).expect("serial of at most 20 octets"), issuer_name, validity, subject, fx.s.public(K_EE), KeyUsage::Ee, o.overclaim);
    tbs.set_signed_object(Some(pki::rsync(&o.sia)));
    tbs.set_crl_uri(Some(pki::rsync(&o.crl)));
    tbs.set_ca_issuer(Some(pki::rsync(&o.aia)));
    if o.notify { tbs.set_rpki_notify(Some(std::str::FromStr::from_str("https://rrdp.example.net/notification.xml").expect("https URI"))) }
    tbs.set_authority_key_identifier(Some(if o.v == EeV::AkiMismatch { fx.s.ski(K_CA2) } else { fx.s.ski(K_CA) }));
    tbs.set_v4_resources(pki::ip_res(32, &o.res.v4));
    tbs.set_v6_resources(pki::ip_res(128, &o.res.v6));
    tbs.set_as_resources(pki::as_res(&o.res.asn));
    let mut tbs_der = bcder::Captured::from_values(bcder::Mode::Der, tbs.encode_ref()).as_slice().to_vec();
    if o.unknown_ext {
        use rpki_verif::engine::certref;
        let private = der::oid(&[1, 3, 6, 1, 4, 1, 99999, 9, 9]);
        tbs_der = certref::map_extensions(&tbs_der, &mut |oid, whole| {
            let mut v = vec![whole.to_vec()];
            if oid == certref::OID_SKI { v.push(certref::extension(&private[2..], false, &der::seq(&[der::utf8("ignored"), der::int_u(7)]))) }
            v
        });
    }
    pki::sign_tbs(&fx.s, if o.v == EeV::WrongIssuerKey { K_CA2 } else { K_CA }, &tbs_der)
}

static EE_CACHE: Mutex<BTreeMap<String, std::sync::Arc<Vec<u8>>>> = Mutex::new(BTreeMap::new());

fn ee_cached(fx: &Fx, o: &EeOpt) -> std::sync::Arc<Vec<u8>> {
    let key = format!("{o:?}");
    if let Some(c) = EE_CACHE.lock().unwrap().get(&key) { return c.clone() }
    let c = std::sync::Arc::new(ee_custom(fx, o));
    EE_CACHE.lock().unwrap().entry(key).or_insert(c).clone()
}

/// `validate_at` at an arbitrary instant (manifest and generic object only; ROA and ASPA have no timed entry point).
fn run_at(kind: Kind, bytes: &[u8], issuer: &ResourceCert, strict: bool, t: Time) -> Verdict {
    let b = Bytes::copy_from_slice(bytes);
    let r = guard(|| match kind {
        Kind::Mft => match Manifest::decode(b, strict) {
            Err(e) => Verdict::Decode(e.to_string()),
            Ok(o) => match o.validate_at(issuer, strict, t) { Ok(_) => Verdict::Accept, Err(e) => Verdict::Invalid(e.to_string()) } },
        _ => match SignedObject::decode(b, strict) {
            Err(e) => Verdict::Decode(e.to_string()),
            Ok(o) => match o.validate_at(issuer, strict, t) { Ok(_) => Verdict::Accept, Err(e) => Verdict::Invalid(e.to_string()) } },
    });
    match r { Ok(v) => v, Err(p) => Verdict::Panic(p) }
}

#[derive(Clone, Debug)]
enum EeField { Serial(Vec<u8>), Subject(Vec<u8>), Issuer(Vec<u8>), Window(i64, i64), Sia(String), Crl(String), Aia(String), UnknownExt, Notify }

#[derive(Clone, Debug)]
enum IgnOp {
    /// value and form of the signing-time attribute
    St { secs: i64, gt: bool },
    /// binary-signing-time attribute with the signing time + delta seconds, written at this position
    Bst { delta: i64, pos: usize },
    /// an attribute nobody registered, written last
    UnknownAttr,
    /// a second member of the certificates set: 0 = the issuing CA's certificate, 1 = the EE certificate once more
    ExtraCert(u8),
    /// a crls [1] field holding the issuer's (empty) CRL
    Crl,
    Ee(EeField),
    /// index into the content menu of the kind
    Content(usize),
}

#[derive(Clone, Debug)]
struct Ign {
    /// the field (two deviations of the same family are never combined)
    family: &'static str,
    label: String,
    /// well-formed by the profile: must be admitted and, all conditions holding, accepted. Otherwise the decoder may
    /// refuse the value at decode; if it admits it, the verdict must be the condition vector's.
    must_admit: bool,
    op: IgnOp,
}

/// A content of a kind with an ignored content field deviating: (label, well-formed, covered content, uncovered twin).
struct ContentVar { label: String, must_admit: bool, covered: Vec<u8>, uncovered: Option<Vec<u8>> }

fn content_menu(kind: Kind) -> Vec<ContentVar> {
    let mut v = Vec::new();
    match kind {
        Kind::Roa => {
            let mk = |version: Option<u128>, asid: u128, covered: bool| {
                let first = if covered { der::roa_addr_from(0x0a00_0000, 8, 32, Some(24)) } else { der::roa_addr_from(0x0b00_0000, 8, 32, Some(24)) };
                der::roa_content(version, asid, Some(&[first, der::roa_addr_from(0x0a01_0200, 24, 32, None)]), Some(&[der::roa_addr_from(0x2001_0db8u128 << 96, 32, 128, Some(48))]))
            };
            for asid in [64496u128, 0, 1, 23456, 65535, 65536, u32::MAX as u128 - 1, u32::MAX as u128] {
                v.push(ContentVar { label: format!("asID={asid}"), must_admit: true, covered: mk(None, asid, true), uncovered: Some(mk(None, asid, false)) });
            }
            v.push(ContentVar { label: "version [0] 0 written out".into(), must_admit: false, covered: mk(Some(0), 64496, true), uncovered: Some(mk(Some(0), 64496, false)) });
        }
        Kind::Aspa => {
            // the EE certificate holds AS64496 only; the uncovered twin has customer AS65000
            let lists: Vec<(String, bool, Vec<u128>)> = vec![
                ("providers=[64497,64498]".into(), true, vec![64497, 64498]),
                ("providers=[0]".into(), false, vec![0]),
                ("providers=[4294967295]".into(), true, vec![u32::MAX as u128]),
                ("providers=[0,4294967295]".into(), false, vec![0, u32::MAX as u128]),
                ("providers=[customer-1,customer+1]".into(), true, vec![]),
                ("providers=[1]".into(), true, vec![1]),
                ("providers=[23456,65535,65536]".into(), true, vec![23456, 65535, 65536]),
                ("40 providers 70000,70002,..".into(), true, (0..40).map(|i| 70_000 + 2 * i as u128).collect()),
                ("providers=[customer]".into(), false, vec![u128::MAX]),
                ("providers=[customer-1,customer,customer+1]".into(), false, vec![u128::MAX, u128::MAX]),
            ];
            for (label, must, list) in lists {
                let mk = |customer: u128| {
                    let l: Vec<u128> = if list.is_empty() { vec![customer - 1, customer + 1] }
                        else if list == [u128::MAX] { vec![customer] }
                        else if list == [u128::MAX, u128::MAX] { vec![customer - 1, customer, customer + 1] }
                        else { list.clone() };
                    der::aspa_content(Some(1), customer, &l)
                };
                v.push(ContentVar { label, must_admit: must, covered: mk(64496), uncovered: Some(mk(65000)) });
            }
        }
        Kind::Mft => {
            let entries = |n: usize| -> Vec<MftEntry> { (0..n).map(|i| MftEntry { name: format!("f{i}.roa").into_bytes(), hash_unused: 0, hash: vec![i as u8 + 1; 32] }).collect() };
            let gt = |s: i64| der::gentime(civil(s));
            let mk = |number: &[u8], this: Vec<u8>, next: Vec<u8>, n: usize| der::manifest_content(None, number, this, next, der::OID_SHA256, &entries(n));
            v.push(ContentVar { label: "number=1 thisUpdate=eval-1h nextUpdate=eval+1d".into(), must_admit: true, covered: default_content(Kind::Mft), uncovered: None });
            let max20 = { let mut b = vec![0x7fu8]; b.extend([0xff; 19]); b };
            for (label, must, num) in [("number=0", true, vec![0u8]), ("number=127", true, vec![127]), ("number=128", true, vec![128]), ("number=2^64", true, vec![1, 0, 0, 0, 0, 0, 0, 0, 0]),
                                       ("number=2^159-1 (20 octets)", true, max20.clone()), ("number=2^160 (21 octets)", false, { let mut b = vec![1u8]; b.extend([0; 20]); b })] {
                v.push(ContentVar { label: label.into(), must_admit: must, covered: mk(&num, gt(T0 - 3600), gt(T0 + DAY), 2), uncovered: None });
            }
            for (label, this, next) in [("stale: thisUpdate=eval-2d nextUpdate=eval-1d", T0 - 2 * DAY, T0 - DAY), ("nextUpdate=eval-1s", T0 - 3600, T0 - 1), ("nextUpdate=eval", T0 - 3600, T0),
                                        ("not yet current: thisUpdate=eval+1d nextUpdate=eval+2d", T0 + DAY, T0 + 2 * DAY), ("thisUpdate=eval+1s", T0 + 1, T0 + DAY), ("thisUpdate=nextUpdate=eval", T0, T0),
                                        ("thisUpdate=1950-01-01 nextUpdate=9999-12-31T23:59:59", Y1950, Y9999_END), ("thisUpdate=0001-01-01 nextUpdate=1949-12-31T23:59:59", Y0001, Y1950 - 1),
                                        ("thisUpdate=2050-01-01 nextUpdate=9999-12-31T23:59:59", FAR + 1, Y9999_END), ("thisUpdate before / nextUpdate after the EE certificate's window", T0 - 2 * DAY, FAR + 1)] {
                v.push(ContentVar { label: label.into(), must_admit: true, covered: mk(&[1], gt(this), gt(next), 2), uncovered: None });
            }
            v.push(ContentVar { label: "thisUpdate / nextUpdate as UTCTime".into(), must_admit: false, covered: mk(&[1], der::utctime(civil(T0 - 3600)), der::utctime(civil(T0 + DAY)), 2), uncovered: None });
            v.push(ContentVar { label: "empty file list".into(), must_admit: true, covered: mk(&[1], gt(T0 - 3600), gt(T0 + DAY), 0), uncovered: None });
            v.push(ContentVar { label: "version [0] 0 written out".into(), must_admit: false,
                covered: der::manifest_content(Some(0), &[1], gt(T0 - 3600), gt(T0 + DAY), der::OID_SHA256, &entries(2)), uncovered: None });
        }
        Kind::Gen => {
            v.push(ContentVar { label: "default content".into(), must_admit: true, covered: default_content(Kind::Gen), uncovered: None });
            v.push(ContentVar { label: "empty content".into(), must_admit: true, covered: Vec::new(), uncovered: None });
            v.push(ContentVar { label: "content = a ROA eContent".into(), must_admit: true, covered: default_content(Kind::Roa), uncovered: None });
            v.push(ContentVar { label: "content of 1000 octets".into(), must_admit: true, covered: (0..1000).map(|i| (i * 11 + 7) as u8).collect(), uncovered: None });
        }
    }
    v
}

/// The instants of the signing-time domain, relative to the base EE certificate's window [T0-1d, 2049-12-31T23:59:59Z]
/// and the evaluation instant T0 (ROA / ASPA: the wall clock, which lies somewhere on the yearly ladder).
fn st_instants() -> Vec<(String, i64)> {
    let nb = T0 - DAY;
    let mut v: Vec<(String, i64)> = vec![
        ("0001-01-01".into(), Y0001), ("1900-01-01".into(), Y1900), ("last second of 1949".into(), Y1950 - 1), ("first UTCTime instant".into(), Y1950),
        ("epoch-1s".into(), -1), ("epoch".into(), 0),
        ("EE.notBefore-1s".into(), nb - 1), ("EE.notBefore".into(), nb), ("EE.notBefore+1s".into(), nb + 1),
        ("eval-1s".into(), T0 - 1), ("eval".into(), T0), ("eval+1s".into(), T0 + 1),
        ("leap day".into(), 1_709_208_000),
    ];
    for (y, s) in [(2025, 1_735_689_600i64), (2026, 1_767_225_600), (2027, 1_798_761_600), (2028, 1_830_297_600), (2029, 1_861_920_000), (2030, 1_893_456_000)] { v.push((format!("{y}-01-01"), s)) }
    v.extend([("i32::MAX".to_string(), i32::MAX as i64), ("i32::MAX+1".into(), i32::MAX as i64 + 1),
        ("EE.notAfter-1s".into(), FAR - 1), ("EE.notAfter = last UTCTime instant".into(), FAR), ("EE.notAfter+1s = 2050-01-01".into(), FAR + 1),
        ("u32::MAX".into(), u32::MAX as i64), ("u32::MAX+1".into(), u32::MAX as i64 + 1), ("last GeneralizedTime instant".into(), Y9999_END)]);
    v
}

fn ign_menu(fx: &Fx, kind: Kind, contents: &[ContentVar]) -> Vec<Ign> {
    let mut m = Vec::new();
    for (label, secs) in st_instants() {
        for gt in [false, true] {
            if !gt && !utc_expressible(secs) { continue }
            m.push(Ign { family: "signing-time", label: format!("{} ({label}) as {}", iso(secs), if gt { "GeneralizedTime" } else { "UTCTime" }), must_admit: true, op: IgnOp::St { secs, gt } });
        }
    }
    for (label, delta, pos) in [("agreeing, written last", 0i64, 3usize), ("one hour off, written last", 3600, 3), ("agreeing, written first", 0, 0)] {
        m.push(Ign { family: "binary-signing-time", label: label.into(), must_admit: false, op: IgnOp::Bst { delta, pos } });
    }
    m.push(Ign { family: "unknown-attribute", label: "1.3.6.1.4.1.99999.3.1 written last".into(), must_admit: false, op: IgnOp::UnknownAttr });
    m.push(Ign { family: "certificates", label: "the issuing CA's certificate as a second member".into(), must_admit: false, op: IgnOp::ExtraCert(0) });
    m.push(Ign { family: "certificates", label: "the EE certificate twice".into(), must_admit: false, op: IgnOp::ExtraCert(1) });
    m.push(Ign { family: "crls", label: "crls [1] with the issuer's CRL".into(), must_admit: false, op: IgnOp::Crl });
    // the EE certificate
    let max20 = { let mut b = vec![0x7fu8]; b.extend([0xff; 19]); b };
    for (label, must, s) in [("1", true, vec![1u8]), ("127", true, vec![127]), ("128", true, vec![128]), ("2^64-1", true, vec![0xff; 8]), ("2^64", true, vec![1, 0, 0, 0, 0, 0, 0, 0, 0]), ("2^159-1 (20 octets)", true, max20), ("0", false, vec![0])] {
        m.push(Ign { family: "ee.serial", label: label.into(), must_admit: must, op: IgnOp::Ee(EeField::Serial(s)) });
    }
    let ca_name = name_der(&fx.s.public(K_CA).to_subject_name());
    let other_name = name_der(&fx.s.public(K_OTHER).to_subject_name());
    let ee_name = name_der(&fx.s.public(K_EE).to_subject_name());
    for (label, d) in [("CN=x", rdn_name("x", None)), ("CN of 64 characters", rdn_name(&"n".repeat(64), None)), ("CN=one-off-ee + serialNumber=42", rdn_name("one-off-ee", Some("42"))),
                       ("the issuer's own name (subject = issuer)", ca_name.clone()), ("the name derived from another key", other_name.clone())] {
        m.push(Ign { family: "ee.subject", label: label.into(), must_admit: true, op: IgnOp::Ee(EeField::Subject(d)) });
    }
    for (label, d) in [("CN=some-ca (not the issuer certificate's subject)", rdn_name("some-ca", None)), ("the issuer's CN + serialNumber=7", { let n = der::parse_one(&ca_name, false).unwrap();
                           let cn = n.children[0].children[0].children[1].content(&ca_name).to_vec(); rdn_name(std::str::from_utf8(&cn).unwrap(), Some("7")) }),
                       ("the name derived from another key", other_name), ("the EE's own name (issuer = subject)", ee_name)] {
        m.push(Ign { family: "ee.issuer", label: label.into(), must_admit: true, op: IgnOp::Ee(EeField::Issuer(d)) });
    }
    // windows containing the evaluation instant: T0 for the timed entry points, the wall clock (2023-11-15 .. 2049) for process()
    let timed = matches!(kind, Kind::Mft | Kind::Gen);
    let mut windows = vec![("1950-01-01 .. 9999-12-31T23:59:59 (far wider than the issuer's)", Y1950, Y9999_END), ("issuer.notBefore .. 9999-12-31T23:59:59", T0 - DAY, Y9999_END),
                           ("1950-01-01 .. 2049-12-31T23:59:59", Y1950, FAR), ("eval .. 2049-12-31T23:59:59 (starts after the issuer's)", T0, FAR), ("issuer.notBefore .. 2050-01-01", T0 - DAY, FAR + 1)];
    if timed { windows.extend([("notBefore = notAfter = eval", T0, T0), ("eval-1s .. eval+1s", T0 - 1, T0 + 1), ("1950-01-01 .. eval", Y1950, T0), ("issuer's own window", T0 - DAY, T0 + 365 * DAY)]) }
    for (label, nb, na) in windows { m.push(Ign { family: "ee.validity", label: label.into(), must_admit: true, op: IgnOp::Ee(EeField::Window(nb, na)) }) }
    let long = format!("rsync://long.example/module/{}/x.bin", "d".repeat(300));
    for (fam, mkf, uris) in [("ee.sia", EeField::Sia as fn(String) -> EeField, ["rsync://other.example/module/another.bin".to_string(), long.clone(), "rsync://example.net/repo/ca/".to_string()]),
                             ("ee.crldp", EeField::Crl as fn(String) -> EeField, ["rsync://other.example/module/other.crl".to_string(), long.clone(), "rsync://example.net/repo/ca/obj.roa".to_string()]),
                             ("ee.aia", EeField::Aia as fn(String) -> EeField, ["rsync://other.example/module/other.cer".to_string(), long.clone(), "rsync://example.net/repo/ca/obj.roa".to_string()])] {
        for u in uris { m.push(Ign { family: fam, label: trunc(&u, 60), must_admit: true, op: IgnOp::Ee(mkf(u)) }) }
    }
    m.push(Ign { family: "ee.extensions", label: "a non-critical private extension 1.3.6.1.4.1.99999.9.9".into(), must_admit: false, op: IgnOp::Ee(EeField::UnknownExt) });
    m.push(Ign { family: "ee.extensions", label: "id-ad-rpkiNotify in the SIA".into(), must_admit: false, op: IgnOp::Ee(EeField::Notify) });
    for (i, c) in contents.iter().enumerate().skip(1) {
        m.push(Ign { family: "content", label: c.label.clone(), must_admit: c.must_admit, op: IgnOp::Content(i) });
    }
    m
}

#[derive(Clone, Copy, Debug)]
enum Cond { Sat, V(Viol), Uncovered, CallbackErr }

fn cond_menu(kind: Kind) -> Vec<Cond> {
    let mut v = vec![Cond::Sat];
    v.extend([Viol::D(DigestV::FlipLast), Viol::D(DigestV::OfOtherContent), Viol::S(SigV::OtherKey), Viol::S(SigV::FlipLastBit), Viol::S(SigV::OverImplicitTag), Viol::I(SidV::OtherSki),
              Viol::E(EeV::WrongIssuerKey), Viol::E(EeV::Expired), Viol::E(EeV::AkiMismatch), Viol::C(CtV::AttrOther), Viol::C(CtV::EncapOther), Viol::K(CardV::Missing(1)), Viol::K(CardV::DupSame(0, 3))].map(Cond::V));
    if matches!(kind, Kind::Roa | Kind::Aspa) { v.push(Cond::Uncovered) }
    if !matches!(kind, Kind::Mft) { v.push(Cond::CallbackErr) }
    v
}

fn cond_name(c: Cond) -> String {
    match c { Cond::Sat => "none".into(), Cond::V(v) => { let mut p = Plan::base(Kind::Gen); v.apply(&mut p); p.violated().join(" ") }, Cond::Uncovered => "coverage".into(), Cond::CallbackErr => "crl-callback:Err".into() }
}

fn issuer_crl(fx: &Fx) -> Vec<u8> {
    let tbs = der::seq(&[der::int_u(1), der::alg_sha256_with_rsa(), name_der(&fx.s.public(K_CA).to_subject_name()), der::utctime(civil(T0 - 3600)), der::utctime(civil(T0 + DAY)),
        der::ctx(0, true, &der::seq(&[der::seq(&[der::oid(&[2, 5, 29, 35]), der::octets(&der::seq(&[der::ctx(0, false, &fx.s.key(K_CA).ski)]))]), der::seq(&[der::oid(&[2, 5, 29, 20]), der::octets(&der::int_u(1))])]))]);
    pki::sign_tbs(&fx.s, K_CA, &tbs)
}

/// Builds the object of (kind, ignored-field deviations, condition): (bytes, entry, rendering of the EE window).
fn ign_build(fx: &Fx, kind: Kind, igns: &[&Ign], cond: Cond, contents: &[ContentVar], ca_der: &[u8], crl_der: &[u8]) -> (Vec<u8>, Entry) {
    let mut p = Plan::base(kind);
    let mut ee = EeOpt::base(kind);
    let mut ci = 0usize;
    let mut ee_twice = false;
    for g in igns {
        match &g.op {
            IgnOp::St { secs, gt } => { p.st_secs = *secs; p.st_gen = *gt }
            IgnOp::Bst { .. } | IgnOp::UnknownAttr => {}
            IgnOp::ExtraCert(0) => p.extra_certs.push(ca_der.to_vec()),
            IgnOp::ExtraCert(_) => ee_twice = true,
            IgnOp::Crl => p.crls.push(crl_der.to_vec()),
            IgnOp::Ee(f) => match f.clone() {
                EeField::Serial(s) => ee.serial = s, EeField::Subject(d) => ee.subject = Some(d), EeField::Issuer(d) => ee.issuer = Some(d),
                EeField::Window(a, b) => { ee.nb = a; ee.na = b } EeField::Sia(u) => ee.sia = u, EeField::Crl(u) => ee.crl = u, EeField::Aia(u) => ee.aia = u, EeField::UnknownExt => ee.unknown_ext = true, EeField::Notify => ee.notify = true,
            },
            IgnOp::Content(i) => ci = *i,
        }
    }
    // attributes that depend on the signing time come after it is settled
    for g in igns {
        match &g.op {
            IgnOp::Bst { delta, pos } => p.extra_attrs.push((*pos, der::attr_binary_signing_time((p.st_secs + delta).max(0) as u64))),
            IgnOp::UnknownAttr => p.extra_attrs.push((usize::MAX, der::attribute(&[1, 3, 6, 1, 4, 1, 99999, 3, 1], &[der::octets(b"ignored")]))),
            _ => {}
        }
    }
    let mut entry = match kind { Kind::Mft | Kind::Gen => Entry::At, _ => Entry::Process(true) };
    p.content = contents[ci].covered.clone();
    match cond {
        Cond::Sat => {}
        Cond::V(v) => { v.apply(&mut p); ee.v = p.ee }
        Cond::Uncovered => p.content = contents[ci].uncovered.clone().expect("kinds with a coverage condition have uncovered twins"),
        Cond::CallbackErr => entry = Entry::Process(false),
    }
    let cert = ee_cached(fx, &ee);
    if ee_twice { p.extra_certs.push(cert.to_vec()) }
    (assemble(fx, &p, &cert), entry)
}

fn ignored_fields(ctx: &Ctx, fx: &Fx, thorough: bool) {
    let sp = ctx.space("ignored.fields",
        "every field of a signed object and of its EE certificate that the acceptance predicate does not name, swept over a boundary-dense domain, one deviation at a time (and all pairs of deviations of two different fields: quick over 2 representatives per field, thorough over the whole menu): signing-time value (30 instants from 0001 to 9999 placed before / at / after the EE certificate's notBefore and notAfter, the evaluation instant, the UTCTime / GeneralizedTime switch, 2^31 and 2^32 seconds, a yearly ladder that the wall clock of process() lies on) x UTCTime / GeneralizedTime; binary-signing-time (agreeing / disagreeing / first), an unknown attribute, a second certificate, a crls field (the decoder may refuse these; counted); EE serial (1 .. 2^159-1, 0), subject name (5), issuer name (4, none equal to the issuer certificate's subject), validity far wider / narrower than the issuer's with the evaluation instant inside, SIA / CRLDP / AIA URIs (3 each), a non-critical private extension and an rpkiNotify access description (the decoder may refuse these); ROA asID (8) and written-out version, ASPA provider lists (8; customer among the providers: decoder may refuse), manifest number (0 .. 2^159-1; 2^160), thisUpdate / nextUpdate before / at / after the evaluation instant and the EE window (stale, not yet current, 1950, 9999), UTCTime form, empty file list, generic content (4). Each crossed with {all conditions satisfied; 13 single violations (digest 2, signature 3, sid, EE certificate 3, content type 2, cardinality 2); ROA / ASPA: coverage violated; generic / ROA / ASPA: CRL callback Err} x strict / relaxed. Oracle: all satisfied and value well-formed -> accepted; all satisfied and the decoder may refuse the value -> not rejected at validation; any violation -> rejected; non-trivial = distinct object encodings with a deviating ignored field");
    let ca_der = pki::build_cert_der(&fx.s, &Spec::issued(pki::Kind::Ca, K_CA, K_TA, fx.s.ski(K_TA), Res::all(), Overclaim::Refuse));
    let crl_der = issuer_crl(fx);
    let t = Tally::new();
    let by_family: Mutex<BTreeMap<String, (u64, u64, u64)>> = Mutex::new(BTreeMap::new());
    let mut total_single = 0usize;
    let mut total_pairs = 0usize;
    for kind in KINDS {
        let contents = content_menu(kind);
        let menu = ign_menu(fx, kind, &contents);
        let conds = cond_menu(kind);
        // deviation sets: the base, every single deviation, pairs of two different fields
        let mut sets: Vec<Vec<usize>> = vec![vec![]];
        for i in 0..menu.len() { sets.push(vec![i]) }
        total_single += menu.len();
        let reps: Vec<usize> = if thorough { (0..menu.len()).collect() } else {
            // two representatives per field: the first and the last of its menu entries; for the signing time those around the window ends
            let mut r = Vec::new();
            let fams: BTreeSet<&str> = menu.iter().map(|g| g.family).collect();
            for f in fams {
                let idx: Vec<usize> = (0..menu.len()).filter(|&i| menu[i].family == f).collect();
                if f == "signing-time" {
                    for i in &idx { if let IgnOp::St { secs, gt } = menu[*i].op { if (secs == T0 - DAY - 1 && !gt) || (secs == FAR + 1) || (secs == T0 + 1 && gt) { r.push(*i) } } }
                } else { r.push(idx[0]); if idx.len() > 1 { r.push(*idx.last().unwrap()) } }
            }
            r
        };
        let pair_conds: Vec<usize> = { (0..conds.len()).filter(|&c| matches!(conds[c], Cond::Sat | Cond::V(Viol::D(DigestV::FlipLast)) | Cond::V(Viol::S(SigV::OtherKey)) | Cond::V(Viol::E(EeV::Expired)) | Cond::Uncovered | Cond::CallbackErr)).collect() };
        let n_single_sets = sets.len();
        for (x, &a) in reps.iter().enumerate() { for &b in reps.iter().skip(x + 1) { if menu[a].family != menu[b].family { sets.push(vec![a, b]) } } }
        total_pairs += sets.len() - n_single_sets;
        let mut jobs: Vec<(usize, usize)> = Vec::new();
        for si in 0..sets.len() { if si < n_single_sets { for c in 0..conds.len() { jobs.push((si, c)) } } else { for &c in &pair_conds { jobs.push((si, c)) } } }
        jobs.par_iter().for_each(|&(si, c)| {
            let igns: Vec<&Ign> = sets[si].iter().map(|&i| &menu[i]).collect();
            let cond = conds[c];
            let must = igns.iter().all(|g| g.must_admit);
            let built = guard(|| ign_build(fx, kind, &igns, cond, &contents, &ca_der, &crl_der));
            let describe = |strict: bool, entry: Entry| format!("deviations={} kind={} strict={strict} entry={} ignored-fields=[{}] violated=[{}] (unless stated: EE certificate valid {}..{}, signing-time {}; evaluation at {})", igns.len(), kind.name(),
                match entry { Entry::At => "validate_at", Entry::Process(_) => "process" },
                igns.iter().map(|g| format!("{}: {}", g.family, g.label)).collect::<Vec<_>>().join("; "), cond_name(cond), iso(T0 - DAY), iso(FAR), iso(T0 - 60),
                match entry { Entry::At => iso(T0), Entry::Process(_) => "the wall clock".into() });
            let (bytes, entry) = match built { Ok(x) => x, Err(pn) => { fail("C02.no_panic", describe(true, Entry::At), format!("while building the object: {pn}")); return } };
            if !igns.is_empty() { t.seen(&bytes) }
            for strict in [true, false] {
                let (v, _) = run(fx, kind, &bytes, &fx.ca, strict, entry);
                sp.eval();
                let sat = matches!(cond, Cond::Sat);
                let class = match (&v, sat, must) { (Verdict::Decode(_), true, false) => "not-admitted-at-decode", _ => v.class() };
                t.add(class);
                if sat && !igns.is_empty() {
                    let mut g = by_family.lock().unwrap();
                    for ig in &igns { let e = g.entry(ig.family.to_string()).or_insert((0, 0, 0)); match &v { Verdict::Accept => e.0 += 1, Verdict::Decode(_) => e.1 += 1, _ => e.2 += 1 } }
                }
                match &v {
                    Verdict::Panic(pn) => fail("C02.no_panic", describe(strict, entry), pn.clone()),
                    Verdict::Accept if !sat => fail("C02.ignored.reject", describe(strict, entry), "a stated condition is violated but the object was accepted"),
                    Verdict::Invalid(e) if sat => fail("C02.ignored.accept", describe(strict, entry), format!("every stated condition holds and only fields the property does not mention deviate, yet validation failed: {}", trunc(e, 160))),
                    Verdict::Decode(e) if sat && must => fail("C02.ignored.accept", describe(strict, entry), format!("every stated condition holds and only fields the property does not mention deviate (well-formed values), yet the object does not decode: {}", trunc(e, 160))),
                    _ => {}
                }
            }
        });
    }
    t.flush(&sp);
    let fam = by_family.into_inner().unwrap();
    sp.set("all_satisfied_per_field_accepted_refused_at_decode_rejected", serde_json::json!(fam.iter().map(|(k, (a, d, r))| format!("{k}: {a} accepted, {d} refused at decode, {r} rejected at validation")).collect::<Vec<_>>()));
    sp.set("single_deviations", serde_json::json!(total_single));
    sp.set("pairs_of_deviations", serde_json::json!(total_pairs));
    sp.sample_str(|| format!("kind=roa ignored-fields=[signing-time: {} as GeneralizedTime] violated=[] -> accepted; with violated=[digest:FlipLast] -> rejected", iso(FAR + 1)));
    sp.sample_str(|| "kind=mft ignored-fields=[content: stale: thisUpdate=eval-2d nextUpdate=eval-1d] violated=[] -> accepted (staleness is not a stated condition of validate_at)".to_string());
    sp.done(true, &format!("4 kinds x (1 + {} single deviations) x 14-16 conditions x 2 modes; {} pairs of deviations of different fields x {} conditions x 2 modes", total_single, total_pairs, "4-6"));
}

//------------ validity x signing time x evaluation instant ------------------------------------------------------------

fn interactions_time(ctx: &Ctx, fx: &Fx, thorough: bool) {
    let sp = ctx.space("interactions.time",
        "four independent time dimensions over one 5-point domain D = {eval0-1d, eval0-1s, eval0, eval0+1s, eval0+1d} (thorough also D' = {1950-01-01, eval0-1s, eval0, eval0+1s, 2049-12-31T23:59:59, 2050-01-01, 9999-12-31T23:59:59}): window of the issuing CA (all 15 pairs a <= b of D; the CA certificate is validated at its own notBefore), window of the EE certificate (15), signing time (5 x UTCTime / GeneralizedTime), evaluation instant (5), for manifest and generic object through validate_at, strict and relaxed: accepted <=> EE.notBefore <= evaluation instant <= EE.notAfter - the issuer's window and the signing time are not consulted. ROA, ASPA and generic object through process() (wall clock, assumed inside 2023-11-16 .. 2049): EE windows {15 over D (expired), [a, 2049-12-31T23:59:59] and [a, 9999-12-31T23:59:59] for a in D (current), two future windows} x 15 CA windows x 10 signing times: accepted <=> current; non-trivial = cases where the signing time lies outside the EE window, the EE window is not nested in the CA's, or the evaluation instant lies outside the CA's window");
    let ta = pki::valid_ta(&fx.s, K_TA, Res::all());
    let mut domains: Vec<(&str, Vec<i64>)> = vec![("D", vec![T0 - DAY, T0 - 1, T0, T0 + 1, T0 + DAY])];
    if thorough { domains.push(("D'", vec![Y1950, T0 - 1, T0, T0 + 1, FAR, FAR + 1, Y9999_END])) }
    let t = Tally::new();
    let nt = Mutex::new(0u64);
    let mut bound = Vec::new();
    for (dname, d) in &domains {
        let windows: Vec<(i64, i64)> = d.iter().enumerate().flat_map(|(i, &a)| d[i..].iter().map(move |&b| (a, b))).collect();
        let sts: Vec<(i64, bool)> = d.iter().flat_map(|&s| [false, true].into_iter().filter(move |g| *g || utc_expressible(s)).map(move |g| (s, g))).collect();
        let cas: Vec<ResourceCert> = windows.par_iter().map(|&(a, b)| {
            let mut spec = Spec::issued(pki::Kind::Ca, K_CA, K_TA, ta.subject_key_identifier(), Res::all(), Overclaim::Refuse);
            spec.validity = Validity::new(pki::time(a), pki::time(b));
            pki::build_cert(&fx.s, &spec).validate_ca_at(&ta, true, pki::time(a)).expect("CA certificate validates at its own notBefore")
        }).collect();
        // (a) timed entry points
        let mut objs: Vec<(Kind, usize, usize)> = Vec::new();
        for k in [Kind::Mft, Kind::Gen] { for w in 0..windows.len() { for s in 0..sts.len() { objs.push((k, w, s)) } } }
        objs.par_iter().for_each(|&(k, w, s)| {
            let (nb, na) = windows[w];
            let mut ee = EeOpt::base(k); ee.nb = nb; ee.na = na; ee.serial = vec![7, w as u8];
            let mut p = Plan::base(k); p.st_secs = sts[s].0; p.st_gen = sts[s].1;
            let bytes = assemble(fx, &p, &ee_cached(fx, &ee));
            let (mut n_nt, mut local): (u64, BTreeMap<&'static str, u64>) = (0, BTreeMap::new());
            for (c, &(ca_nb, ca_na)) in windows.iter().enumerate() { for &e in d.iter() { for strict in [true, false] {
                let v = run_at(k, &bytes, &cas[c], strict, pki::time(e));
                sp.eval(); *local.entry(v.class()).or_insert(0) += 1;
                let want = nb <= e && e <= na;
                if sts[s].0 < nb || sts[s].0 > na || nb < ca_nb || na > ca_na || e < ca_nb || e > ca_na { n_nt += 1 }
                expect(ctx, "C02.interactions.time.accept", "C02.interactions.time.reject", want, &v,
                    || format!("kind={} strict={strict} validate_at({}) EE valid {}..{} signing-time={} as {} issuing CA valid {}..{}", k.name(), iso(e), iso(nb), iso(na), iso(sts[s].0), if sts[s].1 { "GeneralizedTime" } else { "UTCTime" }, iso(ca_nb), iso(ca_na)));
            }}}
            *nt.lock().unwrap() += n_nt;
            let mut g = t.oc.lock().unwrap(); for (k, n) in local { *g.entry(k).or_insert(0) += n }
        });
        // (b) process(): the wall clock is the evaluation instant
        let mut ee_windows: Vec<(i64, i64)> = windows.clone();
        for &a in d.iter().filter(|&&a| a <= T0 + DAY) { ee_windows.push((a, FAR)); ee_windows.push((a, Y9999_END)) }
        ee_windows.extend([(FAR, Y9999_END), (FAR + 1, Y9999_END)]);
        ee_windows.sort(); ee_windows.dedup();
        // with the wall clock after 2023-11-15T22:13:20Z and before 2049-12-31T23:59:59Z: current <=> starts by the former and ends at or after the latter
        let ee_windows: Vec<(i64, i64, bool)> = ee_windows.into_iter().map(|(a, b)| (a, b, a <= T0 + DAY && b >= FAR)).collect();
        let mut objs: Vec<(Kind, bool, usize, usize)> = Vec::new();
        for (k, gen_process) in [(Kind::Roa, false), (Kind::Aspa, false), (Kind::Gen, true)] { for w in 0..ee_windows.len() { for s in 0..sts.len() { objs.push((k, gen_process, w, s)) } } }
        objs.par_iter().for_each(|&(k, _, w, s)| {
            let (nb, na, current) = ee_windows[w];
            let mut ee = EeOpt::base(k); ee.nb = nb; ee.na = na; ee.serial = vec![8, w as u8];
            let mut p = Plan::base(k); p.st_secs = sts[s].0; p.st_gen = sts[s].1;
            let bytes = assemble(fx, &p, &ee_cached(fx, &ee));
            let (mut n_nt, mut local): (u64, BTreeMap<&'static str, u64>) = (0, BTreeMap::new());
            for (c, &(ca_nb, ca_na)) in windows.iter().enumerate() {
                let (v, _) = run(fx, k, &bytes, &cas[c], true, Entry::Process(true));
                sp.eval(); *local.entry(v.class()).or_insert(0) += 1;
                if sts[s].0 < nb || sts[s].0 > na || nb < ca_nb || na > ca_na { n_nt += 1 }
                expect(ctx, "C02.interactions.time.accept", "C02.interactions.time.reject", current, &v,
                    || format!("kind={} strict=true process() at the wall clock, EE valid {}..{} signing-time={} as {} issuing CA valid {}..{}", k.name(), iso(nb), iso(na), iso(sts[s].0), if sts[s].1 { "GeneralizedTime" } else { "UTCTime" }, iso(ca_nb), iso(ca_na)));
            }
            *nt.lock().unwrap() += n_nt;
            let mut g = t.oc.lock().unwrap(); for (k, n) in local { *g.entry(k).or_insert(0) += n }
        });
        bound.push(format!("{dname}: {} CA windows x {} EE windows x {} signing times x {} instants x 2 kinds x 2 modes + {} EE windows x {} CA windows x {} signing times x 3 kinds through process()", windows.len(), windows.len(), sts.len(), d.len(), ee_windows.len(), windows.len(), sts.len()));
    }
    sp.merge_outcomes(&t.oc.lock().unwrap());
    sp.nontrivial(*nt.lock().unwrap());
    sp.sample_str(|| format!("kind=generic validate_at({}) EE valid {}..{} signing-time={} as UTCTime issuing CA valid {}..{} -> accepted", iso(T0), iso(T0), iso(T0 + 1), iso(T0 - DAY), iso(T0 + 1), iso(T0 + DAY)));
    sp.done(true, &bound.join("; "));
}

//------------ history: what happened before on the thread must not matter -------------------------------------------------

#[derive(Clone)]
struct Op {
    name: String,
    kind: Kind,
    bytes: Vec<u8>,
    /// 0 = the CA, 1 = another CA (other key), 2 = the CA's key holding 11.0.0.0/8 and AS1 only
    issuer: usize,
    strict: bool,
    entry: Entry,
    cb_panics: bool,
    /// evaluation instant of the timed entry points
    at: i64,
}

/// Everything observable about one decode + validation, as a string.
fn observe(issuers: &[ResourceCert], op: &Op) -> String {
    use rpki::repository::cert::Cert;
    let issuer = &issuers[op.issuer];
    let b = Bytes::copy_from_slice(&op.bytes);
    let cb_ok = !matches!(op.entry, Entry::Process(false));
    let (panics, strict) = (op.cb_panics, op.strict);
    let r = guard(|| {
        let cb = |_: &Cert| -> Result<(), ValidationError> {
            if panics { panic!("the CRL callback panics") }
            if cb_ok { Ok(()) } else { Err(VerificationError::new("revoked (callback)").into()) }
        };
        let res = |rc: &ResourceCert| format!("v4={} v6={} as={} ee-serial={} ee-window={}..{}", rc.v4_resources().as_v4(), rc.v6_resources().as_v6(), rc.as_resources(), rc.as_cert().serial_number(),
            rc.as_cert().validity().not_before().timestamp(), rc.as_cert().validity().not_after().timestamp());
        match op.kind {
            Kind::Roa => match Roa::decode(b, strict) {
                Err(e) => format!("decode error: {e}"),
                Ok(o) => {
                    let pre = format!("asid={} v4-prefixes={} v6-prefixes={}", o.content().as_id(), o.content().v4_addrs().iter().count(), o.content().v6_addrs().iter().count());
                    match o.process(issuer, strict, cb) { Ok((rc, att)) => format!("accepted {pre} {} origins={}", res(&rc), att.iter_origins().count()), Err(e) => format!("{pre} rejected: {e}") }
                }
            },
            Kind::Aspa => match Aspa::decode(b, strict) {
                Err(e) => format!("decode error: {e}"),
                Ok(o) => {
                    let pre = format!("customer={} providers={}", o.content().customer_as(), o.content().provider_as_set().iter().map(|a| a.to_string()).collect::<Vec<_>>().join(","));
                    match o.process(issuer, strict, cb) { Ok((rc, att)) => format!("accepted {pre} {} customer-after={}", res(&rc), att.customer_as()), Err(e) => format!("{pre} rejected: {e}") }
                }
            },
            Kind::Mft => match Manifest::decode(b, strict) {
                Err(e) => format!("decode error: {e}"),
                Ok(o) => {
                    let pre = format!("number={} this={} next={} entries={}", o.content().manifest_number(), o.content().this_update().timestamp(), o.content().next_update().timestamp(), o.content().len());
                    match o.validate_at(issuer, strict, pki::time(op.at)) { Ok((rc, c)) => format!("accepted {pre} {} files={}", res(&rc), c.iter().count()), Err(e) => format!("{pre} rejected: {e}") }
                }
            },
            Kind::Gen => match SignedObject::decode(b, strict) {
                Err(e) => format!("decode error: {e}"),
                Ok(o) => {
                    let pre = format!("content-type={} content={}B signing-time={}", o.content_type(), o.content().len(), o.signing_time().timestamp());
                    match op.entry {
                        Entry::At => match o.validate_at(issuer, strict, pki::time(op.at)) { Ok(rc) => format!("accepted {pre} {}", res(&rc)), Err(e) => format!("{pre} rejected: {e}") },
                        Entry::Process(_) => match o.process(issuer, strict, cb) { Ok((rc, c)) => format!("accepted {pre} {} content-sha256={}", res(&rc), hex(&sha256(&c)[..8])), Err(e) => format!("{pre} rejected: {e}") },
                    }
                }
            },
        }
    });
    match r { Ok(s) => s, Err(p) => p }
}

fn hist_issuers(fx: &Fx) -> Vec<ResourceCert> {
    let ta = pki::valid_ta(&fx.s, K_TA, Res::all());
    vec![fx.ca.clone(), pki::valid_ca(&fx.s, &ta, K_TA, K_CA2, Res::all()),
         pki::valid_ca(&fx.s, &ta, K_TA, K_CA, Res { v4: Claim::Blocks(vec![(0x0b00_0000, 0x0bff_ffff)]), v6: Claim::Missing, asn: Claim::Blocks(vec![(1, 1)]) })]
}

/// (subjects, further predecessors). The subjects are predecessors too.
fn hist_ops(fx: &Fx, ees: &BTreeMap<(Kind, EeV), Vec<u8>>) -> (Vec<Op>, Vec<Op>) {
    let entry_of = |k: Kind| match k { Kind::Mft | Kind::Gen => Entry::At, _ => Entry::Process(true) };
    let op = |name: String, k: Kind, p: &Plan| Op { name, kind: k, bytes: assemble(fx, p, &ees[&(p.kind, p.ee)]), issuer: 0, strict: true, entry: entry_of(k), cb_panics: false, at: T0 };
    let with = |k: Kind, v: Viol| { let mut p = Plan::base(k); v.apply(&mut p); p };
    let long_attrs = |extra: usize| { let mut p = Plan::base(Kind::Gen); let mut arcs = vec![1u64, 2]; arcs.extend(std::iter::repeat(1).take(extra)); p.ect = arcs; p.order = [2, 0, 1]; p };
    let mut subj: Vec<Op> = Vec::new();
    let mut pred: Vec<Op> = Vec::new();
    for k in KINDS {
        let n = k.name();
        let base = Plan::base(k);
        subj.push(op(format!("{n}.valid"), k, &base));
        subj.push(op(format!("{n}.digest-bad"), k, &with(k, Viol::D(DigestV::FlipLast))));
        subj.push(op(format!("{n}.signature-by-other-key"), k, &with(k, Viol::S(SigV::OtherKey))));
        subj.push(op(format!("{n}.sid-bad"), k, &with(k, Viol::I(SidV::OtherSki))));
        subj.push(op(format!("{n}.ee-expired"), k, &with(k, Viol::E(EeV::Expired))));
        // carries the correct digest of the content of the predecessor `same-ee-other-content`
        subj.push(op(format!("{n}.digest-of-sibling-content"), k, &with(k, Viol::D(DigestV::OfSibling))));
        subj.push(Op { strict: false, ..op(format!("{n}.valid.relaxed"), k, &base) });
        // further predecessors: every remaining variant of every condition
        for v in all_single() {
            if matches!(v, Viol::D(DigestV::FlipLast) | Viol::S(SigV::OtherKey) | Viol::I(SidV::OtherSki) | Viol::E(EeV::Expired)) { continue }
            if matches!(v, Viol::K(CardV::DupSame(_, pos)) | Viol::K(CardV::DupOther(_, pos)) if pos != 3) { continue }
            let p = with(k, v);
            pred.push(op(format!("{n}.{}", p.violated().join("")), k, &p));
        }
        for sv in [SigV::Short, SigV::Empty] { let p = with(k, Viol::S(sv)); pred.push(op(format!("{n}.signature:{sv:?}"), k, &p)) }
        // decode failures at every stage
        let good = assemble(fx, &base, &ees[&(k, EeV::Ok)]);
        let raw = |name: &str, bytes: Vec<u8>| Op { name: format!("{n}.{name}"), kind: k, bytes, issuer: 0, strict: true, entry: entry_of(k), cb_panics: false, at: T0 };
        pred.push(raw("empty-input", Vec::new()));
        pred.push(raw("one-octet", vec![0x30]));
        pred.push(raw("truncated-half", good[..good.len() / 2].to_vec()));
        pred.push(raw("truncated-last-octet", good[..good.len() - 1].to_vec()));
        pred.push(raw("trailing-octet", { let mut g = good.clone(); g.push(0); g }));
        pred.push(raw("garbage", vec![0xff; 64]));
        pred.push(raw("decoded-as-the-wrong-kind", assemble(fx, &Plan::base(if k == Kind::Roa { Kind::Mft } else { Kind::Roa }), &ees[&(if k == Kind::Roa { Kind::Mft } else { Kind::Roa }, EeV::Ok)])));
        for pos in 0..4usize { let mut p = base.clone(); p.extra_attrs.push((pos, der::attribute(&[1, 3, 6, 1, 4, 1, 99999, 3, 1], &[der::octets(b"x")]))); pred.push(op(format!("{n}.unknown-attribute-at-{pos}"), k, &p)) }
        { let mut p = base.clone(); p.extra_attrs.push((3, der::attr_binary_signing_time((T0 - 60) as u64))); pred.push(op(format!("{n}.binary-signing-time"), k, &p)) }
        if k != Kind::Gen {
            // the CMS part is fine, the eContent is not (correctly digested and signed)
            let mut p = base.clone(); p.content = vec![0x30, 0x03, 0x02, 0x01]; pred.push(op(format!("{n}.econtent-truncated"), k, &p));
            let mut p = base.clone(); p.content = b"not DER at all".to_vec(); pred.push(op(format!("{n}.econtent-garbage"), k, &p));
        }
        // other exits of validation
        pred.push(Op { issuer: 1, ..op(format!("{n}.under-another-ca"), k, &base) });
        pred.push(Op { issuer: 2, ..op(format!("{n}.ee-overclaims-its-issuer"), k, &base) });
        pred.push(Op { strict: false, ..op(format!("{n}.signature-by-other-key.relaxed"), k, &with(k, Viol::S(SigV::OtherKey))) });
        if k != Kind::Mft {
            pred.push(Op { entry: Entry::Process(false), ..op(format!("{n}.callback-err"), k, &base) });
            pred.push(Op { entry: Entry::Process(true), cb_panics: true, ..op(format!("{n}.callback-panics"), k, &base) });
        }
        if matches!(k, Kind::Mft | Kind::Gen) {
            pred.push(Op { at: T0 - DAY - 1, ..op(format!("{n}.evaluated-before-notBefore"), k, &base) });
            pred.push(Op { at: FAR + 1, ..op(format!("{n}.evaluated-after-notAfter"), k, &base) });
        }
        // the same identity with another content / the same content under another EE serial
        let contents = content_menu(k);
        { let mut p = base.clone(); p.content = contents[1].covered.clone(); pred.push(op(format!("{n}.same-ee-other-content"), k, &p)) }
        { let mut ee = EeOpt::base(k); ee.serial = vec![0x55, 0x66]; pred.push(Op { bytes: assemble(fx, &base, &ee_cached(fx, &ee)), ..op(format!("{n}.same-content-other-ee-serial"), k, &base) }) }
        // a BER respelling of a valid object: relaxed accepts, strict refuses deep inside
        if let Some(root) = der::parse_one(&good, false) {
            let sd = &root.children[1].children[0];
            let path = vec![1, 0, sd.children.len() - 1, 0, 3];
            let m = respell(&good, &root, &mut Vec::new(), &path, &Spell::Indefinite);
            pred.push(raw("signedAttrs-indefinite-length.strict", m.clone()));
            pred.push(Op { strict: false, ..raw("signedAttrs-indefinite-length.relaxed", m) });
        }
    }
    // kind-specific subjects
    { let c = content_menu(Kind::Roa); let mut p = Plan::base(Kind::Roa); p.content = c[0].uncovered.clone().unwrap(); subj.push(op("roa.uncovered".into(), Kind::Roa, &p)) }
    { let c = content_menu(Kind::Aspa); let mut p = Plan::base(Kind::Aspa); p.content = c[0].uncovered.clone().unwrap(); subj.push(op("aspa.customer-uncovered".into(), Kind::Aspa, &p)) }
    { let mut p = Plan::base(Kind::Roa); p.order = [2, 1, 0]; p.st_gen = true; subj.push(op("roa.valid.order-st,md,ct".into(), Kind::Roa, &p)) }
    subj.push(op("generic.valid.attrs-one-octet-long-form".into(), Kind::Gen, &long_attrs(100)));
    subj.push(op("generic.valid.attrs-two-octet-long-form".into(), Kind::Gen, &long_attrs(200)));
    { let mut p = long_attrs(200); p.sig = SigV::OverImplicitTag; subj.push(op("generic.attrs-two-octet-long-form.signed-over-[0]".into(), Kind::Gen, &p)) }
    { let mut p = Plan::base(Kind::Gen); p.content = (0..65536).map(|i| (i * 7 + 3) as u8).collect(); subj.push(op("generic.valid.content-65536".into(), Kind::Gen, &p)) }
    { let mut p = Plan::base(Kind::Gen); p.st_secs = FAR + 1; p.st_gen = true; subj.push(op("generic.valid.signing-time-2050".into(), Kind::Gen, &p)) }
    subj.push(Op { entry: Entry::Process(true), ..op("generic.valid.process".into(), Kind::Gen, &Plan::base(Kind::Gen)) });
    subj.push(Op { entry: Entry::Process(false), ..op("generic.callback-err".into(), Kind::Gen, &Plan::base(Kind::Gen)) });
    subj.push(Op { issuer: 1, ..op("mft.under-another-ca".into(), Kind::Mft, &Plan::base(Kind::Mft)) });
    subj.push(Op { at: FAR + 1, ..op("mft.evaluated-after-notAfter".into(), Kind::Mft, &Plan::base(Kind::Mft)) });
    // an ASPA whose EE certificate carries IP resources: the last check of all
    { let mut ee = EeOpt::base(Kind::Aspa); ee.res.v4 = Claim::Blocks(vec![(0x0a00_0000, 0x0aff_ffff)]); ee.serial = vec![0x77];
      pred.push(Op { bytes: assemble(fx, &Plan::base(Kind::Aspa), &ee_cached(fx, &ee)), ..op("aspa.ee-with-ip-resources".into(), Kind::Aspa, &Plan::base(Kind::Aspa)) }) }
    (subj, pred)
}

fn history_independent(ctx: &Ctx, fx: &Fx, ees: &BTreeMap<(Kind, EeV), Vec<u8>>, thorough: bool) {
    let sp = ctx.space("history.independent",
        "on a NEW OS thread (fresh thread-locals): one predecessor (thorough: every ordered pair of predecessors), then every subject, then every subject again in reverse order; and every (predecessor, subject) pair alone on a new thread, the subject right after the predecessor; subjects: per kind {valid, digest wrong, signed by another key, sid wrong, EE expired, valid decoded relaxed} plus the correct digest of a sibling content (the content of the predecessor `same-ee-other-content`) / ROA uncovered / ASPA customer uncovered / another attribute order / signed attributes needing the one- and two-octet long-form length (valid and signed over the [0] encoding) / 65536 octets of content / signing time 2050 / process() with callback Ok and Err / another CA / evaluated after notAfter; predecessors: the subjects and, per kind, an operation leaving at every distinct stage: decode errors (empty, one octet, truncated half / last octet, trailing octet, garbage, wrong kind, an unknown attribute after 0, 1, 2, 3 valid attributes, binary-signing-time, eContent truncated / garbage under a correct signature, every cardinality and content-type variant), every digest variant, sid variants, every signature variant (other key, over the [0] encoding, over the content, last bit, one octet short, empty) strict and relaxed, every EE failure (signed by another key, AKI, expired, under another CA, overclaiming its issuer, IP resources on an ASPA EE), evaluation before / after the window, callback Err, a callback that panics (caught), the same EE certificate with another content, the same content under another EE serial, a BER respelling accepted relaxed / refused strict; oracle (differential, nothing expected by hand): every observation (verdict with its message, decoded fields, validated resources) equals the observation of the same subject evaluated first thing on its own new thread; non-trivial = compared observations that follow a different operation");
    let issuers = hist_issuers(fx);
    let (subj, more) = hist_ops(fx, ees);
    let mut preds: Vec<Op> = subj.clone(); preds.extend(more);
    let on_new_thread = |f: &(dyn Fn() -> Vec<String> + Sync)| -> Vec<String> { std::thread::scope(|sc| sc.spawn(|| f()).join().unwrap_or_else(|_| vec!["thread died".to_string()])) };
    let fresh: Vec<String> = subj.iter().map(|s| on_new_thread(&|| vec![observe(&issuers, s)]).pop().unwrap_or_default()).collect();
    let again: Vec<String> = subj.iter().map(|s| on_new_thread(&|| vec![observe(&issuers, s)]).pop().unwrap_or_default()).collect();
    if fresh != again { ctx.machinery_error("history.independent: fresh-thread observations differ between two runs") }
    sp.evals(2 * subj.len() as u64);
    for f in &fresh { sp.outcome(if f.starts_with("accepted") { "subject-accepted-when-fresh" } else if f.starts_with("decode error") { "subject-refused-at-decode-when-fresh" } else { "subject-rejected-when-fresh" }) }
    let pred_class: Mutex<BTreeMap<String, u64>> = Mutex::new(BTreeMap::new());
    let mut seqs: Vec<Vec<usize>> = (0..preds.len()).map(|i| vec![i]).collect();
    if thorough { for a in 0..preds.len() { for b in 0..preds.len() { seqs.push(vec![a, b]) } } }
    let ns = subj.len();
    seqs.par_iter().for_each(|seq| {
        let obs = on_new_thread(&|| {
            let mut out: Vec<String> = seq.iter().map(|&i| observe(&issuers, &preds[i])).collect();
            for s in subj.iter() { out.push(observe(&issuers, s)) }
            for s in subj.iter().rev() { out.push(observe(&issuers, s)) }
            out
        });
        if obs.len() != seq.len() + 2 * ns { fail("C02.history.independent", format!("predecessors={}", seq.iter().map(|&i| preds[i].name.as_str()).collect::<Vec<_>>().join(" -> ")), format!("the thread running the sequence died: {:?}", obs.last())); return }
        sp.evals(obs.len() as u64); sp.nontrivial(2 * ns as u64);
        if seq.len() == 1 {
            let o = &obs[0];
            let cls = if o.starts_with("accepted") { "accepted".to_string() } else if o.starts_with("decode error") { "decode error".to_string() } else if o.starts_with("panic") { "panic (callback)".to_string() }
                else { format!("rejected: {}", trunc(o.split("rejected: ").nth(1).unwrap_or(""), 48)) };
            *pred_class.lock().unwrap().entry(cls).or_insert(0) += 1;
        }
        for j in 0..2 * ns {
            let si = if j < ns { j } else { 2 * ns - 1 - j };
            let got = &obs[seq.len() + j];
            if *got != fresh[si] {
                fail("C02.history.independent", format!("new thread: {} -> subjects in order{} ; subject={} ({} pass, position {})", seq.iter().map(|&i| preds[i].name.as_str()).collect::<Vec<_>>().join(" -> "),
                        if j < ns { "" } else { " -> subjects in reverse order" }, subj[si].name, if j < ns { "forward" } else { "reverse" }, j % ns + 1),
                    format!("after this history: `{}`; first thing on a new thread: `{}`", trunc(got, 200), trunc(&fresh[si], 200)));
                // one report per sequence: what follows is usually the same corruption
                break;
            }
        }
    });
    // every predecessor IMMEDIATELY followed by every subject (a one-entry memo is overwritten by whatever comes in between)
    let pairs: Vec<(usize, usize)> = (0..preds.len()).flat_map(|p| (0..ns).map(move |s| (p, s))).collect();
    pairs.par_iter().for_each(|&(pi, si)| {
        let obs = on_new_thread(&|| vec![observe(&issuers, &preds[pi]), observe(&issuers, &subj[si])]);
        sp.evals(2); sp.nontrivial(1);
        if obs.len() != 2 { fail("C02.history.independent", format!("new thread: {} -> {}", preds[pi].name, subj[si].name), format!("the thread running the sequence died: {:?}", obs.last())); return }
        if obs[1] != fresh[si] {
            fail("C02.history.independent", format!("new thread: {} -> {} (nothing in between)", preds[pi].name, subj[si].name),
                format!("after this predecessor: `{}`; first thing on a new thread: `{}`", trunc(&obs[1], 200), trunc(&fresh[si], 200)));
        }
    });
    let pc = pred_class.into_inner().unwrap();
    for (k, n) in &pc { sp.outcomes_n(&format!("predecessor: {k}"), *n) }
    sp.set("subjects", serde_json::json!(subj.iter().zip(&fresh).map(|(s, f)| format!("{} -> {}", s.name, trunc(f, 100))).collect::<Vec<_>>()));
    sp.set("predecessors", serde_json::json!(preds.len()));
    sp.set("predecessor_exit_paths", serde_json::json!(pc.len()));
    sp.sample_str(|| format!("new thread: roa.signature:FlipLastBit -> {} subjects -> the same in reverse; each compared with its fresh-thread observation, e.g. {} -> {}", ns, subj[0].name, trunc(&fresh[0], 120)));
    sp.done(true, &format!("{} predecessors{} x {} subjects forward and in reverse; {} x {} immediate (predecessor, subject) pairs; one new OS thread per sequence", preds.len(), if thorough { " and all their ordered pairs" } else { "" }, ns, preds.len(), ns));
}

//------------ environment: TZ ---------------------------------------------------------------------------------------------

/// What a child process started under another TZ must reproduce octet for octet.
fn env_observations() -> Vec<String> {
    let fx = Fx::load();
    let ees = ee_table(&fx);
    let issuers = hist_issuers(&fx);
    let (subj, _) = hist_ops(&fx, &ees);
    let mut out: Vec<String> = subj.iter().map(|s| format!("{} -> {}", s.name, observe(&issuers, s))).collect();
    // the signing-time domain in both forms, read back as seconds since the epoch, and the verdict
    for (label, secs) in st_instants() { for gt in [false, true] {
        if !gt && !utc_expressible(secs) { continue }
        let mut p = Plan::base(Kind::Gen); p.st_secs = secs; p.st_gen = gt;
        let o = Op { name: String::new(), kind: Kind::Gen, bytes: assemble(&fx, &p, &ees[&(Kind::Gen, EeV::Ok)]), issuer: 0, strict: true, entry: Entry::At, cb_panics: false, at: T0 };
        out.push(format!("signing-time {label} as {} -> {}", if gt { "GeneralizedTime" } else { "UTCTime" }, observe(&issuers, &o)));
    }}
    // evaluation instants around the ends of EE windows written as UTCTime / GeneralizedTime, around midnight and DST change dates
    for (nb, na) in [(T0 - DAY, FAR), (1_711_846_800 - 3600, 1_711_846_800 + 3600), (1_699_142_400, 1_699_228_800), (FAR + 1, FAR + 1 + DAY), (Y1950, Y1950 + DAY)] {
        for k in [Kind::Mft, Kind::Gen] {
            let mut ee = EeOpt::base(k); ee.nb = nb; ee.na = na; ee.serial = vec![9];
            let bytes = assemble(&fx, &Plan::base(k), &ee_cached(&fx, &ee));
            for at in [nb - 1, nb, nb + 1, na - 1, na, na + 1] {
                let o = Op { name: String::new(), kind: k, bytes: bytes.clone(), issuer: 0, strict: true, entry: Entry::At, cb_panics: false, at };
                out.push(format!("{} EE window {}..{} evaluated at {} -> {}", k.name(), iso(nb), iso(na), iso(at), observe(&issuers, &o)));
            }
        }
    }
    // manifest times
    for c in content_menu(Kind::Mft) {
        let mut p = Plan::base(Kind::Mft); p.content = c.covered.clone();
        let o = Op { name: String::new(), kind: Kind::Mft, bytes: assemble(&fx, &p, &ees[&(Kind::Mft, EeV::Ok)]), issuer: 0, strict: true, entry: Entry::At, cb_panics: false, at: T0 };
        out.push(format!("manifest {} -> {}", c.label, observe(&issuers, &o)));
    }
    out
}

fn environment_tz(ctx: &Ctx) {
    let sp = ctx.space("environment.tz",
        "the explorer re-executes itself with TZ set to UTC, America/New_York, Asia/Tokyo, Pacific/Chatham, the POSIX strings EST5EDT and <-03>3 and an unusable value, and compares: the full observation (verdict, message, decoded fields as seconds since the epoch, validated resources) of the subjects of history.independent; the decoded signing time and verdict for the whole signing-time domain in both forms; the verdicts at 6 instants around both ends of 5 EE windows (UTCTime, a European and an American DST change date, 2050 GeneralizedTime, 1950) for manifest and generic object; every manifest of the ignored-field content menu (thisUpdate / nextUpdate read back); oracle: identical in every environment and in this process; non-trivial = every observation compared");
    let here = env_observations();
    let exe = std::env::current_exe().expect("own path");
    let mut usable = 0;
    for tz in ["UTC", "America/New_York", "Asia/Tokyo", "Pacific/Chatham", "EST5EDT", "<-03>3", ":/nonexistent/zone"] {
        let out = std::process::Command::new(&exe).arg("--observe-env").env("TZ", tz).output();
        let Ok(out) = out else { ctx.machinery_error(format!("cannot re-execute for TZ={tz}")); continue };
        if !out.status.success() { fail("C02.environment.tz", format!("TZ={tz}"), format!("child ended with {:?}: {}", out.status, trunc(&String::from_utf8_lossy(&out.stderr), 300))); continue }
        let lines: Vec<String> = String::from_utf8_lossy(&out.stdout).lines().map(|l| l.to_string()).collect();
        if lines.len() != here.len() { fail("C02.environment.tz", format!("TZ={tz}"), format!("{} observations, {} here", lines.len(), here.len())); continue }
        usable += 1;
        for (a, b) in lines.iter().zip(&here) {
            sp.eval(); sp.nontrivial(1);
            if a != b { fail("C02.environment.tz", format!("TZ={tz} {}", b.split(" -> ").next().unwrap_or("")), format!("with TZ={tz}: `{}`; in this process: `{}`", trunc(a, 200), trunc(b, 200))) }
        }
    }
    for l in &here { sp.outcome(if l.contains("-> accepted") { "accepted" } else if l.contains("decode error") { "refused-at-decode" } else { "rejected" }) }
    sp.set("environments", serde_json::json!(usable));
    sp.set("observations", serde_json::json!(here.len()));
    if !std::path::Path::new("/usr/share/zoneinfo/America/New_York").exists() { ctx.assume("environment.tz: no zone database in this sandbox; only the POSIX TZ strings change the local zone") }
    sp.sample_str(|| trunc(&here[0], 200));
    sp.done(true, &format!("7 TZ settings x {} observations", here.len()));
}

//------------ entry-point equivalence ---------------------------------------------------------------------------------------

/// Every public route that yields and judges an object. `None` = the route does not apply to (kind, mode).
fn route_verdicts(fx: &Fx, kind: Kind, bytes: &[u8], strict: bool) -> Vec<(&'static str, Option<Verdict>)> {
    use bcder::{Mode, Oid};
    use bcder::encode::Values;
    use base64::Engine;
    let b = || Bytes::copy_from_slice(bytes);
    let issuer = &fx.ca;
    let mode = if strict { Mode::Der } else { Mode::Ber };
    let ok_cb = |_: &rpki::repository::cert::Cert| -> Result<(), ValidationError> { Ok(()) };
    let g = |f: &dyn Fn() -> Verdict| -> Verdict { match guard(f) { Ok(v) => v, Err(p) => Verdict::Panic(p) } };
    let val = |r: Result<ResourceCert, ValidationError>| match r { Ok(_) => Verdict::Accept, Err(e) => Verdict::Invalid(e.to_string()) };
    let ct: Oid<Bytes> = { let t = der::oid(&kind.ect()); Oid(Bytes::copy_from_slice(&t[2..])) };
    let mut out: Vec<(&'static str, Option<Verdict>)> = Vec::new();
    out.push(("SignedObject::decode + validate_at", Some(g(&|| match SignedObject::decode(b(), strict) { Err(e) => Verdict::Decode(e.to_string()), Ok(o) => val(o.validate_at(issuer, strict, pki::time(T0))) }))));
    out.push(("Mode::decode(SignedObject::take_from) + validate_at", Some(g(&|| match mode.decode(b(), SignedObject::take_from) { Err(e) => Verdict::Decode(e.to_string()), Ok(o) => val(o.validate_at(issuer, strict, pki::time(T0))) }))));
    out.push(("SignedObject::decode_if_type + validate_at", Some(g(&|| match SignedObject::decode_if_type(b(), &ct, strict) { Err(e) => Verdict::Decode(e.to_string()), Ok(o) => val(o.validate_at(issuer, strict, pki::time(T0))) }))));
    out.push(("SignedObject::decode + validate (wall clock)", Some(g(&|| match SignedObject::decode(b(), strict) { Err(e) => Verdict::Decode(e.to_string()), Ok(o) => val(o.validate(issuer, strict)) }))));
    out.push(("SignedObject::decode + process (wall clock)", Some(g(&|| match SignedObject::decode(b(), strict) { Err(e) => Verdict::Decode(e.to_string()), Ok(o) => match o.process(issuer, strict, ok_cb) { Ok(_) => Verdict::Accept, Err(e) => Verdict::Invalid(e.to_string()) } }))));
    out.push(("SignedObject::decode + clone().validate_at, then validate_at on the original", Some(g(&|| match SignedObject::decode(b(), strict) { Err(e) => Verdict::Decode(e.to_string()), Ok(o) => {
        let first = val(o.clone().validate_at(issuer, strict, pki::time(T0)));
        let second = val(o.validate_at(issuer, strict, pki::time(T0)));
        if first.accepted() != second.accepted() { Verdict::Panic(format!("the clone gives `{}`, the original afterwards `{}`", first.show(), second.show())) } else { second }
    } }))));
    // re-encoding a relaxed-decoded object is a known finding of its own (bcder mode assertion); strict only
    out.push(("SignedObject::decode + encode_ref + decode + validate_at", if !strict { None } else { Some(g(&|| match SignedObject::decode(b(), true) { Err(e) => Verdict::Decode(e.to_string()), Ok(o) => {
        let again = o.encode_ref().to_captured(Mode::Der).into_bytes();
        match SignedObject::decode(again, true) { Err(e) => Verdict::Decode(format!("re-encoded object: {e}")), Ok(o2) => val(o2.validate_at(issuer, true, pki::time(T0))) }
    } })) }));
    let b64 = || format!("\"{}\"", base64::engine::general_purpose::STANDARD.encode(bytes));
    match kind {
        Kind::Roa => {
            out.push(("Roa::decode + process", Some(g(&|| match Roa::decode(b(), strict) { Err(e) => Verdict::Decode(e.to_string()), Ok(o) => match o.process(issuer, strict, ok_cb) { Ok(_) => Verdict::Accept, Err(e) => Verdict::Invalid(e.to_string()) } }))));
            out.push(("serde: Roa from base64 + process", if !strict { None } else { Some(g(&|| match serde_json::from_str::<Roa>(&b64()) { Err(e) => Verdict::Decode(e.to_string()), Ok(o) => match o.process(issuer, true, ok_cb) { Ok(_) => Verdict::Accept, Err(e) => Verdict::Invalid(e.to_string()) } })) }));
        }
        Kind::Aspa => {
            out.push(("Aspa::decode + process", Some(g(&|| match Aspa::decode(b(), strict) { Err(e) => Verdict::Decode(e.to_string()), Ok(o) => match o.process(issuer, strict, ok_cb) { Ok(_) => Verdict::Accept, Err(e) => Verdict::Invalid(e.to_string()) } }))));
            out.push(("serde: Aspa from base64 + process", if !strict { None } else { Some(g(&|| match serde_json::from_str::<Aspa>(&b64()) { Err(e) => Verdict::Decode(e.to_string()), Ok(o) => match o.process(issuer, true, ok_cb) { Ok(_) => Verdict::Accept, Err(e) => Verdict::Invalid(e.to_string()) } })) }));
        }
        Kind::Mft => {
            out.push(("Manifest::decode + validate_at", Some(g(&|| match Manifest::decode(b(), strict) { Err(e) => Verdict::Decode(e.to_string()), Ok(o) => match o.validate_at(issuer, strict, pki::time(T0)) { Ok(_) => Verdict::Accept, Err(e) => Verdict::Invalid(e.to_string()) } }))));
            out.push(("Manifest::decode + validate (wall clock)", Some(g(&|| match Manifest::decode(b(), strict) { Err(e) => Verdict::Decode(e.to_string()), Ok(o) => match o.validate(issuer, strict) { Ok(_) => Verdict::Accept, Err(e) => Verdict::Invalid(e.to_string()) } }))));
            out.push(("serde: Manifest from base64 + validate_at", if !strict { None } else { Some(g(&|| match serde_json::from_str::<Manifest>(&b64()) { Err(e) => Verdict::Decode(e.to_string()), Ok(o) => match o.validate_at(issuer, true, pki::time(T0)) { Ok(_) => Verdict::Accept, Err(e) => Verdict::Invalid(e.to_string()) } })) }));
        }
        Kind::Gen => {}
    }
    out
}

fn routes_equivalence(ctx: &Ctx, fx: &Fx, ees: &BTreeMap<(Kind, EeV), Vec<u8>>, perms: &[[usize; 3]]) {
    let sp = ctx.space("routes.equivalence",
        "every public route that yields and judges an object - SignedObject::decode, Mode::Der/Ber.decode(SignedObject::take_from), decode_if_type, each followed by validate_at; decode + validate (wall clock); decode + process; validation of a clone and then of the original; decode + encode_ref + decode (strict); the typed wrappers Roa / Aspa::decode + process, Manifest::decode + validate_at / validate; serde (base64) + the typed validator (strict) - crossed with 4 kinds x {all conditions satisfied, every variant of every single violation (38)} x 2 attribute orders x strict / relaxed; ROA / ASPA additionally with the coverage condition violated (typed routes reject, generic routes are not asked). Oracle: every route accepts <=> all stated conditions hold; hence all routes agree; non-trivial = (object, route) pairs with a violated condition");
    let singles = all_single();
    let t = Tally::new();
    let nt = Mutex::new(0u64);
    let routes_seen: Mutex<BTreeSet<&'static str>> = Mutex::new(BTreeSet::new());
    let mut jobs: Vec<(Kind, [usize; 3], usize, bool)> = Vec::new();
    for k in KINDS { for o in [perms[0], perms[3]] { for vi in 0..=singles.len() + 1 { for strict in [true, false] {
        if vi == singles.len() + 1 && !matches!(k, Kind::Roa | Kind::Aspa) { continue }
        jobs.push((k, o, vi, strict));
    }}}}
    jobs.par_iter().for_each(|&(k, o, vi, strict)| {
        let mut p = Plan::base(k); p.order = o;
        let uncovered = vi == singles.len() + 1;
        if vi >= 1 && !uncovered { singles[vi - 1].apply(&mut p) }
        if uncovered { p.content = content_menu(k)[0].uncovered.clone().unwrap() }
        let bytes = assemble(fx, &p, &ees[&(k, p.ee)]);
        let want = p.all_ok() && !uncovered;
        for (route, v) in route_verdicts(fx, k, &bytes, strict) {
            let Some(v) = v else { continue };
            // coverage is judged by the typed validators only
            let typed = route.starts_with("Roa") || route.starts_with("Aspa") || route.starts_with("serde");
            if uncovered && !typed { continue }
            sp.eval(); t.add(v.class());
            routes_seen.lock().unwrap().insert(route);
            if !want { *nt.lock().unwrap() += 1 }
            expect(ctx, "C02.routes.accept", "C02.routes.reject", want, &v, || format!("route=`{route}` {}{}", p.witness(strict), if uncovered { " coverage violated" } else { "" }));
        }
    });
    sp.merge_outcomes(&t.oc.lock().unwrap());
    sp.nontrivial(*nt.lock().unwrap());
    sp.set("routes", serde_json::json!(routes_seen.into_inner().unwrap()));
    sp.sample_str(|| "route=`Mode::decode(SignedObject::take_from) + validate_at` kind=generic violated=[sid:FlipLastBit] -> rejected, as through every other route".to_string());
    sp.done(true, &format!("4 kinds x (1 + {} single violations [+ coverage]) x 2 orders x 2 modes x 7-10 routes", singles.len()));
}

//------------ spellings of an octet-string identifier ------------------------------------------------------------------------
// Every identifier the acceptance predicate compares for equality (signer identifier vs subject key identifier, the
// message-digest value vs SHA-256 of the content, the key identifiers of the EE certificate) has ONE expected length. A
// value of another length is not equal, whatever its first or last octets are.

/// How a value of another length is derived from the correct one.
#[derive(Clone, Copy, Debug, PartialEq, Eq, PartialOrd, Ord)]
enum Fill {
    /// the correct octets first (as many as fit), then 0x00 / 0xff / the correct octets over again
    Prefix00, PrefixFF, PrefixCycle,
    /// the correct octets last (as many as fit), 0x00 / the correct octets over again before them
    Suffix00, SuffixCycle,
    /// no octet equals the correct octet at the same distance from either end
    Wrong,
}

const FILLS: [Fill; 6] = [Fill::Prefix00, Fill::PrefixFF, Fill::PrefixCycle, Fill::Suffix00, Fill::SuffixCycle, Fill::Wrong];

fn spell_id(good: &[u8], len: usize, fill: Fill) -> Vec<u8> {
    let e = good.len();
    (0..len).map(|i| {
        let from_end = len - 1 - i;
        match fill {
            Fill::Prefix00 => if i < e { good[i] } else { 0 },
            Fill::PrefixFF => if i < e { good[i] } else { 0xff },
            Fill::PrefixCycle => good[i % e],
            Fill::Suffix00 => if from_end < e { good[e - 1 - from_end] } else { 0 },
            Fill::SuffixCycle => good[e - 1 - from_end % e],
            // differs from the correct value counted from the front and from the back (x ^ 0xff ^ ... cannot equal both neighbours: use a value derived from both)
            Fill::Wrong => { let (a, b) = (good[i % e], good[e - 1 - from_end % e]); let mut x = !a; while x == a || x == b { x = x.wrapping_add(1) } x }
        }
    }).collect()
}

/// The spellings of an identifier of `e` octets: (length, fill), one per distinct octet string, the correct value excluded.
fn id_spellings(good: &[u8], thorough: bool) -> Vec<(u16, Fill)> {
    let e = good.len();
    let mut lens: Vec<usize> = (0..=2 * e + 1).collect();
    lens.extend([3 * e, 127, 128, 255, 256]);
    if thorough { lens.extend(2 * e + 2..=4 * e + 1); lens.extend([1000, 65535, 65536]) }
    lens.sort(); lens.dedup();
    let mut seen: BTreeSet<Vec<u8>> = BTreeSet::new();
    seen.insert(good.to_vec());
    let mut out = Vec::new();
    for l in lens { for f in FILLS { if seen.insert(spell_id(good, l, f)) { out.push((l as u16, f)) } } }
    out
}

fn spelling_name(e: usize, l: u16, f: Fill) -> String {
    let l = l as usize;
    let how = match (f, l < e) {
        (Fill::Prefix00, true) | (Fill::PrefixFF, true) | (Fill::PrefixCycle, true) => "the first octets of the correct value",
        (Fill::Suffix00, true) | (Fill::SuffixCycle, true) => "the last octets of the correct value",
        (Fill::Prefix00, false) => "the correct value followed by 00 octets",
        (Fill::PrefixFF, false) => "the correct value followed by ff octets",
        (Fill::PrefixCycle, false) => "the correct value followed by its own first octets",
        (Fill::Suffix00, false) => "00 octets followed by the correct value",
        (Fill::SuffixCycle, false) => "the correct value's last octets followed by the correct value",
        (Fill::Wrong, _) => "no octet correct",
    };
    // written as E+d / E-d so that the sorted list of witnesses starts with the nearest lengths
    if l >= e { format!("{e}+{} octets ({how})", l - e) } else { format!("{e}-{} octets ({how})", e - l) }
}

/// An object identifier that has the given one as a proper prefix, or is a proper prefix of it:
/// n < 0: the last |n| arcs dropped; n in 1..=3: n arcs 0 appended; 4: arc 1 appended; 5: arc 300 (two octets) appended.
fn ct_spell(ect: &[u64], n: i8) -> Vec<u64> {
    let mut v = ect.to_vec();
    match n { n if n < 0 => v.truncate(ect.len() - (-n) as usize), 1..=3 => v.extend(std::iter::repeat(0).take(n as usize)), 4 => v.push(1), _ => v.push(300) }
    v
}
const CT_SPELLS: [i8; 7] = [-2, -1, 1, 2, 3, 4, 5];

/// The EE certificate of `kind` with the keyIdentifier of its subject / authority key identifier extension replaced
/// (None = as the library writes it); assembled and signed by the independent encoder.
fn ee_with_key_ids(fx: &Fx, kind: Kind, ski: Option<&[u8]>, aki: Option<&[u8]>, serial: u128) -> Vec<u8> {
    use rpki_verif::engine::certref;
    let mut sp = Spec::issued(pki::Kind::Ee, K_EE, K_CA, fx.s.ski(K_CA), default_res(kind), Overclaim::Refuse);
    sp.validity = wide_validity();
    sp.serial = serial;
    let tbs = pki::build_tbs(&fx.s, &sp, None);
    let tbs_der = bcder::Captured::from_values(bcder::Mode::Der, tbs.encode_ref()).as_slice().to_vec();
    let tbs_der = certref::map_extensions(&tbs_der, &mut |oid, whole| {
        let value = if oid == certref::OID_SKI { ski.map(|v| der::octets(v)) }
            else if oid == certref::OID_AKI { aki.map(|v| der::seq(&[der::ctx(0, false, v)])) }
            else { None };
        match value {
            None => vec![whole.to_vec()],
            Some(v) => {
                // everything but the extension value is kept as the library wrote it (OID, criticality)
                let n = der::parse_one(whole, false).expect("extension parses");
                let mut items: Vec<Vec<u8>> = n.children[..n.children.len() - 1].iter().map(|c| c.whole(whole).to_vec()).collect();
                items.push(der::octets(&v));
                vec![der::seq(&items)]
            }
        }
    });
    pki::sign_tbs(&fx.s, K_CA, &tbs_der)
}

/// The sid [0] of a DER object re-written as a constructed string cut at `cuts`.
fn sid_in_segments(bytes: &[u8], cuts: &[usize]) -> Option<Vec<u8>> {
    let root = der::parse_one(bytes, false)?;
    let sd = root.children.get(1)?.children.first()?;
    let path = vec![1, 0, sd.children.len() - 1, 0, 1];
    Some(respell(bytes, &root, &mut Vec::new(), &path, &Spell::Segments(cuts.to_vec())))
}

fn identifier_spelling(ctx: &Ctx, fx: &Fx, thorough: bool) {
    let sp = ctx.space("identifier.spelling",
        "every octet-string identifier that the acceptance predicate compares for equality, written in every length around the expected one while every other condition holds: lengths 0..=2E+1, 3E, 127, 128, 255, 256 (thorough: 0..=4E+1, 1000, 65535, 65536) x {the correct octets first then 00 / ff / the correct octets again; the correct octets last after 00 / after the correct octets; no octet correct} (shorter values: the first / the last octets of the correct value / no octet correct). Sites: (1) the signer identifier (E = 20), primitive and, for BER, constructed in one segment, cut after min(E, L-1) octets and cut after the first octet; (2) the message-digest attribute value (E = 32; the signature is made over the attributes as written); (3) the subjectKeyIdentifier extension of the EE certificate (E = 20), the sid being the correct 20 octets or the very same octets as the extension; (4) the keyIdentifier of the EE certificate's authorityKeyIdentifier (E = 20); (5) the content type, in the attribute resp. in encapContentInfo, with its last 1, 2 arcs dropped or 1, 2, 3 arcs 0, an arc 1, an arc 300 appended (one identifier a proper prefix of the other). x 4 kinds x strict / relaxed; the spellings of E-1, E+1 and 32 resp. 64 octets also through every public route (routes.equivalence). Oracle: rejected or refused at decode (the values differ); the same machinery with the correct value written out: accepted; non-trivial = evaluations of a value that is not the correct one");
    let ski = fx.s.key(K_EE).ski.to_vec();
    let ca_ski = fx.s.key(K_CA).ski.to_vec();
    let key_sp = id_spellings(&ski, thorough);
    let aki_sp = id_spellings(&ca_ski, thorough);
    let t = Tally::new();
    let nt = Mutex::new(0u64);
    let by_site: Mutex<BTreeMap<String, u64>> = Mutex::new(BTreeMap::new());
    let ees = ee_table(fx);
    // one evaluation: `want` accepted?
    let judge = |site: &str, kind: Kind, bytes: &[u8], strict: bool, want: bool, wit: &dyn Fn() -> String| {
        let entry = match kind { Kind::Mft | Kind::Gen => Entry::At, _ => Entry::Process(true) };
        let (v, _) = run(fx, kind, bytes, &fx.ca, strict, entry);
        sp.eval(); t.add(v.class());
        if !want { *nt.lock().unwrap() += 1; *by_site.lock().unwrap().entry(format!("{site}: {}", v.class())).or_insert(0) += 1 }
        expect(ctx, "C02.identifier.control.accept", &format!("C02.identifier.{site}.reject"), want, &v, || format!("{} kind={} strict={strict}", wit(), kind.name()));
    };
    // (1) the signer identifier; form 0 = primitive, 1 = constructed in one segment, 2 = cut after min(E, L-1), 3 = cut after the first octet
    let form_name = ["primitive", "constructed, one segment", "constructed, cut after min(20, L-1) octets", "constructed, cut after the first octet"];
    let cuts_of = |form: usize, l: usize| -> Option<Vec<usize>> { match form { 1 => Some(vec![]), 2 if l >= 2 => Some(vec![20.min(l - 1)]), 3 if l >= 3 => Some(vec![1]), _ => None } };
    let mut jobs: Vec<(Kind, Option<(u16, Fill)>)> = Vec::new();
    for k in KINDS { jobs.push((k, None)); for &s in &key_sp { jobs.push((k, Some(s))) } }
    jobs.par_iter().for_each(|&(k, s)| {
        let mut p = Plan::base(k);
        if let Some((l, f)) = s { p.sid = SidV::Spell(l, f) }
        let l = s.map(|(l, _)| l as usize).unwrap_or(20);
        let der_bytes = assemble(fx, &p, &ees[&(k, EeV::Ok)]);
        for form in 0..4 {
            let bytes = if form == 0 { der_bytes.clone() } else { match cuts_of(form, l).and_then(|c| sid_in_segments(&der_bytes, &c)) { Some(b) => b, None => continue } };
            for strict in [true, false] {
                // the constructed forms of the correct value are BER: admitted by the relaxed decoder only (ber.respelling); here they are the control of the relaxed mode
                if s.is_none() && form != 0 && strict { continue }
                judge("sid", k, &bytes, strict, s.is_none(), &|| format!("sid [0] {}: {}; everything else satisfied", form_name[form],
                    match s { None => "the correct 20 octets".to_string(), Some((l, f)) => spelling_name(20, l, f) }));
            }
        }
    });
    // (2) the message-digest value
    let mut jobs: Vec<(Kind, Option<(u16, Fill)>)> = Vec::new();
    for k in KINDS {
        let good = sha256(&default_content(k));
        jobs.push((k, None));
        for s in id_spellings(&good, thorough) { jobs.push((k, Some(s))) }
    }
    jobs.par_iter().for_each(|&(k, s)| {
        let mut p = Plan::base(k);
        if let Some((l, f)) = s { p.digest = DigestV::Spell(l, f) }
        let bytes = assemble(fx, &p, &ees[&(k, EeV::Ok)]);
        for strict in [true, false] {
            judge("message_digest", k, &bytes, strict, s.is_none(), &|| format!("message-digest attribute value: {}; signed as written, everything else satisfied",
                match s { None => "the correct 32 octets".to_string(), Some((l, f)) => spelling_name(32, l, f) }));
        }
    });
    // (2b) the two content-type object identifiers, one a proper prefix of the other
    let mut jobs: Vec<(Kind, bool, i8)> = Vec::new();
    for k in KINDS { for attr in [true, false] { for n in CT_SPELLS { jobs.push((k, attr, n)) } } }
    jobs.par_iter().for_each(|&(k, attr, n)| {
        let mut p = Plan::base(k);
        p.ct = if attr { CtV::AttrSpell(n) } else { CtV::EncapSpell(n) };
        let bytes = assemble(fx, &p, &ees[&(k, EeV::Ok)]);
        for strict in [true, false] {
            judge("content_type", k, &bytes, strict, false, &|| format!("content type {}: the object's content type {}; the other one as it should be, signed as written, everything else satisfied",
                if attr { "in the content-type attribute" } else { "in encapContentInfo" },
                match n { n if n < 0 => format!("without its last {} arc(s)", -n), 1..=3 => format!("with {n} more arc(s) 0"), 4 => "with one more arc 1".to_string(), _ => "with one more arc 300".to_string() }));
        }
    });
    // (3) + (4) the key identifiers of the EE certificate
    let mut jobs: Vec<(Kind, u8, Option<(u16, Fill)>)> = Vec::new();
    for k in KINDS {
        for site in [3u8, 4] { jobs.push((k, site, None)) }
        for &s in &key_sp { jobs.push((k, 3, Some(s))) }
        for &s in &aki_sp { jobs.push((k, 4, Some(s))) }
    }
    jobs.par_iter().for_each(|&(k, site, s)| {
        let value: Vec<u8> = match (site, s) { (3, None) => ski.clone(), (_, None) => ca_ski.clone(), (3, Some((l, f))) => spell_id(&ski, l as usize, f), (_, Some((l, f))) => spell_id(&ca_ski, l as usize, f) };
        let built = guard(|| if site == 3 { ee_with_key_ids(fx, k, Some(&value), None, 7700) } else { ee_with_key_ids(fx, k, None, Some(&value), 7701) });
        let cert = match built { Ok(c) => c, Err(pn) => { fail("C02.no_panic", format!("building an EE certificate with a key identifier of {} octets", value.len()), pn); return } };
        // the sid: the correct 20 octets; for the subject key identifier also the very octets of the extension
        let sids: Vec<(SidV, &str)> = match (site, s) { (3, Some((l, f))) => vec![(SidV::Ok, "the correct 20 octets"), (SidV::Spell(l, f), "the same octets as the extension")], _ => vec![(SidV::Ok, "the correct 20 octets")] };
        for (sid, sid_name) in sids {
            let mut p = Plan::base(k); p.sid = sid;
            let bytes = assemble(fx, &p, &cert);
            for strict in [true, false] {
                judge(if site == 3 { "ee_ski" } else { "ee_aki" }, k, &bytes, strict, s.is_none(), &|| format!("EE certificate {}: {}; sid = {sid_name}; certificate signed by the issuer as written, everything else satisfied",
                    if site == 3 { "subjectKeyIdentifier" } else { "authorityKeyIdentifier.keyIdentifier" }, match s { None => "the correct 20 octets".to_string(), Some((l, f)) => spelling_name(20, l, f) }));
            }
        }
    });
    // (5) the neighbouring lengths through every public route
    let mut jobs: Vec<(Kind, u8, u16, Fill, bool)> = Vec::new();
    for k in KINDS { for site in [1u8, 2, 3] { for f in FILLS { for strict in [true, false] {
        let e: u16 = if site == 2 { 32 } else { 20 };
        for l in [e - 1, e + 1, if site == 2 { 64 } else { 32 }] { jobs.push((k, site, l, f, strict)) }
    }}}}
    let routes_seen: Mutex<BTreeSet<&'static str>> = Mutex::new(BTreeSet::new());
    jobs.par_iter().for_each(|&(k, site, l, f, strict)| {
        let mut p = Plan::base(k);
        let cert: Vec<u8> = match site {
            1 => { p.sid = SidV::Spell(l, f); ees[&(k, EeV::Ok)].clone() }
            2 => { p.digest = DigestV::Spell(l, f); ees[&(k, EeV::Ok)].clone() }
            _ => match guard(|| ee_with_key_ids(fx, k, Some(&spell_id(&ski, l as usize, f)), None, 7702)) { Ok(c) => c, Err(pn) => { fail("C02.no_panic", format!("building an EE certificate with a key identifier of {l} octets"), pn); return } },
        };
        let bytes = assemble(fx, &p, &cert);
        let e = if site == 2 { 32 } else { 20 };
        for (route, v) in route_verdicts(fx, k, &bytes, strict) {
            let Some(v) = v else { continue };
            sp.eval(); t.add(v.class()); *nt.lock().unwrap() += 1;
            routes_seen.lock().unwrap().insert(route);
            expect(ctx, "-", "C02.identifier.routes.reject", false, &v, || format!("{}: {}; everything else satisfied; route=`{route}` kind={} strict={strict}",
                ["sid [0]", "message-digest attribute value", "EE certificate subjectKeyIdentifier"][site as usize - 1], spelling_name(e, l, f), k.name()));
        }
    });
    t.flush(&sp);
    sp.nontrivial(*nt.lock().unwrap());
    sp.set("spellings_of_a_20_octet_identifier", serde_json::json!(key_sp.len()));
    sp.set("rejections_per_site", serde_json::json!(*by_site.lock().unwrap()));
    sp.set("routes", serde_json::json!(routes_seen.into_inner().unwrap()));
    sp.sample_str(|| format!("kind=roa sid [0] primitive: {} = {} -> refused at decode", spelling_name(20, 21, Fill::Prefix00), hex(&spell_id(&ski, 21, Fill::Prefix00))));
    sp.sample_str(|| format!("kind=generic message-digest attribute value: {} -> rejected", spelling_name(32, 33, Fill::Suffix00)));
    sp.done(true, &format!("{} spellings of a 20-octet identifier x {{sid in 4 forms, EE subjectKeyIdentifier x 2 sids, EE authorityKeyIdentifier}} + {} spellings of the digest, x 4 kinds x 2 modes; 3 lengths x 6 fills x 3 sites x 4 kinds x 2 modes x 7-10 routes",
        key_sp.len(), id_spellings(&sha256(&default_content(Kind::Gen)), thorough).len()));
}

//------------ number of resource blocks x position of the queried item ------------------------------------------------------

/// (name, [offsets (first, last) within a stride of 16 of block j, by j % 4])
const BLOCK_SHAPES: [(&str, [(u128, u128); 4]); 5] = [
    ("single", [(5, 5); 4]),
    ("pair", [(6, 7); 4]),
    ("range", [(3, 9); 4]),
    ("wide", [(1, 14); 4]),
    ("mixed", [(5, 5), (3, 9), (6, 7), (1, 14)]),
];

fn blocks_position(ctx: &Ctx, fx: &Fx, thorough: bool) {
    let sp = ctx.space("blocks.position",
        "the number of separate resource blocks of the EE certificate crossed with WHERE the queried item sits: N blocks, N in 0..=40, 63..=65, 127..=129, 255..=257 (thorough also 511..=513, 1023..=1025); block j lies in the j-th stride of 16 items (AS numbers from AS196608, IPv4 addresses from 10.0.0.0, IPv6 addresses from 2001:db8::) and has one of five shapes: a single item (offset 5), an aligned pair (6-7), an unaligned range (3-9), a wide range (1-14), or these four in turn (j mod 4). Queried for stride j: EVERY one of its 16 items (so: the gap before, the first, second, interior, last but one, last item of the block, the gap after) - as ASPA customer AS resp. as a one-prefix ROA of a host address; for IP also every aligned prefix of 2, 4, 8 and 16 addresses inside the stride. Strides queried: every j < N and the stride after the last block for N <= 16 (thorough: N <= 129), else j in {0, 1, N/4, N/2-1, N/2, N/2+1, 3N/4, N-2, N-1, N} (thorough: and every 16th j). Issuer: the CA holding everything (all shapes), and a CA holding exactly the same N blocks (shapes range and mixed), overclaim refuse. Oracle: accepted <=> one block contains every queried item; non-trivial = all");
    let mut counts = scale_counts(40, &[64, 128, 256]);
    if thorough { counts.extend(scale_counts(0, &[512, 1024])); counts.sort(); counts.dedup() }
    let strides_of = |n: usize| -> Vec<usize> {
        let mut v: Vec<usize> = if n <= if thorough { 129 } else { 16 } { (0..=n).collect() } else { vec![0, 1, n / 4, n / 2 - 1, n / 2, n / 2 + 1, 3 * n / 4, n - 2, n - 1, n] };
        if thorough && n > 129 { v.extend((0..n).step_by(16)) }
        v.sort(); v.dedup(); v
    };
    let needed: Vec<usize> = { let mut s: BTreeSet<usize> = BTreeSet::new(); for &n in &counts { s.extend(strides_of(n)) } s.into_iter().collect() };
    let ta = pki::valid_ta(&fx.s, K_TA, Res::all());
    let t = Tally::new();
    // family: 0 = AS (ASPA), 1 = IPv4 (ROA), 2 = IPv6 (ROA)
    for fam in 0..3usize {
        let (kind, w) = match fam { 0 => (Kind::Aspa, 32u32), 1 => (Kind::Roa, 32), _ => (Kind::Roa, 128) };
        let base: u128 = match fam { 0 => 196_608, 1 => 0x0a00_0000, _ => 0x2001_0db8u128 << 96 };
        // queries inside a stride: (offset, number of items); the same for every stride and every shape
        let mut queries: Vec<(u128, u128)> = (0..16).map(|o| (o, 1)).collect();
        if fam != 0 { for size in [2u128, 4, 8, 16] { for o in (0..16).step_by(size as usize) { queries.push((o, size)) } } }
        let nq = queries.len();
        // contents signed once: they depend on neither N nor the shape
        let keys: Vec<(usize, usize)> = needed.iter().flat_map(|&j| (0..nq).map(move |q| (j, q))).collect();
        let signed: Vec<Signed> = keys.par_iter().map(|&(j, q)| {
            let (o, size) = queries[q];
            let first = base + 16 * j as u128 + o;
            let content = match fam {
                0 => der::aspa_content(Some(1), first, &[65000, 65001]),
                _ => { let a = [der::roa_addr_from(first, (w - size.trailing_zeros()) as u8, w as u8, None)];
                       if fam == 2 { der::roa_content(None, 64496, None, Some(&a)) } else { der::roa_content(None, 64496, Some(&a), None) } }
            };
            presign(fx, kind, content)
        }).collect();
        let index: BTreeMap<(usize, usize), usize> = keys.iter().enumerate().map(|(i, k)| (*k, i)).collect();
        // (shape, issuer holds exactly the same blocks, N)
        let mut jobs: Vec<(usize, bool, usize)> = Vec::new();
        for (si, (sname, _)) in BLOCK_SHAPES.iter().enumerate() { for tight in [false, true] { for &n in &counts {
            if tight && !matches!(*sname, "range" | "mixed") { continue }
            jobs.push((si, tight, n));
        }}}
        jobs.par_iter().for_each(|&(si, tight, n)| {
            let (sname, offs) = BLOCK_SHAPES[si];
            let blocks: Vec<(u128, u128)> = (0..n).map(|j| { let (a, b) = offs[j % 4]; (base + 16 * j as u128 + a, base + 16 * j as u128 + b) }).collect();
            let claim = if n == 0 { Claim::Missing } else { Claim::Blocks(blocks.clone()) };
            // ASPA: no IP resources at all; ROA: a block of the other family keeps the certificates well-formed when N = 0
            let res = match fam {
                0 => Res { v4: Claim::Missing, v6: Claim::Missing, asn: claim },
                1 => Res { v4: claim, v6: Claim::Blocks(vec![(0x2001_0db8u128 << 96, (0x2001_0db8u128 << 96) + 0xffff)]), asn: Claim::Missing },
                _ => Res { v4: Claim::Blocks(vec![(0x0a00_0000, 0x0a00_00ff)]), v6: claim, asn: Claim::Missing },
            };
            let built = guard(|| {
                let issuer = if tight { let mut r = res.clone(); if fam == 0 && n == 0 { r.asn = Claim::Blocks(vec![(1, 1)]) } pki::valid_ca(&fx.s, &ta, K_TA, K_CA, r) } else { fx.ca.clone() };
                (ee_der(fx, res.clone(), EeV::Ok, 9000 + n as u128), issuer)
            });
            let (cert, issuer) = match built { Ok(x) => x, Err(pn) => { fail("C02.no_panic", format!("building certificates with {n} blocks (shape {sname})"), pn); return } };
            let mut local: BTreeMap<&'static str, u64> = BTreeMap::new();
            let mut evals = 0u64;
            for j in strides_of(n) { for (q, &(o, size)) in queries.iter().enumerate() {
                let first = base + 16 * j as u128 + o;
                let last = first + size - 1;
                let want = blocks.iter().any(|&(lo, hi)| lo <= first && last <= hi);
                let bytes = wrap(fx, kind, &signed[index[&(j, q)]], &cert);
                let (v, _) = run(fx, kind, &bytes, &issuer, true, Entry::Process(true));
                evals += 1; *local.entry(v.class()).or_insert(0) += 1;
                let (oa, or) = if fam == 0 { ("C02.aspa.accept", "C02.aspa.reject") } else { ("C02.roa.covered.accept", "C02.roa.uncovered.reject") };
                expect(ctx, oa, or, want, &v, || {
                    let item = match fam { 0 => format!("aspa customer=AS{first}"), 1 => format!("roa prefix={}", render_pfx(&Pfx { bits: first, len: (w - size.trailing_zeros()) as u8, max: None }, false)),
                        _ => format!("roa prefix={}", render_pfx(&Pfx { bits: first, len: (w - size.trailing_zeros()) as u8, max: None }, true)) };
                    let place = if j >= n { "in the stride after the last block".to_string() } else {
                        let (a, b) = offs[j % 4];
                        let pos = if size > 1 { format!("items {o}..={} of the stride", o + size - 1) } else if o < a { "in the gap before".into() } else if o > b { "in the gap after".into() } else if o == a && o == b { "the only item".into() }
                            else if o == a { "the FIRST item".into() } else if o == b { "the LAST item".into() } else { "an interior item".into() };
                        format!("{pos} of block {j} = offsets {a}..={b} of stride {j}")
                    };
                    // the block count first and right-aligned: the sorted list of witnesses starts with the smallest count that fails
                    format!("ee certificate holds {n:>4} blocks of shape `{sname}`, block i at {} + 16 i; issuer holds {}; {item} ({place})", match fam { 0 => "AS196608", 1 => "10.0.0.0", _ => "2001:db8::" }, if tight { "exactly the same blocks" } else { "everything" })
                });
            }}
            sp.evals(evals); sp.nontrivial(evals);
            let mut g = t.oc.lock().unwrap(); for (k, c) in local { *g.entry(k).or_insert(0) += c }
        });
    }
    sp.merge_outcomes(&t.oc.lock().unwrap());
    sp.set("block_counts", serde_json::json!(counts));
    sp.set("strides_signed", serde_json::json!(needed.len()));
    sp.sample_str(|| "ee certificate holds    9 blocks of shape `range`, block i at AS196608 + 16 i; issuer holds everything; aspa customer=AS196739 (the FIRST item of block 8 = offsets 3..=9 of stride 8) -> accepted".to_string());
    sp.sample_str(|| "ee certificate holds   12 blocks of shape `range`, block i at 10.0.0.0 + 16 i; issuer holds exactly the same blocks; roa prefix=v4:0a000088/29 (items 8..=15 of the stride of block 8 = offsets 3..=9 of stride 8) -> rejected".to_string());
    sp.done(true, &format!("{} block counts x (5 shapes under the full CA + 2 shapes under a CA with the same blocks) x the queried strides x (16 AS numbers; 16 host addresses + 15 aligned prefixes in each IP family)", counts.len()));
}

//------------ ROA: number of prefixes x relation of further prefixes to them and to the EE certificate's blocks ---------------
// A coverage check that switches to another algorithm from some count on (sort and sweep, binary search, de-duplication,
// "first and last lie in one block") is only wrong for lists that are long enough AND contain two prefixes standing in a
// particular relation (same start, same end, nested, equal, adjacent) one of which is not covered. Counts, relations,
// the layout of the list and the place of the odd prefix are therefore crossed.

/// The EE certificate's blocks in slots, inclusive (slot s = the /24 number s counted from 10.0.0.0, the /48 number s counted from 2001:db8::).
const REL_BLOCKS: [(u32, u32); 4] = [(4, 5), (64, 111), (128, 1300), (2048, 2048)];
/// Slots around which the further prefixes are built: before everything, both sides of every block end, interior, far behind.
const REL_ANCHORS: [u32; 22] = [0, 3, 4, 5, 6, 63, 64, 80, 96, 111, 112, 127, 128, 700, 1300, 1301, 2047, 2048, 2049, 3062, 3063, 4000];
/// How many slots wide (as a power of two) the prefix around an anchor is.
const REL_WIDER: [u8; 10] = [0, 1, 2, 3, 4, 5, 6, 8, 11, 16];

/// Family and number of further single-slot blocks (slots 3000, 3002, ...) of the EE certificate.
#[derive(Clone, Copy, Debug, PartialEq, Eq, PartialOrd, Ord)]
struct RelFam { v6: bool, extra: u32 }

impl RelFam {
    fn w(self) -> u32 { fam_width(self.v6) }
    fn slot_len(self) -> u8 { if self.v6 { 48 } else { 24 } }
    fn base(self) -> u128 { if self.v6 { 0x2001_0db8u128 << 96 } else { 0x0a00_0000 } }
    fn unit(self) -> u128 { 1u128 << (self.w() - self.slot_len() as u32) }
    fn slot(self, s: u32) -> u128 { self.base() + s as u128 * self.unit() }
    fn name(self) -> &'static str { if self.v6 { "v6" } else { "v4" } }
    fn range(self, p: &Pfx) -> (u128, u128) {
        let w = self.w();
        let span = if p.len == 0 { if w == 128 { u128::MAX } else { (1u128 << w) - 1 } } else if p.len as u32 == w { 0 } else { (1u128 << (w - p.len as u32)) - 1 };
        (p.bits, p.bits + span)
    }
    fn blocks(self) -> Vec<(u128, u128)> {
        REL_BLOCKS.iter().copied().chain((0..self.extra).map(|i| (3000 + 2 * i, 3000 + 2 * i))).map(|(a, b)| (self.slot(a), self.slot(b) + self.unit() - 1)).collect()
    }
    /// The aligned prefix of `len` bits that contains the address.
    fn prefix_of(self, addr: u128, len: u8) -> Pfx {
        let w = self.w();
        let bits = if len == 0 { 0 } else if len as u32 == w { addr } else { addr & !((1u128 << (w - len as u32)) - 1) };
        Pfx { bits, len, max: None }
    }
    fn filler(self, s: u32) -> Pfx { Pfx { bits: self.slot(s), len: self.slot_len(), max: None } }
}

/// Model: one block contains the whole range.
fn rel_covered(blocks: &[(u128, u128)], (lo, hi): (u128, u128)) -> bool { blocks.iter().any(|&(a, b)| a <= lo && hi <= b) }

/// How the fillers are laid out (all of them covered). A list with n fillers holds the first n of the layout.
#[derive(Clone, Copy, Debug, PartialEq, Eq, PartialOrd, Ord)]
enum RelLayout {
    /// slots [64, 128, 4, 111, 5, 2048, 1300, 80, 65..=110, 129..=1299]: the starts and ends of all blocks first
    Anchored,
    /// slots [65..=110, 129..=1299]: none on a block start or end; up to 46 fillers lie in one block
    Plain,
    /// the 1/128 slots (v4 /31, v6 /55) number 0, 1, 2, ... of slot 96 onwards: all in one block, all inside the prefixes around slot 96
    Dense,
}

impl RelLayout {
    fn name(self) -> &'static str {
        match self { RelLayout::Anchored => "slots [64,128,4,111,5,2048,1300,80,65..=110,129..=1299]", RelLayout::Plain => "slots [65..=110,129..=1299]", RelLayout::Dense => "the 1/128 slots 0,1,2,.. from slot 96 on" }
    }
    fn fillers(self, f: RelFam) -> Vec<Pfx> {
        match self {
            RelLayout::Dense => (0..1025u128).map(|i| Pfx { bits: f.slot(96) + i * (f.unit() >> 7), len: f.slot_len() + 7, max: None }).collect(),
            _ => {
                let mut v: Vec<u32> = if self == RelLayout::Anchored { vec![64, 128, 4, 111, 5, 2048, 1300, 80] } else { Vec::new() };
                for s in (65..=110).chain(129..=1299) { if !v.contains(&s) { v.push(s) } }
                v.into_iter().map(|s| f.filler(s)).collect()
            }
        }
    }
}

const REL_ORDERS: [&str; 3] = ["ascending", "descending", "scattered (by index * 37 mod 4099)"];

/// The first n fillers of the layout in the given order.
fn rel_ordered(all: &[Pfx], n: usize, order: u8) -> Vec<Pfx> {
    let mut v: Vec<(usize, Pfx)> = all[..n].iter().copied().enumerate().collect();
    match order { 0 => v.sort_by_key(|(_, p)| p.bits), 1 => { v.sort_by_key(|(_, p)| p.bits); v.reverse() } _ => v.sort_by_key(|(i, _)| (i * 37 % 4099, *i)) }
    v.into_iter().map(|(_, p)| p).collect()
}

/// Where a further prefix is inserted.
#[derive(Clone, Copy, Debug, PartialEq, Eq, PartialOrd, Ord)]
enum RelPlace { First, Middle, Last,
    /// where it belongs by (first address, last address) in an ascending / descending list: next to the prefixes it shares its start with
    InOrder }

fn rel_index(f: RelFam, list: &[Pfx], p: &Pfx, place: RelPlace, order: u8) -> usize {
    match place {
        RelPlace::First => 0, RelPlace::Middle => list.len() / 2, RelPlace::Last => list.len(),
        RelPlace::InOrder => { let k = f.range(p); list.iter().filter(|q| if order == 1 { f.range(q) > k } else { f.range(q) <= k }).count() }
    }
}

/// Every further prefix: around each anchor slot the prefixes 1, 2, 4, ... 65536 slots wide and /0, the two halves of the slot, its first and last host address; four slots again with a maxLength.
fn rel_probes(f: RelFam) -> Vec<Pfx> {
    let (w, sl) = (f.w() as u8, f.slot_len());
    let mut v: Vec<Pfx> = Vec::new();
    for a in REL_ANCHORS {
        let s = f.slot(a);
        for r in REL_WIDER { v.push(f.prefix_of(s, sl - r)) }
        v.push(f.prefix_of(s, 0));
        v.extend([Pfx { bits: s, len: sl + 1, max: None }, Pfx { bits: s + f.unit() / 2, len: sl + 1, max: None }, Pfx { bits: s, len: w, max: None }, Pfx { bits: s + f.unit() - 1, len: w, max: None }]);
    }
    for a in [64u32, 80, 112, 2048] { v.push(Pfx { bits: f.slot(a), len: sl, max: Some(w) }); v.push(Pfx { bits: f.slot(a), len: sl, max: Some(sl + 1) }) }
    let mut seen = BTreeSet::new();
    v.retain(|p| seen.insert(*p));
    v
}

/// The smaller menu from which ordered PAIRS of further prefixes are taken (over the plain layout: no filler on an anchor).
fn rel_pair_menu(f: RelFam, full: bool) -> Vec<Pfx> {
    let (w, sl) = (f.w() as u8, f.slot_len());
    let p = |a: u32, r: u8| f.prefix_of(f.slot(a), sl - r);
    let mut v = vec![p(64, 0), Pfx { bits: f.slot(64), len: sl + 1, max: None }, p(64, 5), p(64, 6), p(111, 0), p(112, 0), p(96, 5), p(4, 0), p(4, 2), f.prefix_of(0, 0)];
    if full { v.extend([p(64, 1), Pfx { bits: f.slot(111) + f.unit() - 1, len: w, max: None }, p(4, 1), p(2048, 0), p(2048, 1), Pfx { bits: f.slot(64), len: sl, max: Some(w) }]) }
    v
}

/// How a prefix relates to the EE certificate's blocks and to the other prefixes of the list.
#[derive(Clone, Copy, Debug, PartialEq, Eq, PartialOrd, Ord)]
struct Relation { covered: bool, start_in: i8, end_in: i8, at_block_start: bool, at_block_end: bool, equal: bool, inside: bool, contains: u8, same_start: bool, same_end: bool, adjacent: bool,
    /// 0 = /0, 1 = wider than a slot, 2 = a slot, 3 = part of a slot, 4 = one host address
    len_class: u8, has_max: bool }

impl Relation {
    fn of(f: RelFam, blocks: &[(u128, u128)], p: &Pfx, others: &[(u128, u128)]) -> Relation {
        let (lo, hi) = f.range(p);
        // which block: 0..=3 the four main ones, 4 = any of the further single-slot blocks
        let inb = |x: u128| blocks.iter().position(|&(a, b)| a <= x && x <= b).map(|i| i.min(4) as i8).unwrap_or(-1);
        let mut r = Relation { covered: rel_covered(blocks, (lo, hi)), start_in: inb(lo), end_in: inb(hi), at_block_start: blocks.iter().any(|b| b.0 == lo), at_block_end: blocks.iter().any(|b| b.1 == hi), equal: false, inside: false, contains: 0, same_start: false, same_end: false, adjacent: false,
            len_class: if p.len == 0 { 0 } else if p.len < f.slot_len() { 1 } else if p.len == f.slot_len() { 2 } else if (p.len as u32) < f.w() { 3 } else { 4 }, has_max: p.max.is_some() };
        for &(a, b) in others {
            if (a, b) == (lo, hi) { r.equal = true; continue }
            if a <= lo && hi <= b { r.inside = true }
            if lo <= a && b <= hi { r.contains = (r.contains + 1).min(2) }
            if a == lo { r.same_start = true }
            if b == hi { r.same_end = true }
            if (b < lo && b + 1 == lo) || (hi < a && hi + 1 == a) { r.adjacent = true }
        }
        r
    }
    fn related(&self) -> bool { self.equal || self.inside || self.contains > 0 || self.same_start || self.same_end || (!self.covered && (self.start_in >= 0 || self.end_in >= 0)) }
    fn show(&self) -> String {
        let place = |i: i8| match i { -1 => "outside".to_string(), 4 => "in a further block".to_string(), i => format!("in block {i}") };
        let mut s = format!("{} start {} end {}", if self.covered { "COVERED" } else { "UNCOVERED" }, place(self.start_in), place(self.end_in));
        if self.at_block_start { s += ", at the block's first address" }
        if self.at_block_end { s += ", up to the block's last address" }
        if self.equal { s += ", equals another" }
        if self.inside { s += ", inside another" }
        if self.contains > 0 { s += if self.contains == 1 { ", contains one other" } else { ", contains several others" } }
        if self.same_start { s += ", SAME START as another of another length" }
        if self.same_end { s += ", same end as another of another length" }
        if self.adjacent { s += ", adjacent to another" }
        if self.has_max { s += ", with maxLength" }
        s
    }
}

#[derive(Clone, Debug)]
struct RelJob { f: RelFam, n: usize, layout: RelLayout, order: u8,
    /// further prefixes with their places, inserted one after the other
    probes: Vec<(RelPlace, Pfx)>,
    /// a single prefix in the OTHER family's list (which then holds nothing else)
    other: Option<Pfx> }

fn count_relation(ctx: &Ctx, fx: &Fx, thorough: bool) {
    let sp = ctx.space("roa.count.relation",
        "ROAs with N filler prefixes in one family plus one or two further prefixes chosen by their RELATION to the fillers and to the EE certificate's blocks. Slot s = the /24 number s from 10.0.0.0 (the /48 number s from 2001:db8::); the EE certificate holds slots 4-5, 64-111, 128-1300 and 2048 of both families (4 blocks), or these and the 64 single slots 3000, 3002, .. 3126 (68 blocks). N in 0..=40 and k-1, k, k+1 for k = 64, 128, 256, 512, 1024. Fillers (all covered) = the first N of a layout: `anchored` slots [64,128,4,111,5,2048,1300,80,65..=110,129..=1299] (the starts and ends of the blocks first), `plain` slots [65..=110,129..=1299] (none on a block end; up to 46 in one block), `dense` the 1/128 slots 0,1,2,.. from slot 96 on (v4 /31s, v6 /55s: all in one block and all inside the wider prefixes around slot 96); listed ascending, descending or scattered. (1) ONE further prefix: around each of 22 anchor slots (before everything, both sides of every block end, interior, far behind) the prefixes 1, 2, 4, 8, 16, 32, 64, 256, 2048, 65536 slots wide and /0, both halves, first and last host address, and four slots again with a maxLength; quick: per (layout, N) one prefix for each distinct relation (covered?, block of its start / of its end, begins at a block's first / ends at a block's last address, equals / lies inside / contains one / several others, same start, same end, adjacent, length class (/0, wider than a slot, a slot, part of a slot, one host address), maxLength), thorough: all of them; inserted first, in the middle, last, and (ascending / descending lists) where it belongs in the order, i.e. next to the prefixes it shares its start with. Quick: v4 anchored x 4 blocks with all 11 (order, place) combinations; v4 plain x 68, v4 dense x 68, v6 anchored x 4, v6 dense x 68 with 4 combinations (ascending in order, descending middle, scattered first and last). Thorough: both families x 3 layouts x both certificates x 11. (2) ordered PAIRS (also twice the same) out of a menu of 10 (thorough 16) prefixes around slots 64, 96, 111, 112, 4 (2048) and /0 over the plain layout, the first at the head and the second at the tail of a scattered list (thorough: also adjacent in the middle, all orders, both certificates). (3) the further prefix in the OTHER family (covered / same start as a covered one but wider / in a gap / /0). Oracle: accepted <=> one block of the EE certificate contains every prefix of the list; non-trivial = lists in which a further prefix equals, contains, lies inside or shares its start or end with another prefix, or begins or ends in a block that does not contain it");
    let mut counts = scale_counts(40, &[64, 128, 256, 512, 1024]);
    counts.retain(|&n| n <= 1025);
    let extras = [0u32, 64];
    let certs: BTreeMap<u32, Vec<u8>> = extras.iter().map(|&e| {
        let res = Res { v4: Claim::Blocks(RelFam { v6: false, extra: e }.blocks()), v6: Claim::Blocks(RelFam { v6: true, extra: e }.blocks()), asn: Claim::Missing };
        (e, ee_der(fx, res, EeV::Ok, 9900 + e as u128))
    }).collect();
    use RelLayout::*;
    use RelPlace::*;
    let combos_all: Vec<(u8, RelPlace)> = vec![(0, First), (0, Middle), (0, Last), (0, InOrder), (1, First), (1, Middle), (1, Last), (1, InOrder), (2, First), (2, Middle), (2, Last)];
    let combos_few: Vec<(u8, RelPlace)> = vec![(0, InOrder), (1, Middle), (2, First), (2, Last)];
    // (family, layout, further blocks, (order, place) combinations)
    let mut singles: Vec<(bool, RelLayout, u32, &Vec<(u8, RelPlace)>)> = Vec::new();
    if thorough { for v6 in [false, true] { for l in [Anchored, Plain, Dense] { for e in extras { singles.push((v6, l, e, &combos_all)) } } } }
    else { singles.extend([(false, Anchored, 0, &combos_all), (false, Plain, 64, &combos_few), (false, Dense, 64, &combos_few), (true, Anchored, 0, &combos_few), (true, Dense, 64, &combos_few)]) }
    let mut jobs: Vec<RelJob> = Vec::new();
    let mut relations_used: BTreeSet<Relation> = BTreeSet::new();
    let mut probes_total = 0usize;
    for &(v6, layout, extra, combos) in &singles {
        let f = RelFam { v6, extra };
        let (probes, blocks, all) = (rel_probes(f), f.blocks(), layout.fillers(f));
        probes_total = probes.len();
        for &n in &counts {
            let franges: Vec<(u128, u128)> = all[..n].iter().map(|p| f.range(p)).collect();
            let mut seen: BTreeSet<Relation> = BTreeSet::new();
            let ordered: Vec<Vec<Pfx>> = (0..3u8).map(|o| rel_ordered(&all, n, o)).collect();
            for p in &probes {
                let r = Relation::of(f, &blocks, p, &franges);
                relations_used.insert(r);
                if !(seen.insert(r) || thorough) { continue }
                let mut done: BTreeSet<(u8, usize)> = BTreeSet::new();
                for &(o, place) in combos.iter() {
                    // short lists: orders and places coincide
                    let o_eff = if n <= 1 { 0 } else { o };
                    if !done.insert((o_eff, rel_index(f, &ordered[o_eff as usize], p, place, o_eff))) { continue }
                    jobs.push(RelJob { f, n, layout, order: o_eff, probes: vec![(place, *p)], other: None });
                }
            }
        }
    }
    for v6 in [false, true] {
        for &extra in if thorough { &extras[..] } else { &extras[..1] } {
            let f = RelFam { v6, extra };
            let menu = rel_pair_menu(f, thorough);
            for &n in &counts { for a in &menu { for b in &menu {
                for o in if thorough { 0..3u8 } else { 2..3u8 } {
                    if n <= 1 && o != 2 { continue }
                    jobs.push(RelJob { f, n, layout: Plain, order: o, probes: vec![(First, *a), (Last, *b)], other: None });
                    if thorough && n >= 2 { jobs.push(RelJob { f, n, layout: Plain, order: o, probes: vec![(Middle, *a), (Middle, *b)], other: None }) }
                }
            }}}
        }
        // (3) the further prefix in the other family
        let (f, g) = (RelFam { v6, extra: 0 }, RelFam { v6: !v6, extra: 0 });
        for &n in &counts { for p in [g.filler(64), g.prefix_of(g.slot(64), g.slot_len() - 6), g.filler(112), g.prefix_of(0, 0)] {
            if n >= 1 { jobs.push(RelJob { f, n, layout: Anchored, order: 2, probes: Vec::new(), other: Some(p) }) }
        }}
    }
    // fillers of every (family, layout): built once
    let fillers: BTreeMap<(bool, RelLayout), Vec<Pfx>> = [false, true].into_iter().flat_map(|v6| [Anchored, Plain, Dense].into_iter().map(move |l| ((v6, l), l.fillers(RelFam { v6, extra: 0 })))).collect();
    let t = Tally::new();
    let nt = Mutex::new(0u64);
    let by_rel: Mutex<BTreeMap<String, u64>> = Mutex::new(BTreeMap::new());
    jobs.par_iter().for_each(|j| {
        let f = j.f;
        let g = RelFam { v6: !f.v6, extra: f.extra };
        let blocks = f.blocks();
        let mut list: Vec<Pfx> = rel_ordered(&fillers[&(f.v6, j.layout)], j.n, j.order);
        let mut idx: Vec<usize> = Vec::new();
        for (k, (place, p)) in j.probes.iter().enumerate() {
            // the second of an adjacent pair goes right behind the first
            let at = if k == 1 && *place == Middle { idx[0] + 1 } else { rel_index(f, &list, p, *place, j.order) };
            list.insert(at, *p); idx.push(at);
        }
        let ranges: Vec<(u128, u128)> = list.iter().map(|p| f.range(p)).collect();
        let want = ranges.iter().all(|r| rel_covered(&blocks, *r)) && j.other.map(|p| rel_covered(&g.blocks(), g.range(&p))).unwrap_or(true);
        // the relation of every further prefix to the REST of the list (later insertions are behind earlier ones)
        let rels: Vec<Relation> = j.probes.iter().zip(&idx).map(|((_, p), &at)| {
            let others: Vec<(u128, u128)> = ranges.iter().enumerate().filter(|(x, _)| *x != at).map(|(_, r)| *r).collect();
            Relation::of(f, &blocks, p, &others)
        }).collect();
        let mine: Vec<RoaAddr> = list.iter().map(|p| to_roa_addr(p, f.v6)).collect();
        let theirs: Vec<RoaAddr> = j.other.iter().map(|p| to_roa_addr(p, g.v6)).collect();
        let (l4, l6) = if f.v6 { (&theirs, &mine) } else { (&mine, &theirs) };
        let content = der::roa_content(None, 64496, if l4.is_empty() { None } else { Some(l4) }, if l6.is_empty() { None } else { Some(l6) });
        let bytes = wrap(fx, Kind::Roa, &presign(fx, Kind::Roa, content), &certs[&f.extra]);
        let (v, _) = run(fx, Kind::Roa, &bytes, &fx.ca, true, Entry::Process(true));
        sp.eval(); t.add(v.class());
        if rels.iter().any(|r| r.related()) { *nt.lock().unwrap() += 1 }
        if j.probes.len() == 1 { *by_rel.lock().unwrap().entry(format!("{} -> {}", rels[0].show(), v.class())).or_insert(0) += 1 }
        expect(ctx, "C02.roa.covered.accept", "C02.roa.uncovered.reject", want, &v, || {
            // the count first and right-aligned: the sorted list of witnesses starts with the shortest list that fails
            let mut s = format!("roa {} {:>4} fillers", f.name(), j.n);
            for (((_, p), r), at) in j.probes.iter().zip(&rels).zip(&idx) { s += &format!(" + {} at index {} [{}]", render_pfx(p, f.v6), at, r.show()) }
            if let Some(p) = &j.other { s += &format!(" + {} alone in the other family [{}]", render_pfx(p, g.v6), if rel_covered(&g.blocks(), g.range(p)) { "COVERED" } else { "UNCOVERED" }) }
            s + &format!("; fillers = the first {} of {} ({}), {}; ee holds slots 4-5, 64-111, 128-1300, 2048{} of both families", j.n, j.layout.name(),
                if f.v6 { "slot s = /48 number s from 2001:db8::" } else { "slot s = /24 number s from 10.0.0.0" }, REL_ORDERS[j.order as usize], if f.extra > 0 { " and 3000, 3002, .. 3126" } else { "" })
        });
    });
    sp.merge_outcomes(&t.oc.lock().unwrap());
    sp.nontrivial(*nt.lock().unwrap());
    sp.set("prefix_counts", serde_json::json!(counts));
    sp.set("further_prefixes", serde_json::json!(probes_total));
    sp.set("distinct_relations", serde_json::json!(relations_used.len()));
    sp.set("single_prefix_relations", serde_json::json!(*by_rel.lock().unwrap()));
    sp.sample_str(|| "roa v4   40 fillers + v4:0a004000/18 at index 0 [UNCOVERED start in block 1 end outside, contains several others, SAME START as another of another length]; fillers = the first 40 of the anchored layout, ascending -> rejected".to_string());
    sp.done(true, &format!("{} prefix counts x ({} (family, layout, certificate) settings x {} x up to 11 (order, place) combinations; 2 families x {} ordered pairs x {}; 2 families x 4 prefixes in the other family)", counts.len(), singles.len(),
        if thorough { format!("{} further prefixes", probes_total) } else { format!("one further prefix per relation ({} distinct relations in all, out of {} prefixes)", relations_used.len(), probes_total) },
        rel_pair_menu(RelFam { v6: false, extra: 0 }, thorough).len().pow(2), if thorough { "2 placements x 3 orders x 2 certificates" } else { "1 placement, scattered order" }));
}

//------------ history: fold-colliding copies right after the genuine object ------------------------------------------------------
// A memo of verified signatures (or digests, or certificates) is sound only if its key identifies the verified operands.
// Keys that FOLD the operands (xor or sum of machine words, a few leading / trailing octets) collide for copies that
// differ in two places which cancel out. Such copies are enumerated here and presented right after the genuine object
// was accepted on the same thread. (A collision of a multiplicative 64-bit hash cannot be enumerated; see DESIGN.)

#[derive(Clone, Copy, Debug, PartialEq, Eq, PartialOrd, Ord)]
enum FoldField { Signature, Digest, SigningTime, EeKey, DigestResigned }

impl FoldField {
    fn name(self) -> &'static str { match self { FoldField::Signature => "signature value", FoldField::Digest => "message-digest value", FoldField::SigningTime => "signing-time digits", FoldField::EeKey => "EE key modulus", FoldField::DigestResigned => "message-digest value (attributes signed again over the changed value)" } }
}

#[derive(Clone, Copy, Debug, PartialEq, Eq, PartialOrd, Ord)]
enum FoldOp {
    /// the same bit(s) flipped in the octets p and q (q - p a multiple of the folded word's size): xor fold
    Xor(usize, usize, u8),
    /// +1 in one octet, -1 in the other, no carry: sum fold
    PlusMinus(usize, usize),
    /// two octets / two aligned words of 4 or 8 octets exchanged: any commutative fold
    SwapOctets(usize, usize), SwapWords(usize, usize, usize),
    /// every octet of the range complemented: a key made of the octets outside it
    Complement(usize, usize),
    /// one octet changed (single point, but AFTER the genuine object)
    Single(usize, u8),
    Prepend0, Append0, DropLast,
}

impl FoldOp {
    fn family(self) -> &'static str {
        match self { FoldOp::Xor(..) => "xor-fold", FoldOp::PlusMinus(..) => "sum-fold", FoldOp::SwapOctets(..) | FoldOp::SwapWords(..) => "swap", FoldOp::Complement(..) => "truncated-key", FoldOp::Single(..) => "single-octet", _ => "length" }
    }
    fn show(self) -> String {
        match self {
            FoldOp::Xor(p, q, m) => format!("octets {p} and {q} both xor {m:#04x}"),
            FoldOp::PlusMinus(p, q) => format!("octets {p} and {q}: one +1, the other -1 (no carry)"),
            FoldOp::SwapOctets(p, q) => format!("octets {p} and {q} exchanged"),
            FoldOp::SwapWords(p, q, w) => format!("the {w}-octet words at {p} and {q} exchanged"),
            FoldOp::Complement(a, b) => format!("octets {a}..{b} complemented"),
            FoldOp::Single(p, m) => format!("octet {p} xor {m:#04x}"),
            FoldOp::Prepend0 => "a zero octet prepended".into(), FoldOp::Append0 => "a zero octet appended".into(), FoldOp::DropLast => "last octet dropped".into(),
        }
    }
    /// None: not applicable or no change.
    fn apply(self, f: &[u8]) -> Option<Vec<u8>> {
        let mut v = f.to_vec();
        match self {
            FoldOp::Xor(p, q, m) => { v[p] ^= m; v[q] ^= m }
            FoldOp::PlusMinus(p, q) => {
                if v[p] != 0xff && v[q] != 0 { v[p] += 1; v[q] -= 1 } else if v[p] != 0 && v[q] != 0xff { v[p] -= 1; v[q] += 1 } else { return None }
            }
            FoldOp::SwapOctets(p, q) => v.swap(p, q),
            FoldOp::SwapWords(p, q, w) => for i in 0..w { v.swap(p + i, q + i) },
            FoldOp::Complement(a, b) => for x in &mut v[a..b] { *x = !*x },
            FoldOp::Single(p, m) => v[p] ^= m,
            FoldOp::Prepend0 => v.insert(0, 0), FoldOp::Append0 => v.push(0), FoldOp::DropLast => { v.pop(); }
        }
        if v == f { None } else { Some(v) }
    }
}

/// The tampers of a field of `l` octets. `dists`: distances between the two octets; `all_word_pairs`: every pair of aligned words, else neighbours and first/last.
fn fold_ops(l: usize, dists: &[usize], all_word_pairs: bool, with_length: bool) -> Vec<FoldOp> {
    let mut v = Vec::new();
    for &d in dists { if d >= l { continue }
        for p in 0..l - d { let q = p + d; v.extend([FoldOp::Xor(p, q, 0x01), FoldOp::Xor(p, q, 0x80), FoldOp::Xor(p, q, 0xff), FoldOp::PlusMinus(p, q), FoldOp::SwapOctets(p, q)]) }
    }
    for w in [4usize, 8] {
        let nw = l / w;
        for i in 0..nw { for j in i + 1..nw {
            if all_word_pairs && w == 8 || j == i + 1 || (i == 0 && j == nw - 1) { v.push(FoldOp::SwapWords(i * w, j * w, w)) }
        }}
    }
    let mut ks: Vec<usize> = vec![1, 2, 4, 8, 16, 32, 64, l / 2]; ks.sort(); ks.dedup();
    for k in ks { if k == 0 || k >= l { continue }
        v.extend([FoldOp::Complement(0, k), FoldOp::Complement(l - k, l), FoldOp::Complement(k, l), FoldOp::Complement(0, l - k)]);
        if 2 * k < l { v.push(FoldOp::Complement(k, l - k)) }
    }
    v.push(FoldOp::Complement(0, l));
    for p in 0..l { v.extend([FoldOp::Single(p, 0x01), FoldOp::Single(p, 0x80)]) }
    if with_length { v.extend([FoldOp::Prepend0, FoldOp::Append0, FoldOp::DropLast]) }
    v.sort(); v.dedup();
    v
}

fn wrap_parts(fx: &Fx, kind: Kind, content: &[u8], attrs: &[Vec<u8>], sig: &[u8], cert: &[u8]) -> Vec<u8> {
    der::signed_data(&SignedDataParts {
        version: 3, digest_alg_set: der::set_unsorted(&[der::alg_sha256(false)]), econtent_type: kind.ect(), econtent: content.to_vec(),
        certificates: vec![cert.to_vec()], crls: vec![], si_version: 3, sid: fx.s.key(K_EE).ski.to_vec(),
        si_digest_alg: der::alg_sha256(false), signed_attrs: attrs.to_vec(), sig_alg: der::alg_rsa_encryption(), signature: sig.to_vec(),
    })
}

fn find_sub(hay: &[u8], needle: &[u8]) -> Option<usize> { hay.windows(needle.len()).position(|w| w == needle) }

fn fold_collisions(ctx: &Ctx, fx: &Fx, ees: &BTreeMap<(Kind, EeV), Vec<u8>>, thorough: bool) {
    let sp = ctx.space("history.fold_collision",
        "per kind: on a NEW OS thread the genuine object (accepted), then IMMEDIATELY a copy in which one operand of the signature check was changed in a way that cancels out in a folded or truncated key: field in {signature value (256 octets), message-digest value (32), the 12 digits of the signing time, the EE key's modulus inside the embedded certificate (256)}; change in {the same bit(s) (0x01, 0x80, 0xff) flipped in two octets p and p+d (xor fold of d-octet words, whatever their alignment), +1 / -1 in two such octets without carry (sum fold), the two octets exchanged, two aligned 4- / 8-octet words exchanged, all octets of the first / last / all-but-first / all-but-last / middle k complemented (key truncated to the rest), one octet changed, a zero octet prepended / appended / the last dropped (signature)}; generic kind: d in {1, 2, 4, 8, 16, L/2} (quick: {1, 4, 8, L/2}) and every pair of 8-octet words; ROA, manifest, ASPA: d = 8, neighbouring words. The genuine object is validated again before every copy (chunks of 48 copies per thread). Oracles: every copy is rejected (no changed signature, signed attribute or key can verify), and its observation equals the one it gives first thing on its own new thread; non-trivial = copies (each differs from the genuine object)");
    let issuers = vec![fx.ca.clone()];
    let entry_of = |k: Kind| match k { Kind::Mft | Kind::Gen => Entry::At, _ => Entry::Process(true) };
    struct Case { kind: Kind, field: FoldField, op: FoldOp, bytes: Vec<u8> }
    let mut cases: Vec<Case> = Vec::new();
    let mut genuine: BTreeMap<Kind, Vec<u8>> = BTreeMap::new();
    let mut skipped = 0u64;
    for k in KINDS {
        let p = Plan::base(k);
        let cert = &ees[&(k, EeV::Ok)];
        let digest = sha256(&p.content);
        let time = der::utctime(civil(p.st_secs));
        let attrs_of = |dg: &[u8], t: &[u8]| -> Vec<Vec<u8>> { vec![der::attr_content_type(&p.ect), der::attr_message_digest(dg), der::attr_signing_time(t.to_vec())] };
        let attrs = attrs_of(&digest, &time);
        let sig = fx.s.sign_raw(K_EE, &der::signed_attrs_tbs(&attrs));
        genuine.insert(k, wrap_parts(fx, k, &p.content, &attrs, &sig, cert));
        // the modulus inside the certificate: INTEGER of 257 octets (leading zero) inside the RSAPublicKey
        let spki = &fx.s.key(K_EE).spki_der;
        let modulus_at = find_sub(cert, spki).and_then(|a| find_sub(spki, &[0x02, 0x82, 0x01, 0x01, 0x00]).map(|b| a + b + 5));
        let Some(modulus_at) = modulus_at else { ctx.machinery_error("history.fold_collision: cannot locate the EE key's modulus"); continue };
        let full = k == Kind::Gen;
        for field in [FoldField::Signature, FoldField::Digest, FoldField::SigningTime, FoldField::EeKey, FoldField::DigestResigned] {
            let orig: Vec<u8> = match field { FoldField::Signature => sig.clone(), FoldField::Digest | FoldField::DigestResigned => digest.clone(), FoldField::SigningTime => time[2..14].to_vec(), FoldField::EeKey => cert[modulus_at..modulus_at + 256].to_vec() };
            let l = orig.len();
            let dists: Vec<usize> = if !full { vec![8] } else if thorough { vec![1, 2, 4, 8, 16, l / 2] } else { vec![1, 4, 8, l / 2] };
            for op in fold_ops(l, &dists, full, field == FoldField::Signature) {
                let Some(t) = op.apply(&orig) else { skipped += 1; continue };
                let bytes = match field {
                    FoldField::Signature => wrap_parts(fx, k, &p.content, &attrs, &t, cert),
                    FoldField::Digest => wrap_parts(fx, k, &p.content, &attrs_of(&t, &time), &sig, cert),
                    // round 13: the changed digest under a signature made over it -- the signature verifies, so only the
                    // comparison of the digest with SHA-256(content) can reject (a comparison that folds words would not)
                    FoldField::DigestResigned => { let a = attrs_of(&t, &time); let s2 = fx.s.sign_raw(K_EE, &der::signed_attrs_tbs(&a)); wrap_parts(fx, k, &p.content, &a, &s2, cert) }
                    FoldField::SigningTime => { let mut tt = time.clone(); tt[2..14].copy_from_slice(&t); wrap_parts(fx, k, &p.content, &attrs_of(&digest, &tt), &sig, cert) }
                    FoldField::EeKey => { let mut c = cert.clone(); c[modulus_at..modulus_at + 256].copy_from_slice(&t); wrap_parts(fx, k, &p.content, &attrs, &sig, &c) }
                };
                cases.push(Case { kind: k, field, op, bytes });
            }
        }
    }
    let op_of = |k: Kind, name: String, bytes: Vec<u8>| Op { name, kind: k, bytes, issuer: 0, strict: true, entry: entry_of(k), cb_panics: false, at: T0 };
    let on_new_thread = |f: &(dyn Fn() -> Vec<String> + Sync)| -> Vec<String> { std::thread::scope(|sc| sc.spawn(|| f()).join().unwrap_or_else(|_| vec!["thread died".to_string()])) };
    let t = Tally::new();
    let fams: Mutex<BTreeMap<String, u64>> = Mutex::new(BTreeMap::new());
    let mut chunks: Vec<Vec<&Case>> = Vec::new();
    for k in KINDS { let of_kind: Vec<&Case> = cases.iter().filter(|c| c.kind == k).collect(); for ch in of_kind.chunks(48) { chunks.push(ch.to_vec()) } }
    chunks.par_iter().for_each(|chunk| {
        let ops: Vec<Op> = chunk.iter().map(|c| op_of(c.kind, String::new(), c.bytes.clone())).collect();
        let gen_op = op_of(chunk[0].kind, String::new(), genuine[&chunk[0].kind].clone());
        let after = on_new_thread(&|| {
            let mut out = Vec::new();
            for o in &ops { out.push(observe(&issuers, &gen_op)); out.push(observe(&issuers, o)) }
            out
        });
        if after.len() != 2 * chunk.len() { fail("C02.history.fold.reject", format!("kind={} chunk starting with {}", chunk[0].kind.name(), chunk[0].op.show()), format!("the thread running the sequence died: {:?}", after.last())); return }
        for (i, (c, o)) in chunk.iter().zip(&ops).enumerate() {
            let (g, a) = (&after[2 * i], &after[2 * i + 1]);
            let fresh = on_new_thread(&|| vec![observe(&issuers, o)]).pop().unwrap_or_default();
            sp.evals(3); sp.nontrivial(1);
            let wit = || format!("new thread: {}.valid -> copy with {}: {} ({})", c.kind.name(), c.field.name(), c.op.show(), c.op.family());
            if !g.starts_with("accepted") { fail("C02.baseline.accept", wit(), format!("the genuine object was not accepted: {}", trunc(g, 200))); continue }
            t.add("genuine-accepted");
            let cls = if a.starts_with("accepted") { "copy-accepted" } else if a.starts_with("decode error") { "copy-refused-at-decode" } else { "copy-rejected" };
            t.add(cls);
            *fams.lock().unwrap().entry(format!("{} / {} / {}", c.field.name(), c.op.family(), cls)).or_insert(0) += 1;
            if a.starts_with("accepted") {
                fail("C02.history.fold.reject", wit(), format!("accepted right after the genuine object although its {} does not verify; first thing on a new thread: `{}`", c.field.name(), trunc(&fresh, 160)));
            } else if fresh.starts_with("accepted") {
                fail("C02.history.fold.reject", wit(), format!("accepted first thing on a new thread although its {} does not verify", c.field.name()));
            } else if *a != fresh {
                fail("C02.history.independent", wit(), format!("after the genuine object: `{}`; first thing on a new thread: `{}`", trunc(a, 200), trunc(&fresh, 200)));
            }
        }
    });
    sp.merge_outcomes(&t.oc.lock().unwrap());
    sp.set("copies", serde_json::json!(cases.len()));
    sp.set("no_op_changes_skipped", serde_json::json!(skipped));
    sp.set("by_field_and_family", serde_json::json!(*fams.lock().unwrap()));
    sp.sample_str(|| "new thread: generic.valid -> copy with signature value: octets 3 and 11 both xor 0x01 (xor-fold) -> rejected on both threads".to_string());
    sp.done(true, &format!("{} copies (4 kinds x 4 fields x the changes above), each right after the genuine object on a new OS thread and alone on another", cases.len()));
}

//------------ object.history: what ONE decoded value has seen before must not matter ------------------------------------------
// Every validating entry point consumes the object, so callers who want to judge an object more than once (a second issuer
// certificate after a re-issuance, another evaluation instant, strict after relaxed) validate clones of one decoded value, and
// may have called by-reference operations on the embedded EE certificate before. State kept INSIDE the decoded value (a memo
// shared by its clones, a lazily filled field copied by `clone`) is invisible to every space that decodes anew for each
// evaluation. The dimension that matters is what the memo is NOT keyed by: the issuer's validated resources (the same key under
// a re-issued certificate), the evaluation instant, the strict flag, the callback's verdict, the entry point.

/// Inclusive ranges, ascending, disjoint, not adjacent (IPv4 in 32-bit integers).
type Ranges = Vec<(u128, u128)>;

fn rg_subset(a: &Ranges, b: &Ranges) -> bool { a.iter().all(|&(lo, hi)| b.iter().any(|&(x, y)| x <= lo && hi <= y)) }
fn rg_inter(a: &Ranges, b: &Ranges) -> Ranges {
    let mut v = Vec::new();
    for &(lo, hi) in a { for &(x, y) in b { let (l, h) = (lo.max(x), hi.min(y)); if l <= h { v.push((l, h)) } } }
    v.sort();
    v
}
/// `width` 0: AS numbers; 32 / 128: addresses, written as a prefix where the range is one.
fn rg_show(r: &Ranges, width: u32) -> String {
    if r.is_empty() { return "none".into() }
    let addr = |x: u128| if width == 32 { std::net::Ipv4Addr::from(x as u32).to_string() } else { std::net::Ipv6Addr::from(x).to_string() };
    r.iter().map(|&(a, b)| {
        if width == 0 { return if a == b { format!("AS{a}") } else { format!("AS{a}-{b}") } }
        let span = a ^ b;
        if span & span.wrapping_add(1) == 0 && a & span == 0 { format!("{}/{}", addr(a), width - (128 - span.leading_zeros())) } else { format!("{}-{}", addr(a), addr(b)) }
    }).collect::<Vec<_>>().join(",")
}

#[derive(Clone, Debug, PartialEq, Eq)]
struct ResM { v4: Ranges, v6: Ranges, asn: Ranges }

impl ResM {
    fn show(&self) -> String { format!("v4={} v6={} as={}", rg_show(&self.v4, 32), rg_show(&self.v6, 128), rg_show(&self.asn, 0)) }
    fn of(rc: &ResourceCert) -> ResM {
        ResM {
            v4: rc.v4_resources().iter().map(|b| (b.min().to_bits() >> 96, b.max().to_bits() >> 96)).collect(),
            v6: rc.v6_resources().iter().map(|b| (b.min().to_bits(), b.max().to_bits())).collect(),
            asn: rc.as_resources().iter().map(|b| (b.min().into_u32() as u128, b.max().into_u32() as u128)).collect(),
        }
    }
}

fn claim_of(r: &Ranges) -> Claim { if r.is_empty() { Claim::Missing } else { Claim::Blocks(r.clone()) } }

/// One issuer certificate: DER of its trust anchor and of itself (so that a brand-new `ResourceCert` can be made at any time)
/// and what it has been validated to hold.
struct OhIssuer { name: &'static str, ta_der: Vec<u8>, ca_der: Vec<u8>, holds: ResM, right_key: bool }

impl OhIssuer {
    fn make(&self) -> ResourceCert {
        let ta = rpki::repository::cert::Cert::decode(self.ta_der.as_slice()).expect("TA decodes").validate_ta_at(pki::tal(), true, pki::time(T0)).expect("TA validates");
        rpki::repository::cert::Cert::decode(self.ca_der.as_slice()).expect("CA decodes").validate_ca_at(&ta, true, pki::time(T0)).expect("CA validates")
    }
}

const OH_V4: (u128, u128) = (0x0a00_0000, 0x0aff_ffff);           // 10.0.0.0/8
const OH_V4_HALF: (u128, u128) = (0x0a00_0000, 0x0a7f_ffff);      // 10.0.0.0/9
const OH_V6: (u128, u128) = (0x2001_0db8u128 << 96, (0x2001_0db9u128 << 96) - 1);                  // 2001:db8::/32
const OH_V6_HALF: (u128, u128) = (0x2001_0db8u128 << 96, (0x2001_0db8u128 << 96) + (1u128 << 95) - 1); // 2001:db8::/33
const OH_AS: (u128, u128) = (64496, 64511);
const OH_AS_HALF: (u128, u128) = (64500, 64511);

fn oh_issuers(fx: &Fx) -> Vec<OhIssuer> {
    let all = ResM { v4: vec![(0, u32::MAX as u128)], v6: vec![(0, u128::MAX)], asn: vec![(0, u32::MAX as u128)] };
    let exact = ResM { v4: vec![OH_V4], v6: vec![OH_V6], asn: vec![OH_AS] };
    let half = ResM { v4: vec![OH_V4_HALF], v6: vec![OH_V6_HALF], asn: vec![OH_AS_HALF] };
    let disjoint = ResM { v4: vec![(0xc000_0200, 0xc000_02ff)], v6: vec![(0x2001_0dbau128 << 96, (0x2001_0dbbu128 << 96) - 1)], asn: vec![(1, 1)] };
    let as_only = ResM { v4: vec![], v6: vec![], asn: vec![OH_AS] };
    let ip_only = ResM { v4: vec![OH_V4], v6: vec![OH_V6], asn: vec![] };
    let res_of = |m: &ResM| Res { v4: claim_of(&m.v4), v6: claim_of(&m.v6), asn: claim_of(&m.asn) };
    let ta_der = |m: &ResM| pki::build_cert_der(&fx.s, &Spec::ta(K_TA, res_of(m)));
    let ca_der = |key: usize, res: Res| pki::build_cert_der(&fx.s, &Spec::issued(pki::Kind::Ca, key, K_TA, fx.s.ski(K_TA), res, Overclaim::Refuse));
    let ta_all = ta_der(&all);
    let ta_half = ta_der(&half);
    let inherit = ca_der(K_CA, Res { v4: Claim::Inherit, v6: Claim::Inherit, asn: Claim::Inherit });
    let plain = |name: &'static str, m: &ResM| OhIssuer { name, ta_der: ta_all.clone(), ca_der: ca_der(K_CA, res_of(m)), holds: m.clone(), right_key: true };
    vec![
        plain("CA{all}", &all),
        plain("CA'{10/8,2001:db8::/32,AS64496-64511}", &exact),
        plain("CA'{10/9,2001:db8::/33,AS64500-64511}", &half),
        plain("CA'{192.0.2.0/24,2001:dba::/32,AS1}", &disjoint),
        plain("CA'{AS64496-64511}", &as_only),
        plain("CA'{10/8,2001:db8::/32}", &ip_only),
        OhIssuer { name: "CA'{inherit<TA{all}}", ta_der: ta_all.clone(), ca_der: inherit.clone(), holds: all.clone(), right_key: true },
        OhIssuer { name: "CA'{inherit<TA'{10/9,2001:db8::/33,AS64500-64511}}", ta_der: ta_half, ca_der: inherit, holds: half.clone(), right_key: true },
        OhIssuer { name: "CA2{all}", ta_der: ta_all.clone(), ca_der: ca_der(K_CA2, res_of(&all)), holds: all, right_key: false },
    ]
}

const OH_TIMES: [(i64, &str); 3] = [(T0, "T0"), (T0 - DAY - 1, "notBefore-1s"), (FAR + 1, "notAfter+1s")];

#[derive(Clone, Copy, Debug, PartialEq, Eq, PartialOrd, Ord)]
enum OhEntry {
    /// `validate_at(issuer, strict, t)` of `SignedObject` / `Manifest`
    ValidateAt,
    /// `validate(issuer, strict)` (wall clock)
    Validate,
    /// `process(issuer, strict, callback)` (wall clock) of `SignedObject` / `Roa` / `Aspa`
    Process,
    /// `object.cert().clone().validate_ee_at(issuer, strict, t)`: the embedded EE certificate alone
    EeValidateAt,
    /// by-reference operations on the embedded EE certificate of the decoded value itself
    RefSignature, RefIssuerClaim, RefValidity, RefInspect,
}

impl OhEntry {
    fn by_ref(self) -> bool { matches!(self, OhEntry::RefSignature | OhEntry::RefIssuerClaim | OhEntry::RefValidity | OhEntry::RefInspect) }
}

/// The settings of one step.
#[derive(Clone, Copy, Debug, PartialEq, Eq, PartialOrd, Ord)]
struct OhSet { entry: OhEntry, issuer: usize, t: usize, strict: bool, cb_ok: bool }

#[derive(Clone, Debug, PartialEq, Eq)]
enum OhObs {
    /// accepted: the resources of the returned `ResourceCert`, the returned content, callback invocations
    Acc(ResM, String, u32),
    Rej(String),
    RefOk,
    RefErr(String),
    Panic(String),
}

impl OhObs {
    /// Equality as far as the property goes: verdict and everything returned; not the wording of an error.
    fn same(&self, o: &OhObs) -> bool {
        match (self, o) {
            (OhObs::Acc(a, b, c), OhObs::Acc(x, y, z)) => a == x && b == y && c == z,
            (OhObs::Rej(_), OhObs::Rej(_)) | (OhObs::RefOk, OhObs::RefOk) | (OhObs::RefErr(_), OhObs::RefErr(_)) => true,
            _ => false,
        }
    }
    fn show(&self) -> String {
        match self {
            OhObs::Acc(r, c, n) => format!("accepted [{}] content [{}] callback ran {n}x", r.show(), trunc(c, 60)),
            OhObs::Rej(e) => format!("rejected ({e})"),
            OhObs::RefOk => "Ok".into(),
            OhObs::RefErr(e) => format!("Err ({e})"),
            OhObs::Panic(p) => p.clone(),
        }
    }
    fn class(&self) -> &'static str {
        match self { OhObs::Acc(..) => "accepted", OhObs::Rej(_) => "rejected", OhObs::RefOk => "by-reference check: Ok", OhObs::RefErr(_) => "by-reference check: Err", OhObs::Panic(_) => "panic" }
    }
}

#[derive(Clone)]
enum OhObj { Roa(Roa), Aspa(Aspa), Mft(Manifest), Gen(SignedObject) }

impl OhObj {
    fn decode(kind: Kind, bytes: &[u8], strict: bool) -> Option<OhObj> {
        let b = Bytes::copy_from_slice(bytes);
        match kind {
            Kind::Roa => Roa::decode(b, strict).ok().map(OhObj::Roa),
            Kind::Aspa => Aspa::decode(b, strict).ok().map(OhObj::Aspa),
            Kind::Mft => Manifest::decode(b, strict).ok().map(OhObj::Mft),
            Kind::Gen => SignedObject::decode(b, strict).ok().map(OhObj::Gen),
        }
    }
    fn cert(&self) -> &rpki::repository::cert::Cert {
        match self { OhObj::Roa(o) => o.cert(), OhObj::Aspa(o) => o.cert(), OhObj::Mft(o) => o.cert(), OhObj::Gen(o) => o.cert() }
    }
    /// A by-reference step on this very value.
    fn by_ref(&self, st: OhSet, issuer: &ResourceCert) -> OhObs {
        let r = guard(|| match st.entry {
            OhEntry::RefSignature => self.cert().verify_signature(issuer, st.strict).map_err(|e| e.to_string()),
            OhEntry::RefIssuerClaim => self.cert().verify_issuer_claim(issuer, st.strict).map_err(|e| e.to_string()),
            OhEntry::RefValidity => self.cert().verify_validity(pki::time(OH_TIMES[st.t].0)).map_err(|e| e.to_string()),
            _ => self.cert().inspect_ee(st.strict).map_err(|e| e.to_string()),
        });
        match r { Err(p) => OhObs::Panic(p), Ok(Ok(())) => OhObs::RefOk, Ok(Err(e)) => OhObs::RefErr(e) }
    }
    /// A validating step; consumes the value.
    fn consume(self, st: OhSet, issuer: &ResourceCert) -> OhObs {
        let calls = Cell::new(0u32);
        let t = pki::time(OH_TIMES[st.t].0);
        let r = guard(|| -> Result<(ResourceCert, String), String> {
            let cb = |_: &rpki::repository::cert::Cert| -> Result<(), ValidationError> {
                calls.set(calls.get() + 1);
                if st.cb_ok { Ok(()) } else { Err(VerificationError::new("revoked (callback)").into()) }
            };
            if st.entry == OhEntry::EeValidateAt {
                return self.cert().clone().validate_ee_at(issuer, st.strict, t).map(|rc| (rc, String::new())).map_err(|e| e.to_string())
            }
            match (self, st.entry) {
                (OhObj::Roa(o), _) => o.process(issuer, st.strict, cb).map(|(rc, a)| (rc, format!("asID={} {}", a.as_id(),
                    a.iter().map(|p| format!("{}/{}-{}", p.address(), p.address_length(), p.max_length())).collect::<Vec<_>>().join(" ")))).map_err(|e| e.to_string()),
                (OhObj::Aspa(o), _) => o.process(issuer, st.strict, cb).map(|(rc, a)| (rc, format!("customer={} providers={}", a.customer_as(),
                    a.provider_as_set().iter().map(|p| p.to_string()).collect::<Vec<_>>().join(",")))).map_err(|e| e.to_string()),
                (OhObj::Mft(o), e) => if e == OhEntry::Validate { o.validate(issuer, st.strict) } else { o.validate_at(issuer, st.strict, t) }
                    .map(|(rc, c)| (rc, format!("number={} this={} next={} files={}", c.manifest_number(), c.this_update().timestamp(), c.next_update().timestamp(),
                        c.iter().map(|f| String::from_utf8_lossy(f.file()).into_owned()).collect::<Vec<_>>().join(",")))).map_err(|e| e.to_string()),
                (OhObj::Gen(o), OhEntry::Process) => o.process(issuer, st.strict, cb).map(|(rc, c)| (rc, format!("sha256={}", hex(&sha256(&c)[..8])))).map_err(|e| e.to_string()),
                (OhObj::Gen(o), OhEntry::Validate) => o.validate(issuer, st.strict).map(|rc| (rc, String::new())).map_err(|e| e.to_string()),
                (OhObj::Gen(o), _) => o.validate_at(issuer, st.strict, t).map(|rc| (rc, String::new())).map_err(|e| e.to_string()),
            }
        });
        match r { Err(p) => OhObs::Panic(p), Ok(Ok((rc, c))) => OhObs::Acc(ResM::of(&rc), c, calls.get()), Ok(Err(e)) => OhObs::Rej(e) }
    }
}

/// How the EE certificate claims its resources.
#[derive(Clone, Copy, Debug, PartialEq, Eq)]
enum OhClaim { Refuse, Trim, Inherit }

/// One object of the space and everything the model needs to know about it.
struct OhSubject {
    kind: Kind,
    label: String,
    bytes: Vec<u8>,
    decode_strict: bool,
    /// the EE certificate's claims: None = extension absent; Some(empty) = inherit (only with `claim == Inherit`)
    claim: OhClaim,
    claimed: ResM,
    /// which families the EE certificate mentions at all (blocks or inherit)
    present: [bool; 3],
    /// the subject name of the EE certificate is a UTF8String: the strict flag decides (C01's business)
    utf8_name: bool,
    /// ROA: address ranges of the prefixes (v4, v6); ASPA: the customer AS
    roa_v4: Ranges, roa_v6: Ranges, customer: Option<u128>,
}

impl OhSubject {
    /// What the property says about one setting on a fresh value: Some(Ok(resources)) accepted with these validated resources,
    /// Some(Err(())) rejected, None = decided by the strict flag's rules for names (C01), compared differentially only.
    fn model(&self, iss: &OhIssuer, st: OhSet) -> Option<Result<ResM, ()>> {
        if st.strict && self.utf8_name && !matches!(st.entry, OhEntry::RefSignature | OhEntry::RefIssuerClaim | OhEntry::RefValidity) { return None }
        let timed_ok = st.t == 0;
        match st.entry {
            OhEntry::RefSignature | OhEntry::RefIssuerClaim => return Some(if iss.right_key { Ok(ResM { v4: vec![], v6: vec![], asn: vec![] }) } else { Err(()) }),
            OhEntry::RefValidity => return Some(if timed_ok { Ok(ResM { v4: vec![], v6: vec![], asn: vec![] }) } else { Err(()) }),
            OhEntry::RefInspect => return Some(Ok(ResM { v4: vec![], v6: vec![], asn: vec![] })),
            _ => {}
        }
        if !iss.right_key { return Some(Err(())) }
        if matches!(st.entry, OhEntry::ValidateAt | OhEntry::EeValidateAt) && !timed_ok { return Some(Err(())) }
        let fam = |i: usize, claimed: &Ranges, held: &Ranges| -> Result<Ranges, ()> {
            if !self.present[i] { return Ok(vec![]) }
            match self.claim {
                OhClaim::Inherit => Ok(held.clone()),
                OhClaim::Refuse => if rg_subset(claimed, held) { Ok(claimed.clone()) } else { Err(()) },
                OhClaim::Trim => Ok(rg_inter(claimed, held)),
            }
        };
        let res = (|| Ok(ResM { v4: fam(0, &self.claimed.v4, &iss.holds.v4)?, v6: fam(1, &self.claimed.v6, &iss.holds.v6)?, asn: fam(2, &self.claimed.asn, &iss.holds.asn)? }))();
        let Ok(res): Result<ResM, ()> = res else { return Some(Err(())) };
        if st.entry != OhEntry::EeValidateAt {
            if st.entry == OhEntry::Process && !st.cb_ok { return Some(Err(())) }
            match self.kind {
                Kind::Roa => if !rg_subset(&self.roa_v4, &res.v4) || !rg_subset(&self.roa_v6, &res.v6) { return Some(Err(())) },
                Kind::Aspa => {
                    let c = self.customer.unwrap_or(0);
                    if !rg_subset(&vec![(c, c)], &res.asn) || self.claim == OhClaim::Inherit || self.present[0] || self.present[1] { return Some(Err(())) }
                }
                _ => {}
            }
        }
        Some(Ok(res))
    }
}

fn oh_subjects(fx: &Fx) -> Vec<OhSubject> {
    let none = || ResM { v4: vec![], v6: vec![], asn: vec![] };
    let pfx = |bits: u128, len: u8, width: u8| -> (u128, u128) { let span = if len == width { 0 } else { (1u128 << (width - len)) - 1 }; (bits, bits | span) };
    // contents: (label, eContent, v4 ranges, v6 ranges, customer)
    let roa_a = ("10.0.0.0/8-24,10.1.2.0/24,2001:db8::/32-48", default_content(Kind::Roa), vec![pfx(0x0a00_0000, 8, 32)], vec![pfx(0x2001_0db8u128 << 96, 32, 128)], None);
    let roa_b = ("10.1.2.0/24,2001:db8:1::/48", der::roa_content(None, 64496, Some(&[der::roa_addr_from(0x0a01_0200, 24, 32, None)]), Some(&[der::roa_addr_from((0x2001_0db8u128 << 96) | (1u128 << 80), 48, 128, None)])),
        vec![pfx(0x0a01_0200, 24, 32)], vec![pfx((0x2001_0db8u128 << 96) | (1u128 << 80), 48, 128)], None);
    let aspa_a = ("customer AS64496", der::aspa_content(Some(1), 64496, &[64497, 64498]), vec![], vec![], Some(64496u128));
    let aspa_b = ("customer AS64501", der::aspa_content(Some(1), 64501, &[64497, 64498]), vec![], vec![], Some(64501u128));
    let mft = ("2 files", default_content(Kind::Mft), vec![], vec![], None);
    let gen_c = ("27 octets", default_content(Kind::Gen), vec![], vec![], None);
    let ip = ResM { v4: vec![OH_V4], v6: vec![OH_V6], asn: vec![] };
    let asn = ResM { v4: vec![], v6: vec![], asn: vec![(64496, 64496), (64500, 64503)] };
    let both = ResM { v4: vec![OH_V4], v6: vec![OH_V6], asn: vec![OH_AS] };
    // EE certificates: (label, claim mode, claimed, present, UTF8String subject)
    type EeVar = (&'static str, OhClaim, ResM, [bool; 3], bool);
    let ee_menu = |kind: Kind| -> Vec<EeVar> {
        match kind {
            Kind::Roa => vec![("EE refuse{10/8,2001:db8::/32}", OhClaim::Refuse, ip.clone(), [true, true, false], false),
                              ("EE trim{10/8,2001:db8::/32}", OhClaim::Trim, ip.clone(), [true, true, false], false),
                              ("EE inherit{v4,v6}", OhClaim::Inherit, none(), [true, true, false], false),
                              ("EE refuse{10/8,2001:db8::/32} UTF8String subject", OhClaim::Refuse, ip.clone(), [true, true, false], true)],
            Kind::Aspa => vec![("EE refuse{AS64496,AS64500-64503}", OhClaim::Refuse, asn.clone(), [false, false, true], false),
                               ("EE trim{AS64496,AS64500-64503}", OhClaim::Trim, asn.clone(), [false, false, true], false),
                               ("EE trim{AS64496,AS64500-64503} UTF8String subject", OhClaim::Trim, asn.clone(), [false, false, true], true)],
            _ => vec![("EE inherit{v4,v6,as}", OhClaim::Inherit, none(), [true, true, true], false),
                      ("EE refuse{10/8,2001:db8::/32,AS64496-64511}", OhClaim::Refuse, both.clone(), [true, true, true], false),
                      ("EE trim{10/8,2001:db8::/32,AS64496-64511}", OhClaim::Trim, both.clone(), [true, true, true], false),
                      ("EE inherit{v4,v6,as} UTF8String subject", OhClaim::Inherit, none(), [true, true, true], true)],
        }
    };
    let mut out = Vec::new();
    for kind in KINDS {
        let contents = match kind { Kind::Roa => vec![roa_a.clone(), roa_b.clone()], Kind::Aspa => vec![aspa_a.clone(), aspa_b.clone()], Kind::Mft => vec![mft.clone()], Kind::Gen => vec![gen_c.clone()] };
        let signed: Vec<Signed> = contents.iter().map(|c| presign(fx, kind, c.1.clone())).collect();
        for (ei, (elabel, claim, claimed, present, utf8_name)) in ee_menu(kind).into_iter().enumerate() {
            let mut ee = EeOpt::base(kind);
            ee.serial = vec![0x0b, kind as u8, ei as u8];
            ee.overclaim = if claim == OhClaim::Trim { Overclaim::Trim } else { Overclaim::Refuse };
            let c = |i: usize, r: &Ranges| if !present[i] { Claim::Missing } else if claim == OhClaim::Inherit { Claim::Inherit } else { Claim::Blocks(r.clone()) };
            ee.res = Res { v4: c(0, &claimed.v4), v6: c(1, &claimed.v6), asn: c(2, &claimed.asn) };
            if utf8_name { ee.subject = Some(der::seq(&[der::set_unsorted(&[der::seq(&[der::oid(&[2, 5, 4, 3]), der::utf8("object-history")])])])) }
            let cert = ee_custom(fx, &ee);
            for (ci, (clabel, _, v4, v6, customer)) in contents.iter().enumerate() {
                let bytes = wrap(fx, kind, &signed[ci], &cert);
                for decode_strict in [true, false] {
                    out.push(OhSubject { kind, label: format!("{} [{clabel}] {elabel}, decoded {}", kind.name(), if decode_strict { "strict" } else { "relaxed" }),
                        bytes: bytes.clone(), decode_strict, claim, claimed: claimed.clone(), present, utf8_name, roa_v4: v4.clone(), roa_v6: v6.clone(), customer: *customer });
                }
            }
        }
    }
    out
}

/// (validating settings, by-reference settings) of a kind; `strict` = the mode the value was decoded in.
fn oh_settings(kind: Kind, strict: bool, n_issuers: usize) -> (Vec<OhSet>, Vec<OhSet>) {
    let core = [0usize, 2, n_issuers - 1];
    let set = |entry, issuer, t, flip: bool, cb_ok| OhSet { entry, issuer, t, strict: strict ^ flip, cb_ok };
    let mut s = Vec::new();
    if matches!(kind, Kind::Mft | Kind::Gen) {
        for i in 0..n_issuers { s.push(set(OhEntry::ValidateAt, i, 0, false, true)) }
        for i in core { for t in [1, 2] { s.push(set(OhEntry::ValidateAt, i, t, false, true)) } }
        for i in [0, 2] { s.push(set(OhEntry::ValidateAt, i, 0, true, true)) }
        for i in core { s.push(set(OhEntry::Validate, i, 0, false, true)) }
    }
    if kind != Kind::Mft {
        for i in 0..n_issuers { s.push(set(OhEntry::Process, i, 0, false, true)) }
        for i in core { s.push(set(OhEntry::Process, i, 0, false, false)) }
        for i in [0, 2] { s.push(set(OhEntry::Process, i, 0, true, true)) }
    }
    for i in [0, 2, n_issuers - 2] { s.push(set(OhEntry::EeValidateAt, i, 0, false, true)) }
    s.push(set(OhEntry::EeValidateAt, 0, 2, false, true));
    let mut r = Vec::new();
    for i in core { r.push(set(OhEntry::RefSignature, i, 0, false, true)) }
    for i in [0, n_issuers - 1] { r.push(set(OhEntry::RefIssuerClaim, i, 0, false, true)) }
    for t in 0..3 { r.push(set(OhEntry::RefValidity, 0, t, false, true)) }
    for flip in [false, true] { r.push(set(OhEntry::RefInspect, 0, 0, flip, true)) }
    (s, r)
}

fn oh_show(issuers: &[OhIssuer], st: OhSet) -> String {
    let (i, m) = (issuers[st.issuer].name, if st.strict { "strict" } else { "relaxed" });
    match st.entry {
        OhEntry::ValidateAt => format!("validate_at({i},{m},{})", OH_TIMES[st.t].1),
        OhEntry::Validate => format!("validate({i},{m})"),
        OhEntry::Process => format!("process({i},{m},cb {})", if st.cb_ok { "Ok" } else { "Err" }),
        OhEntry::EeValidateAt => format!("cert().clone().validate_ee_at({i},{m},{})", OH_TIMES[st.t].1),
        OhEntry::RefSignature => format!("cert().verify_signature({i})"),
        OhEntry::RefIssuerClaim => format!("cert().verify_issuer_claim({i})"),
        OhEntry::RefValidity => format!("cert().verify_validity({})", OH_TIMES[st.t].1),
        OhEntry::RefInspect => format!("cert().inspect_ee({m})"),
    }
}

/// Where the steps run. By-reference steps always run on the decoded value itself.
const OH_HANDLES: [&str; 3] = [
    "each validating step on a clone taken right before it",
    "each validating step on a clone taken before the first step",
    "validating steps on a clone taken right before, the last one on the value itself",
];

fn object_history(ctx: &Ctx, fx: &Fx, thorough: bool) {
    let sp = ctx.space("object.history",
        "ONE decoded value (Roa, Aspa, Manifest, SignedObject; decoded strict and relaxed) judged two (thorough: three) times in a row, every ordered pair (triple) of per-step settings: entry point {validate_at, validate, process, cert().clone().validate_ee_at; and, not as the last step, the by-reference checks cert().verify_signature / verify_issuer_claim / verify_validity / inspect_ee on the decoded value itself} x issuer certificate {CA{all}: the CA holding everything; CA'{..}: the SAME key in a re-issued certificate holding exactly the object's resources / half of them / none of them / AS only / IP only / inheriting everything under a trust anchor TA{all} resp. under TA'{half} (same trust-anchor key); CA2{all}: another CA with another key} x evaluation instant {T0, before notBefore, after notAfter} x strict flag {as decoded, the other} x callback verdict {Ok, Err} (instants and callback Err with 3 issuers, the other strict flag with 2; not the full product) x where the steps run {clone taken right before each step; all clones taken before the first step; the last step on the decoded value itself}; objects: 2 ROA contents (prefixes inside / not inside the half) x EE certificate claiming its resources under refuse / under trim / inheriting / with a UTF8String subject (strict and relaxed differ), 2 ASPA customers x EE refuse / trim / UTF8String subject, manifest and generic object x EE inherit / refuse / trim / UTF8String subject; every sequence starts from a newly decoded value and newly validated issuer certificates. Oracles: every step's verdict, the validated resources of the returned certificate, the returned content and the number of callback invocations equal those of a newly decoded value under that setting alone (differential), and that one equals the model (right key, instant inside the window, per family: absent -> nothing, inherit -> the issuer's, refuse -> the claim if inside the issuer's else rejected, trim -> claim AND issuer's; ROA: every prefix inside; ASPA: customer inside, AS not inherited, no IP extension; callback Ok; the UTF8String subject under strict is C01's and compared differentially only); non-trivial = steps whose expected observation differs from that of the step before");
    let issuers = oh_issuers(fx);
    let subjects = oh_subjects(fx);
    let ni = issuers.len();
    let t = Tally::new();
    let (evals, nontrivial, seqs_run) = (Mutex::new(0u64), Mutex::new(0u64), Mutex::new(0u64));
    let undecided: Mutex<BTreeMap<&'static str, u64>> = Mutex::new(BTreeMap::new());
    // fresh observations and the model
    let fresh: Vec<(Vec<OhSet>, usize, Vec<OhObs>)> = subjects.par_iter().map(|sj| {
        let (mut all, refs) = oh_settings(sj.kind, sj.decode_strict, ni);
        let n_val = all.len();
        all.extend(refs);
        let obs: Vec<OhObs> = all.iter().map(|&st| {
            let issuer = issuers[st.issuer].make();
            let Some(o) = OhObj::decode(sj.kind, &sj.bytes, sj.decode_strict) else { return OhObs::Panic("does not decode".into()) };
            if st.entry.by_ref() { o.by_ref(st, &issuer) } else { o.consume(st, &issuer) }
        }).collect();
        for (&st, ob) in all.iter().zip(&obs) {
            t.add(ob.class());
            let w = || format!("{}; newly decoded: {}", sj.label, oh_show(&issuers, st));
            match (ob, sj.model(&issuers[st.issuer], st)) {
                (OhObs::Panic(p), _) => fail("C02.no_panic", w(), p.clone()),
                (o, None) => *undecided.lock().unwrap().entry(o.class()).or_insert(0) += 1,
                (OhObs::RefOk, Some(Ok(_))) | (OhObs::RefErr(_), Some(Err(()))) | (OhObs::Rej(_), Some(Err(()))) => {}
                (OhObs::Acc(r, _, calls), Some(Ok(m))) => {
                    if *r != m { fail("C02.objhist.fresh.resources", w(), format!("accepted with validated resources [{}], the model says [{}]", r.show(), m.show())) }
                    if *calls != if st.entry == OhEntry::Process { 1 } else { 0 } { fail("C02.crl.callback_called", w(), format!("accepted with {calls} callback invocations")) }
                }
                (o, Some(m)) => fail(if m.is_ok() { "C02.objhist.fresh.accept" } else { "C02.objhist.fresh.reject" }, w(),
                    format!("{}; the model says {}", trunc(&o.show(), 200), match m { Ok(r) => format!("accepted with [{}]", r.show()), Err(()) => "rejected".into() })),
            }
        }
        *evals.lock().unwrap() += all.len() as u64;
        (all, n_val, obs)
    }).collect();
    // sequences: one job per (subject, first setting)
    let jobs: Vec<(usize, usize)> = (0..subjects.len()).flat_map(|s| (0..fresh[s].0.len()).map(move |a| (s, a))).collect();
    jobs.par_iter().for_each(|&(si, a)| {
        let sj = &subjects[si];
        let (all, n_val, fr) = (&fresh[si].0, fresh[si].1, &fresh[si].2);
        let live: Vec<ResourceCert> = issuers.iter().map(|i| i.make()).collect();
        let mut seqs: Vec<Vec<usize>> = Vec::new();
        for b in 0..all.len() {
            if b < n_val { seqs.push(vec![a, b]) }
            if thorough { for c in 0..n_val { seqs.push(vec![a, b, c]) } }
        }
        let (mut ev, mut nt, mut ns) = (0u64, 0u64, 0u64);
        let mut oc: BTreeMap<&'static str, u64> = BTreeMap::new();
        // at most 6 reports per (object, first setting): what follows is the same fault under further second settings
        let mut reported = 0;
        for sq in &seqs { for (hi, handles) in OH_HANDLES.iter().enumerate() {
            let Some(value) = OhObj::decode(sj.kind, &sj.bytes, sj.decode_strict) else { continue };
            ns += 1;
            let mut value = Some(value);
            let mut early: Vec<OhObj> = if hi == 1 { sq.iter().filter(|&&x| x < n_val).map(|_| value.as_ref().unwrap().clone()).collect() } else { Vec::new() };
            early.reverse();
            for (pos, &x) in sq.iter().enumerate() {
                let st = all[x];
                let last = pos + 1 == sq.len();
                let ob = if st.entry.by_ref() { value.as_ref().unwrap().by_ref(st, &live[st.issuer]) }
                    else if hi == 1 { early.pop().unwrap().consume(st, &live[st.issuer]) }
                    else if hi == 2 && last { value.take().unwrap().consume(st, &live[st.issuer]) }
                    else { value.as_ref().unwrap().clone().consume(st, &live[st.issuer]) };
                ev += 1;
                *oc.entry(ob.class()).or_insert(0) += 1;
                if pos > 0 && !fr[x].same(&fr[sq[pos - 1]]) { nt += 1 }
                if !ob.same(&fr[x]) {
                    reported += 1;
                    if reported > 6 { break }
                    let w = format!("{} | {handles} | {} (step {})", sj.label, sq.iter().map(|&y| oh_show(&issuers, all[y])).collect::<Vec<_>>().join(" -> "), pos + 1);
                    if let OhObs::Panic(p) = &ob { fail("C02.no_panic", w, p.clone()) }
                    else { fail("C02.objhist.independent", w, format!("step {}: {}; a newly decoded value under that setting alone: {}", pos + 1, trunc(&ob.show(), 200), trunc(&fr[x].show(), 200))) }
                    break;
                }
            }
        }}
        *evals.lock().unwrap() += ev; *nontrivial.lock().unwrap() += nt; *seqs_run.lock().unwrap() += ns;
        let mut g = t.oc.lock().unwrap();
        for (k, n) in oc { *g.entry(k).or_insert(0) += n }
    });
    sp.evals(*evals.lock().unwrap());
    sp.nontrivial(*nontrivial.lock().unwrap());
    sp.merge_outcomes(&t.oc.lock().unwrap());
    sp.set("objects", serde_json::json!(subjects.len()));
    sp.set("issuer_certificates", serde_json::json!(issuers.iter().map(|i| i.name).collect::<Vec<_>>()));
    sp.set("sequences", serde_json::json!(*seqs_run.lock().unwrap()));
    sp.set("settings_per_kind", serde_json::json!(KINDS.iter().map(|&k| { let (s, r) = oh_settings(k, true, ni); format!("{}: {} validating + {} by-reference", k.name(), s.len(), r.len()) }).collect::<Vec<_>>()));
    sp.set("fresh_observations_under_strict_with_a_UTF8String_subject_left_to_C01", serde_json::json!(*undecided.lock().unwrap()));
    sp.set("where_the_steps_run", serde_json::json!(OH_HANDLES));
    if let Some(si) = subjects.iter().position(|s| s.kind == Kind::Roa && s.claim == OhClaim::Trim) {
        let (all, _, fr) = &fresh[si];
        if let (Some(a), Some(b)) = (all.iter().position(|s| s.entry == OhEntry::Process && s.issuer == 0), all.iter().position(|s| s.entry == OhEntry::Process && s.issuer == 2)) {
            sp.sample_str(|| format!("{} | {} -> {}: {} ; {}", subjects[si].label, oh_show(&issuers, all[a]), oh_show(&issuers, all[b]), trunc(&fr[a].show(), 160), trunc(&fr[b].show(), 160)));
        }
    }
    sp.done(true, &format!("{} objects x all ordered {} of their 28-48 settings (the last one validating) x 3 ways of taking the clones; {} sequences", subjects.len(),
        if thorough { "pairs and triples" } else { "pairs" }, *seqs_run.lock().unwrap()));
}
