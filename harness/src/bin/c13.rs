//! C13 — prefixes, max-length prefixes and AS-number sets obey their value laws.
//!
//! Spaces (all exhaustive over explicit finite domains):
//!  1. prefix.construct : boundary addresses x EVERY length 0..=255 x
//!     {strict, relaxed} x {typed, IpAddr} constructors; Display/FromStr of
//!     every value built.
//!  2. maxlen.construct : every prefix length x 2 addresses per family x
//!     {None, every max-len 0..=255} x {new, saturating_new}; Display/FromStr.
//!  3. text.deviations  : every single-character deviation (bound 2 in the
//!     thorough tier) of rendered values and every numeric spelling of the
//!     length fields, offered to the four FromStr entry points.
//!  4. prefix.relations : all pairs / triples of a boundary-dense prefix domain.
//!  5. maxlen.relations, origin.relations : all pairs / triples.
//!  6. asn.text, asnset.build, asnset.ops (all pairs of short sequences).
//!  7. asnset.sizes : SIZE dimension - structured large sets (15..100 items)
//!     against boundary-sharing small sets (0..3 items), all size pairs
//!     0..=130 x 0..=8, both argument orders (size- or ratio-dependent paths),
//!     and sets of 2^k-1, 2^k, 2^k+1 items up to 2^16 (thorough 2^20).
//!  8. arbitrary.values (only with the harness feature `with-arbitrary`): values
//!     drawn through Arbitrary against their constructed twins.
//!  9. history.independent (sequences on dedicated OS threads; panicking item sources,
//!     failing sinks, abandoned iterators, re-entrant constructions), handed_out.iterators
//!     (call sequences on the set iterators), display.parameters (format specs).
//! 10. routes.* : EVERY PUBLIC ROUTE that yields a value of the property's types outside
//!     src/resources: AspaBuilder (all operation sequences) -> finalize -> ProviderAsSet::to_set /
//!     iter, Aspa::decode of built and of independently encoded DER, Aspa serde;
//!     RoaBuilder::to_attestation / Roa::decode -> iter_origins, FriendlyRoaIpAddress -> Prefix;
//!     rtr::pdu::Payload (constructed and read from the wire) -> to_payload; SLURM JSON;
//!     From conversions; Arbitrary for SmallAsnSet / Payload. Whatever comes out obeys the value laws.
//!  Every ordering is also checked through partial_cmp and < <= > >=; every
//!  "equal => same hash" under three hashers (std, FxHash-style, write-call digest).
//!
//! Reference model: integers only. A prefix is (family, address as u128 in the
//! family's width, length); its range is [addr, addr | hostmask]. Sets are
//! `BTreeSet<u32>`.

#![allow(unexpected_cfgs)]

use std::cmp::Ordering;
use std::collections::hash_map::DefaultHasher;
use std::collections::{BTreeMap, BTreeSet};
use std::hash::{Hash, Hasher};
use std::sync::atomic::{AtomicU64, Ordering as AtomicOrdering};
use std::net::{IpAddr, Ipv4Addr, Ipv6Addr};
use std::str::FromStr;
use rayon::prelude::*;
use rpki::resources::addr::{MaxLenPrefix, Prefix};
use rpki::resources::asn::{Asn, SmallAsnSet};
use rpki::rtr::payload::{Payload, PayloadRef, PayloadType, RouteOrigin};
use rpki::rtr::pdu;
use rpki::repository::aspa::{Aspa, AspaBuilder};
use rpki::repository::roa::{Roa, RoaBuilder, RoaIpAddress};
use rpki::repository::resources::{IpBlock, Prefix as ResPrefix};
use rpki::repository::sigobj::SignedObjectBuilder;
use rpki::repository::x509::{Time, Validity};
use rpki::crypto::{PublicKey, PublicKeyFormat, Signature, SignatureAlgorithm, Signer, SigningError};
use rpki::crypto::signer::KeyError;
use rpki_verif::engine::der;
use rpki_verif::engine::signer::{sha256, Kid, PoolSigner};
use bcder::encode::Values as _;
use rpki_verif::engine::enumerate::{seq_at, seq_count};
use rpki_verif::{guard, Ctx};
use serde_json::json;

type Oc = BTreeMap<&'static str, u64>;
fn bump(m: &mut Oc, k: &'static str) { *m.entry(k).or_insert(0) += 1 }
/// An FxHash-style hasher: every write call is consumed in words of its own chunking.
struct FxLike(u64);
impl FxLike { fn add(&mut self, w: u64) { self.0 = (self.0.rotate_left(5) ^ w).wrapping_mul(0x51_7c_c1_b7_27_22_0a_95) } }
impl Hasher for FxLike {
    fn write(&mut self, mut b: &[u8]) {
        while b.len() >= 8 { self.add(u64::from_le_bytes(b[..8].try_into().unwrap())); b = &b[8..] }
        if b.len() >= 4 { self.add(u32::from_le_bytes(b[..4].try_into().unwrap()) as u64); b = &b[4..] }
        for &x in b { self.add(x as u64) }
    }
    fn finish(&self) -> u64 { self.0 }
}
/// Digest of the exact sequence of write calls (length of every call, then its octets).
struct Calls(u64);
impl Calls { fn byte(&mut self, x: u8) { self.0 = (self.0 ^ x as u64).wrapping_mul(0x100_0000_01b3) } }
impl Hasher for Calls {
    fn write(&mut self, b: &[u8]) { for x in (b.len() as u64).to_le_bytes() { self.byte(x) } for &x in b { self.byte(x) } }
    fn finish(&self) -> u64 { self.0 }
}
/// (std DefaultHasher, FxHash-style, digest of the write-call sequence): equal values must agree in all three.
type H3 = (u64, u64, u64);
fn h<T: Hash>(t: &T) -> H3 {
    let mut x = DefaultHasher::new(); t.hash(&mut x);
    let mut y = FxLike(0); t.hash(&mut y);
    let mut z = Calls(0xcbf2_9ce4_8422_2325); t.hash(&mut z);
    (x.finish(), y.finish(), z.finish())
}
fn hash_diff(a: H3, b: H3) -> String {
    (if a.0 != b.0 { "differ under std DefaultHasher" } else if a.2 != b.2 { "feed a Hasher different sequences of write calls" } else if a.1 != b.1 { "differ under an FxHash-style hasher" } else { "hash equally" }).to_string()
}
/// partial_cmp and the four comparison operators must say exactly what cmp says (c = cmp as -1/0/1).
fn ops_vs_cmp<T: Ord>(a: &T, b: &T, c: i8) -> Result<(), String> {
    let pc = a.partial_cmp(b).map(|x| x as i8);
    let got = (a < b, a <= b, a > b, a >= b);
    if pc != Some(c) || got != (c < 0, c <= 0, c > 0, c >= 0) { return Err(format!("cmp = {c}, but partial_cmp = {pc:?} and (<, <=, >, >=) = {got:?}")) }
    Ok(())
}

/// Failures of one work item, handed to the Ctx in enumeration order so that
/// the printed witnesses do not depend on thread scheduling. At most ROW_CAP
/// failures per oracle and work item are rendered; the rest are only counted
/// (a broken relation would otherwise produce billions of strings).
static SUPPRESSED: AtomicU64 = AtomicU64::new(0);
const ROW_CAP: u32 = 16;
struct Fails { v: Vec<(&'static str, String, String)>, per: BTreeMap<&'static str, u32> }
impl Fails {
    fn new() -> Self { Fails { v: Vec::new(), per: BTreeMap::new() } }
    fn fail(&mut self, o: &'static str, w: &dyn Fn() -> String, d: impl FnOnce() -> String) {
        let c = self.per.entry(o).or_insert(0); *c += 1;
        if *c <= ROW_CAP { self.v.push((o, w(), d())) } else { SUPPRESSED.fetch_add(1, AtomicOrdering::Relaxed); }
    }
    fn check(&mut self, o: &'static str, w: &dyn Fn() -> String, f: impl FnOnce() -> Result<(), String>) -> bool {
        match guard(f) {
            Ok(Ok(())) => true,
            Ok(Err(d)) => { self.fail(o, w, || d); false }
            Err(p) => { self.fail(o, w, || p); false }
        }
    }
    fn flush(self, ctx: &Ctx) { for (o, w, d) in self.v { ctx.fail(o, w, d) } }
}
/// Runs f(i) for i in 0..n on all cores, in batches; failures are handed to
/// the Ctx sequentially in index order after each batch.
fn batched(ctx: &Ctx, n: usize, batch: usize, f: impl Fn(usize, &mut Fails) + Sync) {
    let mut lo = 0;
    while lo < n {
        let hi = (lo + batch).min(n);
        let out: Vec<Fails> = (lo..hi).into_par_iter().map(|i| { let mut fl = Fails::new(); f(i, &mut fl); fl }).collect();
        for v in out { v.flush(ctx) }
        lo = hi;
    }
}

/// Opt-in progress line on stderr (VERIF_TIMING=1); never part of the evidence.
fn lap(t0: &std::time::Instant, what: &str) {
    if std::env::var_os("VERIF_TIMING").is_some() { eprintln!("[timing] {:>8.2}s  {what}", t0.elapsed().as_secs_f64()) }
}

// ------------------------------------------------------------------ model

fn low_ones(k: u32) -> u128 { if k == 0 { 0 } else if k >= 128 { u128::MAX } else { (1u128 << k) - 1 } }

/// A prefix as integers: address in the family's own width (32 or 128 bits).
#[derive(Clone, Copy, Debug, PartialEq, Eq, PartialOrd, Ord)]
struct MP { v4: bool, addr: u128, len: u8 }
impl MP {
    fn w(self) -> u32 { if self.v4 { 32 } else { 128 } }
    fn hostmask(self) -> u128 { low_ones(self.w() - self.len as u32) }
    fn lo(self) -> u128 { self.addr }
    fn hi(self) -> u128 { self.addr | self.hostmask() }
    fn ip(self) -> IpAddr { ip(self.v4, self.addr) }
    fn text(self) -> String { format!("{}/{}", self.ip(), self.len) }
    /// range inclusion within one family
    fn covers(self, o: MP) -> bool { self.v4 == o.v4 && self.lo() <= o.lo() && o.hi() <= self.hi() }
}
fn ip(v4: bool, a: u128) -> IpAddr { if v4 { IpAddr::V4(Ipv4Addr::from(a as u32)) } else { IpAddr::V6(Ipv6Addr::from(a)) } }
fn ip_bits(a: IpAddr) -> (bool, u128) { match a { IpAddr::V4(x) => (true, u32::from(x) as u128), IpAddr::V6(x) => (false, u128::from(x)) } }
fn fam_max(v4: bool) -> u8 { if v4 { 32 } else { 128 } }
fn fam_w(v4: bool) -> u32 { if v4 { 32 } else { 128 } }

/// What the library value says about itself, as integers.
fn observe(p: Prefix) -> MP { let (v4, a) = ip_bits(p.addr()); MP { v4, addr: a, len: p.len() } }

/// The invariant of every prefix value: length within the family, host bits zero,
/// accessors mutually consistent.
fn prefix_invariant(p: Prefix) -> Result<MP, String> {
    let o = observe(p);
    if p.is_v4() != o.v4 || p.is_v6() == o.v4 { return Err(format!("is_v4/is_v6 disagree with addr() {}", p.addr())) }
    if o.len > fam_max(o.v4) { return Err(format!("length {} exceeds the family maximum", o.len)) }
    if o.addr & o.hostmask() != 0 { return Err(format!("host bits set: {}/{}", p.addr(), o.len)) }
    Ok(o)
}

/// Boundary-dense addresses of one family (width w).
fn addr_domain(w: u32, two_bits: bool) -> Vec<u128> {
    let full = low_ones(w);
    let mut v = vec![0u128, full];
    for k in 0..w { v.push(1u128 << k) }                           // every single bit
    for k in 1..w { v.push(full & !low_ones(w - k)) }              // top k ones
    for k in 1..w { v.push(low_ones(k)) }                          // low k ones
    v.push(full / 3); v.push(full / 3 * 2);                        // 0101…, 1010…
    if w == 32 { v.extend([0xC0A8_0A14u128, 0x0A00_0000, 0x7F00_0001, 0xC000_0200]) }
    else { v.extend([0x2001_0db8_0010_0020_0000_0000_0000_1234u128, 0x2001_0db8u128 << 96, 0xffffu128 << 32, 1u128 << 64 | 1]) }
    if two_bits { for i in 0..w { for j in 0..i { v.push(1u128 << i | 1u128 << j) } } }
    v.sort(); v.dedup(); v
}

/// Rust's integer syntax for unsigned types: optional '+', one or more ASCII digits.
fn lenient_uint(s: &str, max: u64) -> Option<u64> {
    let d = s.strip_prefix('+').unwrap_or(s);
    if d.is_empty() || !d.bytes().all(|b| b.is_ascii_digit()) { return None }
    let mut v: u64 = 0;
    for b in d.bytes() { v = v.checked_mul(10)?.checked_add((b - b'0') as u64)?; if v > max { return None } }
    Some(v)
}
/// Most liberal reading of "address/length": (value with host bits as written, length).
fn model_prefix_text(t: &str) -> Option<(bool, u128, u8)> {
    let (a, l) = t.split_once('/')?;
    let (v4, bits) = ip_bits(IpAddr::from_str(a).ok()?);
    Some((v4, bits, lenient_uint(l, 255)? as u8))
}



// ------------------------------------------------------ Arbitrary-produced values

/// Values drawn through `arbitrary::Arbitrary` (crate feature `arbitrary` of rpki) are a further
/// public construction route. Compiled only when the harness is built with its feature
/// `with-arbitrary` (harness/Cargo.toml: dependency `arbitrary = "1"`, rpki feature `arbitrary`,
/// `[features] with-arbitrary = []`).
#[cfg(not(feature = "with-arbitrary"))]
fn arbitrary_space(ctx: &Ctx, _t0: &std::time::Instant) {
    ctx.assume("values produced by the Arbitrary impls (rpki feature `arbitrary`) are NOT covered: the harness is built without its feature `with-arbitrary`");
}

#[cfg(feature = "with-arbitrary")]
fn arbitrary_space(ctx: &Ctx, t0: &std::time::Instant) {
    use arbitrary::{Arbitrary, Unstructured};
    let sp = ctx.space("arbitrary.values",
        "Prefix, MaxLenPrefix, RouteOrigin and Asn drawn with Arbitrary from EVERY octet string of length <= 2 (thorough: <= 3) and from structured 24-octet inputs (family bit x every length octet 0..=255 x 6 address patterns x 7 max-len encodings x 2 ASNs): each value must satisfy the construction invariants, be ==, cmp-Equal, equally hashed (three hashers) and equally rendered to the value built from its own accessors through the public constructors, and its text must parse back to it; all pairs of the distinct prefixes / max-len prefixes / origins so produced: == <=> cmp Equal <=> same integers, == implies equal hashes, operators agree with cmp; non-trivial = distinct values produced");
    let max_len: usize = ctx.tier.pick(2, 3);
    let mut inputs: Vec<Vec<u8>> = vec![vec![]];
    for l in 1..=max_len { for i in 0..(256u64.pow(l as u32)) { inputs.push((0..l).map(|k| (i >> (8 * k)) as u8).collect()) } }
    let pats: [[u8; 16]; 6] = [[0; 16], [0xff; 16], { let mut p = [0; 16]; p[15] = 0x80; p }, { let mut p = [0; 16]; p[0] = 1; p }, [0xaa; 16], { let mut p = [0xff; 16]; p[0] = 0xfe; p }];
    for fam in [0u8, 1] { for lenb in 0..=255u8 { for pat in &pats { for ml in [[0u8, 0], [1, 0], [1, 32], [1, 33], [1, 128], [1, 129], [1, 255]] { for asn in [[0u8; 4], [0xff; 4]] {
        let mut v = vec![fam, lenb]; v.extend_from_slice(pat); v.extend_from_slice(&ml); v.extend_from_slice(&asn); inputs.push(v);
        // the same address octets in reverse order (whatever the endianness of the integer draw)
        let mut v = vec![fam, lenb]; v.extend(pat.iter().rev()); v.extend_from_slice(&ml); v.extend_from_slice(&asn); inputs.push(v);
    }}}}}
    inputs.sort(); inputs.dedup();
    type Out = (Fails, Oc, Vec<Prefix>, Vec<MaxLenPrefix>, Vec<RouteOrigin>);
    let res: Vec<Out> = inputs.par_chunks(4096).map(|chunk| {
        let mut fl = Fails::new(); let mut oc: Oc = BTreeMap::new(); let (mut ps, mut ms, mut rs) = (Vec::new(), Vec::new(), Vec::new());
        for data in chunk {
            let wit = || format!("input_hex={}", rpki_verif::hex(data));
            // Prefix
            match guard(|| Prefix::arbitrary(&mut Unstructured::new(data))) {
                Err(p) => fl.fail("C13.arbitrary.prefix", &wit, || p),
                Ok(Err(_)) => bump(&mut oc, "prefix-not-produced"),
                Ok(Ok(x)) => { bump(&mut oc, "prefix-produced"); ps.push(x);
                    fl.check("C13.arbitrary.prefix", &wit, || {
                        let o = prefix_invariant(x)?;
                        let y = Prefix::new(o.ip(), o.len).map_err(|e| format!("Prefix::new({}, {}) of its own accessors fails: {e}", o.ip(), o.len))?;
                        if !(x == y) || !(y == x) || x.cmp(&y) != Ordering::Equal { return Err(format!("arbitrary {x:?} vs constructed {y:?}: == {}, cmp {:?}", x == y, x.cmp(&y))) }
                        if h(&x) != h(&y) { return Err(format!("arbitrary {x:?} and the equal constructed {y:?} {}", hash_diff(h(&x), h(&y)))) }
                        ops_vs_cmp(&x, &y, 0)?;
                        if x.to_string() != y.to_string() || !x.covers(y) || !y.covers(x) { return Err("Display / covers differ from the constructed twin".into()) }
                        match Prefix::from_str(&x.to_string()) { Ok(q) if q == x && h(&q) == h(&x) => Ok(()), other => Err(format!("{} parses back to {other:?}, not to {x:?}", x)) }
                    });
                }
            }
            // MaxLenPrefix
            match guard(|| MaxLenPrefix::arbitrary(&mut Unstructured::new(data))) {
                Err(p) => fl.fail("C13.arbitrary.maxlen", &wit, || p),
                Ok(Err(_)) => bump(&mut oc, "maxlen-not-produced"),
                Ok(Ok(x)) => { bump(&mut oc, "maxlen-produced"); ms.push(x);
                    fl.check("C13.arbitrary.maxlen", &wit, || {
                        let o = prefix_invariant(x.prefix())?;
                        if let Some(m) = x.max_len() { if m < o.len || m > fam_max(o.v4) { return Err(format!("produced {}-{m}: max-len outside [{}, {}]", o.text(), o.len, fam_max(o.v4))) } }
                        let y = MaxLenPrefix::new(Prefix::new(o.ip(), o.len).map_err(|e| e.to_string())?, x.max_len()).map_err(|e| format!("MaxLenPrefix::new of its own accessors fails: {e}"))?;
                        if !(x == y) || x.cmp(&y) != Ordering::Equal || h(&x) != h(&y) { return Err(format!("arbitrary {x:?} vs constructed {y:?}: == {}, cmp {:?}, hashes {}", x == y, x.cmp(&y), hash_diff(h(&x), h(&y)))) }
                        ops_vs_cmp(&x, &y, 0)?;
                        match MaxLenPrefix::from_str(&x.to_string()) { Ok(q) if q == x && h(&q) == h(&x) => Ok(()), other => Err(format!("{} parses back to {other:?}, not to {x:?}", x)) }
                    });
                }
            }
            // RouteOrigin
            match guard(|| RouteOrigin::arbitrary(&mut Unstructured::new(data))) {
                Err(p) => fl.fail("C13.arbitrary.origin", &wit, || p),
                Ok(Err(_)) => bump(&mut oc, "origin-not-produced"),
                Ok(Ok(x)) => { bump(&mut oc, "origin-produced"); rs.push(x);
                    fl.check("C13.arbitrary.origin", &wit, || {
                        let o = prefix_invariant(x.prefix.prefix())?;
                        if let Some(m) = x.prefix.max_len() { if m < o.len || m > fam_max(o.v4) { return Err(format!("produced {}-{m}: max-len outside [{}, {}]", o.text(), o.len, fam_max(o.v4))) } }
                        let y = RouteOrigin::new(MaxLenPrefix::new(Prefix::new(o.ip(), o.len).map_err(|e| e.to_string())?, x.prefix.max_len()).map_err(|e| e.to_string())?, Asn::from_u32(x.asn.into_u32()));
                        if !(x == y) || x.cmp(&y) != Ordering::Equal || h(&x) != h(&y) { return Err(format!("arbitrary {x:?} vs constructed {y:?}: == {}, cmp {:?}, hashes {}", x == y, x.cmp(&y), hash_diff(h(&x), h(&y)))) }
                        ops_vs_cmp(&x, &y, 0)?;
                        let (px, py) = (Payload::from(x), Payload::from(y));
                        if px != py || px.cmp(&py) != Ordering::Equal || h(&px) != h(&py) { return Err("payload of the arbitrary origin differs from the payload of its constructed twin".into()) }
                        if x.is_v4() != o.v4 { return Err("is_v4".into()) }
                        Ok(())
                    });
                }
            }
            // Asn
            match guard(|| Asn::arbitrary(&mut Unstructured::new(data))) {
                Err(p) => fl.fail("C13.arbitrary.asn", &wit, || p),
                Ok(Err(_)) => bump(&mut oc, "asn-not-produced"),
                Ok(Ok(x)) => { bump(&mut oc, "asn-produced");
                    fl.check("C13.arbitrary.asn", &wit, || {
                        let y = Asn::from_u32(x.into_u32());
                        if x != y || x.cmp(&y) != Ordering::Equal || h(&x) != h(&y) { return Err(format!("arbitrary {x:?} vs constructed {y:?}")) }
                        match Asn::from_str(&x.to_string()) { Ok(q) if q == x => Ok(()), other => Err(format!("{x} parses back to {other:?}")) }
                    });
                }
            }
        }
        (fl, oc, ps, ms, rs)
    }).collect();
    let (mut ps, mut ms, mut rs): (Vec<Prefix>, Vec<MaxLenPrefix>, Vec<RouteOrigin>) = (Vec::new(), Vec::new(), Vec::new());
    for (fl, oc, p, m, r) in res { fl.flush(ctx); sp.merge_outcomes(&oc); ps.extend(p); ms.extend(m); rs.extend(r) }
    sp.evals(inputs.len() as u64 * 4);
    // distinct values by their Debug rendering (shows the raw representation), capped to keep the pair pass quadratic-but-small
    fn distinct<T: std::fmt::Debug + Copy>(v: Vec<T>, cap: usize) -> Vec<T> { let mut seen = BTreeSet::new(); v.into_iter().filter(|x| seen.insert(format!("{x:?}"))).take(cap).collect() }
    let (ps, ms, rs) = (distinct(ps, 3000), distinct(ms, 3000), distinct(rs, 3000));
    sp.nontrivial((ps.len() + ms.len() + rs.len()) as u64);
    fn pair_laws<T: Ord + Hash + Copy + Sync + std::fmt::Debug, K: PartialEq + Sync>(ctx: &Ctx, sp: &rpki_verif::Space, oracle: &'static str, v: &[T], key: &(dyn Fn(&T) -> K + Sync)) {
        let n = v.len();
        let hs: Vec<H3> = v.iter().map(|x| guard(|| h(x)).unwrap_or((0, 0, 0))).collect();
        let keys: Vec<Option<K>> = v.iter().map(|x| guard(|| key(x)).ok()).collect();
        batched(ctx, n, 512, |i, fl| {
            for j in 0..n {
                let wit = || format!("a={:?} b={:?}", v[i], v[j]);
                fl.check(oracle, &wit, || {
                    let c = v[i].cmp(&v[j]) as i8; let eq = v[i] == v[j];
                    if c != -(v[j].cmp(&v[i]) as i8) { return Err("cmp is not antisymmetric".into()) }
                    if (c == 0) != eq || eq != (keys[i].is_some() && keys[i] == keys[j]) { return Err(format!("cmp = {c}, == is {eq}, same integers: {}", keys[i] == keys[j])) }
                    if eq && hs[i] != hs[j] { return Err(format!("equal values {}", hash_diff(hs[i], hs[j]))) }
                    ops_vs_cmp(&v[i], &v[j], c)
                });
            }
            sp.evals(n as u64);
        });
    }
    pair_laws(ctx, &sp, "C13.arbitrary.prefix.pairs", &ps, &|x: &Prefix| { let o = observe(*x); (o.v4, o.addr, o.len) });
    pair_laws(ctx, &sp, "C13.arbitrary.maxlen.pairs", &ms, &|x: &MaxLenPrefix| { let o = observe(x.prefix()); (o.v4, o.addr, o.len, x.max_len()) });
    pair_laws(ctx, &sp, "C13.arbitrary.origin.pairs", &rs, &|x: &RouteOrigin| { let o = observe(x.prefix.prefix()); (o.v4, o.addr, o.len, x.prefix.resolved_max_len(), x.asn.into_u32()) });
    sp.set("inputs", json!(inputs.len())); sp.set("distinct_prefixes", json!(ps.len())); sp.set("distinct_maxlen_prefixes", json!(ms.len())); sp.set("distinct_origins", json!(rs.len()));
    sp.sample_str(|| "input_hex=0180 -> Prefix::arbitrary gives ::/128; it must be == Prefix::new(::, 128), hash like it and parse back from \"::/128\"".into());
    sp.done(true, &format!("{} inputs (all octet strings of length <= {max_len} + structured 24-octet inputs) x 4 types; all pairs of up to 3000 distinct values per type", inputs.len()));
    lap(t0, &sp.name);
}

// ------------------------------------------------ serde spellings of an ASN

fn json_of(f: impl FnOnce(&mut serde_json::Serializer<&mut Vec<u8>>) -> Result<(), serde_json::Error>) -> Result<String, String> {
    let mut buf = Vec::new();
    { let mut s = serde_json::Serializer::new(&mut buf); f(&mut s).map_err(|e| e.to_string())?; }
    String::from_utf8(buf).map_err(|e| e.to_string())
}
/// Runs one of the three `deserialize_from_*` helpers (0 = u32, 1 = str, 2 = any) over a complete JSON text.
fn asn_from_json(json: &str, which: u8) -> Option<Asn> {
    let mut de = serde_json::Deserializer::from_str(json);
    let r = match which { 0 => Asn::deserialize_from_u32(&mut de), 1 => Asn::deserialize_from_str(&mut de), _ => Asn::deserialize_from_any(&mut de) }.ok()?;
    de.end().ok()?;
    Some(r)
}
/// Every serde spelling of one ASN against its siblings (Display, FromStr, the derived impl, plain u32).
fn asn_serde_sweep(a: Asn) -> Result<(), String> {
    let v = a.into_u32();
    let j_u32 = json_of(|s| a.serialize_as_u32(s))?; let j_bare = json_of(|s| a.serialize_as_bare_str(s))?; let j_str = json_of(|s| a.serialize_as_str(s))?;
    let derived = serde_json::to_string(&a).map_err(|e| e.to_string())?;
    if j_u32 != derived || j_u32 != serde_json::to_string(&v).unwrap() { return Err(format!("serialize_as_u32 gives {j_u32}, derived Serialize {derived}")) }
    if j_str != serde_json::to_string(&a.to_string()).unwrap() { return Err(format!("serialize_as_str gives {j_str}, Display is {a}")) }
    if j_bare != serde_json::to_string(&a.to_string()[2..]).unwrap() { return Err(format!("serialize_as_bare_str gives {j_bare}, Display is {a}")) }
    for (json, which, name) in [(&j_u32, 0u8, "deserialize_from_u32(serialize_as_u32)"), (&j_str, 1, "deserialize_from_str(serialize_as_str)"), (&j_bare, 1, "deserialize_from_str(serialize_as_bare_str)"),
                                (&j_u32, 2, "deserialize_from_any(serialize_as_u32)"), (&j_str, 2, "deserialize_from_any(serialize_as_str)"), (&j_bare, 2, "deserialize_from_any(serialize_as_bare_str)")] {
        if asn_from_json(json, which) != Some(a) { return Err(format!("{name}: {json} gives {:?}", asn_from_json(json, which))) }
    }
    if serde_json::from_str::<Asn>(&derived).ok() != Some(a) { return Err(format!("derived Deserialize of {derived}")) }
    // the same through serde_json::Value (other Serializer / Deserializer implementations)
    let val_u32 = a.serialize_as_u32(serde_json::value::Serializer).map_err(|e| e.to_string())?;
    let val_str = a.serialize_as_str(serde_json::value::Serializer).map_err(|e| e.to_string())?;
    let val_bare = a.serialize_as_bare_str(serde_json::value::Serializer).map_err(|e| e.to_string())?;
    if val_u32 != serde_json::Value::from(v) || val_str != serde_json::Value::String(a.to_string()) || val_bare != serde_json::Value::String(v.to_string()) { return Err("serialize_as_* into serde_json::Value".into()) }
    if Asn::deserialize_from_u32(val_u32.clone()).ok() != Some(a) || Asn::deserialize_from_any(val_u32).ok() != Some(a)
        || Asn::deserialize_from_str(val_str.clone()).ok() != Some(a) || Asn::deserialize_from_any(val_str).ok() != Some(a)
        || Asn::deserialize_from_str(val_bare.clone()).ok() != Some(a) || Asn::deserialize_from_any(val_bare).ok() != Some(a) { return Err("deserialize_from_* out of serde_json::Value".into()) }
    Ok(())
}


// ------------------------------------------- history / handed-out iterators / call parameters

/// Runs `f` first thing on a brand-new OS thread (no thread-local of the library has been touched).
fn fresh_thread<T: Send>(f: impl FnOnce() -> T + Send) -> Result<T, String> {
    std::thread::scope(|sc| sc.spawn(f).join()).map_err(|_| "the evaluation thread died".to_string())
}
type Eval = Box<dyn Fn() -> String + Send + Sync>;
fn g(f: impl FnOnce() -> String) -> String { guard(f).unwrap_or_else(|p| format!("PANIC {p}")) }
/// Everything observable about a set.
fn obs_set(s: &SmallAsnSet) -> String {
    g(|| format!("items={:?} len={} empty={} contains(0,1,2,64497,MAX)={:?}", s.iter().map(|a| a.into_u32()).collect::<Vec<_>>(), s.len(), s.is_empty(),
        [0u32, 1, 2, 64497, u32::MAX].map(|x| s.contains(Asn::from_u32(x)))))
}
/// An iterator over `items` that panics when asked for item number `after` (0-based).
fn panicking(items: Vec<u32>, after: usize) -> impl Iterator<Item = Asn> {
    items.into_iter().enumerate().map(move |(i, x)| { if i == after { panic!("item source failed") } Asn::from_u32(x) })
}
/// A text sink that fails once `room` octets have been written.
struct Sink { room: usize, got: String }
impl std::fmt::Write for Sink {
    fn write_str(&mut self, s: &str) -> std::fmt::Result {
        for c in s.chars() { if self.got.len() + c.len_utf8() > self.room { return Err(std::fmt::Error) } self.got.push(c) }
        Ok(())
    }
}

/// Model of `Display` under a format spec for a value whose text form is `canon` (see c12.rs): the spec is ignored or
/// applied to the WHOLE text (padding with one fill character); numbers-with-structure are never cut or padded inside.
fn display_spec_ok(out: &str, canon: &str, width: Option<usize>, align: char) -> bool {
    if out == canon { return true }
    let want_len = width.unwrap_or(0).max(canon.chars().count());
    if out.chars().count() != want_len { return false }
    for fill in [' ', '0'] {
        for (pos, _) in out.match_indices(canon) {
            let (l, r) = (&out[..pos], &out[pos + canon.len()..]);
            if !l.chars().all(|c| c == fill) || !r.chars().all(|c| c == fill) { continue }
            let (nl, nr) = (l.chars().count(), r.chars().count());
            if match align { '<' => nl == 0, '>' => nr == 0, '^' => nl <= nr && nr - nl <= 1, _ => nl == 0 || nr == 0 } { return true }
        }
    }
    false
}
fn display_renderings(v: &dyn std::fmt::Display, w: usize, p: usize) -> Vec<(String, String, Option<usize>, Option<usize>, char)> {
    vec![
        (format!("{{:{w}}}"), format!("{:1$}", v, w), Some(w), None, ' '),
        (format!("{{:<{w}}}"), format!("{:<1$}", v, w), Some(w), None, '<'),
        (format!("{{:^{w}}}"), format!("{:^1$}", v, w), Some(w), None, '^'),
        (format!("{{:>{w}}}"), format!("{:>1$}", v, w), Some(w), None, '>'),
        (format!("{{:0<{w}}}"), format!("{:0<1$}", v, w), Some(w), None, '<'),
        (format!("{{:0^{w}}}"), format!("{:0^1$}", v, w), Some(w), None, '^'),
        (format!("{{:0>{w}}}"), format!("{:0>1$}", v, w), Some(w), None, '>'),
        (format!("{{:0{w}}}"), format!("{:01$}", v, w), Some(w), None, ' '),
        (format!("{{:#{w}}}"), format!("{:#1$}", v, w), Some(w), None, ' '),
        (format!("{{:+{w}}}"), format!("{:+1$}", v, w), Some(w), None, ' '),
        (format!("{{:#}}"), format!("{:#}", v), None, None, ' '),
        (format!("{{:+}}"), format!("{:+}", v), None, None, ' '),
        (format!("{{:.{p}}}"), format!("{:.1$}", v, p), None, Some(p), ' '),
        (format!("{{:{w}.{p}}}"), format!("{:1$.2$}", v, w, p), Some(w), Some(p), ' '),
        (format!("{{:>{w}.{p}}}"), format!("{:>1$.2$}", v, w, p), Some(w), Some(p), '>'),
        (format!("{{:0^{w}.{p}}}"), format!("{:0^1$.2$}", v, w, p), Some(w), Some(p), '^'),
    ]
}

fn history_spaces(ctx: &Ctx, t0: &std::time::Instant) {
    // ------------------------------------------------------------- history.independent
    let sp = ctx.space("history.independent",
        "subjects: SmallAsnSet built by collect / from_iter from 7 item lists (empty, one, repeated, unsorted, 100 items, filtered and chained sources), re-entrant constructions (the item source itself builds sets), the four set operations, Prefix / MaxLenPrefix / Asn FromStr on accepted texts and one text per rejection stage, Display, the Asn serde helpers on good and bad JSON, DER readers, comparisons and hashes; predecessors: every subject, item sources that panic after k = 0..=6 items (caught) for collect and from_iter, a panicking source inside a nested construction, Display into a sink that fails after k octets for every k, set-operation iterators abandoned after 0..=2 items, Asn::MAX + 1 (panics); for every predecessor (thorough: every ordered pair) a new OS thread runs the predecessor(s), then every subject in order and in reverse order; each observation must equal the one made first thing on a thread of its own; a re-entrant construction must observe like the plain one; non-trivial = (sequence, subject) evaluations whose predecessor is not the subject itself");
    let lists: Vec<Vec<u32>> = vec![vec![], vec![7], vec![3, 1, 2, 3, 1], vec![u32::MAX, 0, u32::MAX], vec![64496, 64497, 64498], (0..100).rev().map(|x| x * 3).collect(), vec![5, 5, 5, 5]];
    let mut subjects: Vec<(String, Eval)> = Vec::new();
    let mut twins: Vec<(usize, usize)> = Vec::new();   // (re-entrant subject, plain subject) must observe the same
    for l in &lists {
        let plain = subjects.len();
        let l1 = l.clone(); subjects.push((format!("collect({l:?})"), Box::new(move || g(|| obs_set(&l1.iter().map(|&x| Asn::from_u32(x)).collect::<SmallAsnSet>())))));
        let l1 = l.clone(); subjects.push((format!("from_iter(filtered {l:?})"), Box::new(move || g(|| obs_set(&SmallAsnSet::from_iter(l1.iter().filter(|_| true).map(|&x| Asn::from_u32(x))))))));
        let l1 = l.clone(); subjects.push((format!("from_iter(chained {l:?})"), Box::new(move || g(|| { let k = l1.len() / 2; obs_set(&SmallAsnSet::from_iter(l1[..k].iter().chain(l1[k..].iter()).map(|&x| Asn::from_u32(x)))) }))));
        twins.push((subjects.len(), plain));
        let l1 = l.clone(); subjects.push((format!("collect({l:?}) whose item source builds a set for every item"), Box::new(move || g(|| obs_set(&l1.iter().map(|&x| {
            let inner: SmallAsnSet = [x, 1, 2].into_iter().map(Asn::from_u32).collect(); assert!(inner.contains(Asn::from_u32(x))); Asn::from_u32(x) }).collect::<SmallAsnSet>())))));
        twins.push((subjects.len(), plain));
        let l1 = l.clone(); subjects.push((format!("from_iter({l:?}) filtered through a deny set built per item"), Box::new(move || g(|| obs_set(&SmallAsnSet::from_iter(l1.iter().map(|&x| Asn::from_u32(x)).filter(|a| {
            !SmallAsnSet::from_iter([Asn::from_u32(4_000_000_000)]).contains(*a) })))))));
    }
    for (a, b) in [(vec![1u32, 2, 3, 4], vec![3u32, 4, 5]), (vec![], vec![1]), ((0..40).collect::<Vec<u32>>(), vec![39, 40])] {
        let (a1, b1) = (a.clone(), b.clone());
        subjects.push((format!("set operations({a:?}, {b:?})"), Box::new(move || g(|| { let x: SmallAsnSet = a1.iter().map(|&v| Asn::from_u32(v)).collect(); let y: SmallAsnSet = b1.iter().map(|&v| Asn::from_u32(v)).collect();
            let v = |i: &mut dyn Iterator<Item = Asn>| i.map(|q| q.into_u32()).collect::<Vec<_>>();
            format!("{:?} {:?} {:?} {:?}", v(&mut x.union(&y)), v(&mut x.intersection(&y)), v(&mut x.difference(&y)), v(&mut x.symmetric_difference(&y))) }))));
    }
    for t in ["10.0.0.0/8", "::/0", "2001:db8::/32", "255.255.255.255/32", "", "10.0.0.0", "10.0.0/8", "10.0.0.0/x", "10.0.0.0/33", "10.0.0.1/8", "10.0.0.128/32", "ffff:ffff:ffff:ffff:ffff:ffff:ffff:ffff/128"] {
        subjects.push((format!("Prefix::from_str({t:?})"), Box::new(move || g(|| format!("{:?} relaxed {:?}", Prefix::from_str(t).map(|p| (p.to_string(), h(&p))), Prefix::from_str_relaxed(t).map(|p| p.to_string()))))));
        subjects.push((format!("Prefix from JSON {t:?}"), Box::new(move || g(|| format!("{:?}", serde_json::from_value::<Prefix>(serde_json::Value::String(t.to_string())).map(|p| p.to_string()).map_err(|_| ()))))));
    }
    for t in ["10.0.0.0/8-24", "10.0.0.0/8", "10.0.0.0/8-", "10.0.0.0/8-7", "10.0.0.0/8-33", "::/0-128", "10.0.0.0/x-9"] {
        subjects.push((format!("MaxLenPrefix::from_str({t:?})"), Box::new(move || g(|| format!("{:?}", MaxLenPrefix::from_str(t).map(|p| (p.to_string(), p.resolved_max_len(), h(&p))))))));
    }
    for t in ["AS65000", "as0", "4294967295", "AS4294967296", "AS", "", "AS-1"] {
        subjects.push((format!("Asn::from_str({t:?})"), Box::new(move || g(|| format!("{:?} any {:?}", Asn::from_str(t).map(|a| a.to_string()), asn_from_json(&serde_json::to_string(t).unwrap(), 2))))));
    }
    for j in ["1", "-1", "4294967296", "1.5", "\"AS1\"", "\"x\"", "null", "[1]"] {
        subjects.push((format!("Asn serde helpers on JSON {j}"), Box::new(move || g(|| format!("{:?} {:?} {:?}", asn_from_json(j, 0), asn_from_json(j, 1), asn_from_json(j, 2))))));
    }
    for hexs in ["020100", "020500ffffffff", "0201ff", "0200", "040100", "02060100000000"] {
        subjects.push((format!("Asn DER readers on {hexs}"), Box::new(move || g(|| { use bcder::decode::Constructed; use bcder::Mode; let b = rpki_verif::unhex(hexs);
            format!("{:?} {:?}", Constructed::decode(b.as_slice(), Mode::Der, |c| Asn::take_from(c)).ok(), Constructed::decode(b.as_slice(), Mode::Der, |c| Asn::skip_in(c)).is_ok()) }))));
    }
    subjects.push(("route origin comparisons".into(), Box::new(|| g(|| { let p = Prefix::from_str("10.0.0.0/8").unwrap();
        let a = RouteOrigin::new(MaxLenPrefix::new(p, None).unwrap(), Asn::from_u32(1)); let b = RouteOrigin::new(MaxLenPrefix::new(p, Some(8)).unwrap(), Asn::from_u32(1)); let c = RouteOrigin::new(MaxLenPrefix::new(p, Some(9)).unwrap(), Asn::from_u32(0));
        format!("{:?} {:?} {} {} {:?}", a.cmp(&b), a.cmp(&c), a == b, h(&a) == h(&b), a.partial_cmp(&c)) }))));
    // predecessors
    let n_subj = subjects.len();
    let mut extra: Vec<(String, Eval)> = Vec::new();
    for k in 0..=6usize {
        extra.push((format!("collect from a source that panics at item {k} (caught)"), Box::new(move || { let _ = guard(|| panicking(vec![64496, 64497, 64498, 64499, 64500, 64501, 64502], k).collect::<SmallAsnSet>()); String::new() })));
        extra.push((format!("from_iter from a source that panics at item {k} (caught)"), Box::new(move || { let _ = guard(|| SmallAsnSet::from_iter(panicking(vec![64496, 64497, 64498, 64499, 64500, 64501, 64502], k))); String::new() })));
    }
    extra.push(("a nested construction whose inner source panics (caught)".into(), Box::new(|| { let _ = guard(|| [1u32, 2, 3].into_iter().map(|x| { let _ = panicking(vec![64496, 64497], 1).collect::<SmallAsnSet>(); Asn::from_u32(x) }).collect::<SmallAsnSet>()); String::new() })));
    extra.push(("Asn::MAX + 1 (panics, caught)".into(), Box::new(|| { let _ = guard(|| Asn::MAX + 1); String::new() })));
    for text in ["10.0.0.128/32", "2001:db8::/32-48", "AS65000"] { for k in 0..=text.len() {
        extra.push((format!("Display of {text} into a sink that fails after {k} octets"), Box::new(move || { use std::fmt::Write; let mut sk = Sink { room: k, got: String::new() };
            let _ = guard(|| if text.starts_with("AS") { write!(sk, "{}", Asn::from_str(text).unwrap()) } else if text.contains('-') { write!(sk, "{}", MaxLenPrefix::from_str(text).unwrap()) } else { write!(sk, "{}", Prefix::from_str(text).unwrap()) }); String::new() })));
    }}
    for n in 0..=2usize {
        extra.push((format!("set-operation iterators abandoned after {n} items"), Box::new(move || { let _ = guard(|| { let x: SmallAsnSet = (0..20).map(Asn::from_u32).collect(); let y: SmallAsnSet = (10..30).map(Asn::from_u32).collect();
            let _ = x.union(&y).take(n).count(); let _ = x.intersection(&y).take(n).count(); let _ = x.difference(&y).take(n).count(); let _ = x.symmetric_difference(&y).take(n).count(); let _ = x.iter().take(n).count(); }); String::new() })));
    }
    let np = n_subj + extra.len();
    let pname = |k: usize| if k < n_subj { subjects[k].0.clone() } else { extra[k - n_subj].0.clone() };
    let run_pred = |k: usize| { if k < n_subj { let _ = (subjects[k].1)(); } else { let _ = (extra[k - n_subj].1)(); } };
    let baseline: Vec<String> = (0..n_subj).map(|i| fresh_thread(|| (subjects[i].1)()).unwrap_or_else(|e| e)).collect();
    for (nested, plain) in &twins {
        sp.eval();
        if baseline[*nested] != baseline[*plain] { ctx.fail("C13.asnset.reentrant", subjects[*nested].0.clone(), format!("observes {}, the plain construction {}", rpki_verif::trunc(&baseline[*nested], 300), rpki_verif::trunc(&baseline[*plain], 300))) }
    }
    let seqs: Vec<Vec<usize>> = if ctx.tier.is_thorough() { (0..np).map(|a| vec![a]).chain((0..np).flat_map(|a| (n_subj..np).map(move |b| vec![a, b]))).chain((n_subj..np).flat_map(|a| (0..n_subj).map(move |b| vec![a, b]))).collect() } else { (0..np).map(|a| vec![a]).collect() };
    for chunk in seqs.chunks(16) {
        let outs: Vec<Result<Vec<(usize, String)>, String>> = std::thread::scope(|sc| {
            let (rp, subj) = (&run_pred, &subjects);
            let hs: Vec<_> = chunk.iter().map(|seq| sc.spawn(move || { for &k in seq { rp(k) }
                let mut o: Vec<(usize, String)> = (0..n_subj).map(|i| (i, (subj[i].1)())).collect();
                o.extend((0..n_subj).rev().map(|i| (i, (subj[i].1)()))); o })).collect();
            hs.into_iter().map(|h| h.join().map_err(|_| "sequence thread died".to_string())).collect()
        });
        for (seq, out) in chunk.iter().zip(outs) {
            let names = seq.iter().map(|&k| pname(k)).collect::<Vec<_>>().join(" ; then ");
            match out {
                Err(e) => ctx.fail("C13.history.independent", format!("after [{names}]"), e),
                Ok(o) => for (pos, (i, got)) in o.iter().enumerate() {
                    sp.eval(); if !seq.contains(i) { sp.nontrivial(1) }
                    if *got != baseline[*i] {
                        ctx.fail("C13.history.independent", format!("after [{names}] (subject #{pos} of the thread): {}", subjects[*i].0), format!("observed {}, but {} as the first evaluation of a new thread", rpki_verif::trunc(got, 300), rpki_verif::trunc(&baseline[*i], 300)));
                    }
                    sp.outcome(if got.contains("Err") || got.contains("None") || got.contains("PANIC") { "subject-with-a-rejection" } else { "subject-all-accepted" });
                }
            }
        }
    }
    sp.set("subjects", json!(n_subj)); sp.set("predecessors", json!(np)); sp.set("sequences", json!(seqs.len()));
    sp.sample_str(|| "after [collect from a source that panics at item 3 (caught)]: collect([3, 1, 2, 3, 1]) must still be [1, 2, 3]".into());
    sp.done(true, &format!("{} sequences x {} subjects forwards and backwards, one OS thread per sequence", seqs.len(), n_subj));
    lap(t0, &sp.name);

    // ------------------------------------------------------------------- handed_out
    let sp = ctx.space("handed_out.iterators",
        "the iterators the set type hands out (iter, &set into_iter, union, intersection, difference, symmetric_difference) on 6 x 6 set pairs (sizes 0, 1, 3, 17, 40 with shared first / middle / last items): every sequence of up to 3 calls from {next, nth(0), nth(1), nth(5), size_hint, by_ref().take(2).count(), last (consumes)} followed by collecting the rest: each call must answer like the same call on an iterator over the reference result (BTreeSet), size_hint must bound the real remainder; non-trivial = sequences on a non-empty result");
    {
        let sets: Vec<Vec<u32>> = vec![vec![], vec![5], vec![1, 5, 9], (0..17).map(|x| x * 2).collect(), (0..40).collect(), vec![0, 16, 32, 39, 77]];
        let ops = ["next", "nth(0)", "nth(1)", "nth(5)", "size_hint", "take(2).count", "last"];
        let mut seqs: Vec<Vec<usize>> = vec![vec![]];
        for a in 0..ops.len() { seqs.push(vec![a]); for b in 0..ops.len() { seqs.push(vec![a, b]); for c in 0..ops.len() { seqs.push(vec![a, b, c]) } } }
        let drive = |it: &mut dyn Iterator<Item = Asn>, seq: &[usize], remaining_truth: &mut dyn FnMut() -> usize| -> Result<String, String> {
            let mut log = String::new();
            for &o in seq {
                match o {
                    0 => log.push_str(&format!("{:?};", it.next())), 1 => log.push_str(&format!("{:?};", it.nth(0))), 2 => log.push_str(&format!("{:?};", it.nth(1))), 3 => log.push_str(&format!("{:?};", it.nth(5))),
                    4 => { let (lo, hi) = it.size_hint(); let _ = remaining_truth; log.push_str(&format!("hint({lo},{hi:?});")) }
                    5 => log.push_str(&format!("{};", (&mut *it).take(2).count())),
                    _ => { log.push_str(&format!("{:?};", (&mut *it).last())) }
                }
            }
            log.push_str(&format!("rest={:?}", it.collect::<Vec<_>>()));
            Ok(log)
        };
        let pairs: Vec<(usize, usize)> = (0..sets.len()).flat_map(|a| (0..sets.len()).map(move |b| (a, b))).collect();
        let res: Vec<(Fails, u64, u64)> = pairs.par_iter().map(|&(ia, ib)| {
            let mut fl = Fails::new(); let (mut ev, mut nt) = (0u64, 0u64);
            let (ma, mb): (BTreeSet<u32>, BTreeSet<u32>) = (sets[ia].iter().copied().collect(), sets[ib].iter().copied().collect());
            let (sa, sb): (SmallAsnSet, SmallAsnSet) = (sets[ia].iter().map(|&x| Asn::from_u32(x)).collect(), sets[ib].iter().map(|&x| Asn::from_u32(x)).collect());
            for kind in 0..6usize {
                let reference: Vec<u32> = match kind { 0 | 1 => ma.iter().copied().collect(), 2 => ma.union(&mb).copied().collect(), 3 => ma.intersection(&mb).copied().collect(), 4 => ma.difference(&mb).copied().collect(), _ => ma.symmetric_difference(&mb).copied().collect() };
                let kname = ["iter", "into_iter", "union", "intersection", "difference", "symmetric_difference"][kind];
                for seq in &seqs {
                    ev += 1; if !reference.is_empty() { nt += 1 }
                    let wit = || format!("{kname}({:?}, {:?}) calls={:?}", sets[ia], sets[ib], seq.iter().map(|&o| ops[o]).collect::<Vec<_>>());
                    let want = drive(&mut reference.iter().map(|&x| Asn::from_u32(x)).collect::<Vec<_>>().into_iter(), seq, &mut || 0).unwrap();
                    let got = guard(|| {
                        let mut it: Box<dyn Iterator<Item = Asn>> = match kind { 0 => Box::new(sa.iter()), 1 => Box::new((&sa).into_iter()), 2 => Box::new(sa.union(&sb)),
                            3 => Box::new(sa.intersection(&sb)), 4 => Box::new(sa.difference(&sb)), _ => Box::new(sa.symmetric_difference(&sb)) };
                        drive(&mut *it, seq, &mut || 0)
                    });
                    // size hints are compared as bounds, not literally: strip them from both logs and check the bound separately
                    let strip = |l: &str| l.split(';').filter(|p| !p.starts_with("hint(")).collect::<Vec<_>>().join(";");
                    match got {
                        Err(p) => fl.fail("C13.asnset.iterators", &wit, || p),
                        Ok(Err(e)) => fl.fail("C13.asnset.iterators", &wit, || e),
                        Ok(Ok(gl)) => {
                            if strip(&gl) != strip(&want) { fl.fail("C13.asnset.iterators", &wit, || format!("calls answer {gl}, the reference {want}")) }
                            // hint bounds: pair every hint in got with the exact remaining count recorded in want (the reference's hint is exact)
                            let hints = |l: &str| l.split(';').filter(|p| p.starts_with("hint(")).map(|p| p.to_string()).collect::<Vec<_>>();
                            for (hg, hw) in hints(&gl).iter().zip(hints(&want)) {
                                let exact: usize = hw[5..hw.find(',').unwrap()].parse().unwrap();
                                let lo: usize = hg[5..hg.find(',').unwrap()].parse().unwrap();
                                let hi: Option<usize> = hg[hg.find(',').unwrap() + 1..hg.len() - 1].strip_prefix("Some(").map(|x| x.trim_end_matches(')').parse().unwrap());
                                if lo > exact || hi.map(|h| h < exact).unwrap_or(false) { fl.fail("C13.asnset.iterators", &wit, || format!("size_hint {hg} does not bound the {exact} items that remain")) }
                            }
                        }
                    }
                }
            }
            (fl, ev, nt)
        }).collect();
        for (fl, ev, nt) in res { fl.flush(ctx); sp.evals(ev); sp.nontrivial(nt) }
        sp.outcomes_n("call-sequences", seqs.len() as u64); sp.outcomes_n("set-pairs", pairs.len() as u64);
        sp.sample_str(|| "union([1, 5, 9], [0, 16, 32, 39, 77]) calls=[nth(1), size_hint, last] then collect".into());
        sp.done(true, &format!("{} set pairs x 6 iterator kinds x {} call sequences of length <= 3", pairs.len(), seqs.len()));
        lap(t0, &sp.name);
    }

    // --------------------------------------------------------------- display.parameters
    let sp = ctx.space("display.parameters",
        "Display of prefixes (every prefix of length <= 4 of both families and lengths 8, 24, 25, 31, 32 / 32, 64, 127, 128 at 5 addresses, including ones whose text is cut short by a small precision such as 10.0.0.128/32), of max-len prefixes (max-len None, = length, family maximum) and of 103 boundary ASNs under width 0..=40 x {default, <, ^, >} x fill {SPACE, 0} x flags {#, +, 0} and precision 0..=40 (alone and with a width): the output must be the plain text or the WHOLE plain text padded with one fill character to the width - never a text in which a part was padded or cut, because that parses to no value or to a different one; checked by parsing back as well; non-trivial = renderings that differ from the plain text");
    {
        let mut vals: Vec<(String, Box<dyn std::fmt::Display + Send + Sync>, u8)> = Vec::new();
        let mut mps: Vec<MP> = Vec::new();
        for v4 in [true, false] {
            let w = fam_w(v4);
            for len in 0..=4u8 { for k in 0..(1u128 << len) { mps.push(MP { v4, addr: if len == 0 { 0 } else { k << (w - len as u32) }, len }) } }
            let deep: &[u8] = if v4 { &[8, 24, 25, 31, 32] } else { &[32, 64, 127, 128] };
            let full = low_ones(w);
            for a in [0u128, full, if v4 { 0x0A00_0080 } else { 0x2001_0db8u128 << 96 | 0x80 }, full / 3, if v4 { 0xC0A8_0A80 } else { 1 }] { for &len in deep { mps.push(MP { v4, addr: a & !low_ones(w - len as u32), len }) } }
        }
        mps.sort(); mps.dedup();
        for m in &mps {
            let Ok(Ok(p)) = guard(|| Prefix::new(m.ip(), m.len)) else { continue };
            vals.push((m.text(), Box::new(p), 0));
            for ml in [None, Some(m.len), Some(fam_max(m.v4))] { if let Ok(Ok(v)) = guard(|| MaxLenPrefix::new(p, ml)) { vals.push((match ml { None => m.text(), Some(x) => format!("{}-{x}", m.text()) }, Box::new(v), 1)) } }
        }
        let mut asns: Vec<u32> = vec![0, 1, 2, 255, 256, 65535, 65536, u32::MAX - 1, u32::MAX]; for k in 1..32 { let p = 1u32 << k; asns.extend([p - 1, p, p + 1]) } asns.sort(); asns.dedup();
        for a in asns { vals.push((format!("AS{a}"), Box::new(Asn::from_u32(a)), 2)) }
        let res: Vec<(Fails, u64, u64)> = vals.par_iter().map(|(canon, v, kind)| {
            let mut fl = Fails::new(); let (mut ev, mut nt) = (0u64, 0u64);
            for w in 0..=40usize {
                match guard(|| display_renderings(&**v, w, w)) {
                    Err(pn) => fl.fail("C13.display.parameters", &|| format!("value={canon} width/precision={w}"), || pn),
                    Ok(rs) => for (spec, out, width, _prec, align) in rs {
                        ev += 1; if out != *canon { nt += 1 }
                        let wit = || format!("value={canon} spec={spec}");
                        if !display_spec_ok(&out, canon, width, align) {
                            fl.fail("C13.display.parameters", &wit, || format!("renders as {out:?}: neither the plain text nor the whole plain text padded"));
                            continue
                        }
                        // and the direct statement: without the fill the text parses back to the same value
                        let core = if out == *canon { out.as_str() } else { let tr = out.trim_matches(' '); if tr.len() < out.len() { tr } else { canon.as_str() } };
                        let back_ok = match kind { 0 => Prefix::from_str(core).map(|p| p.to_string()).ok(), 1 => MaxLenPrefix::from_str(core).map(|p| p.to_string()).ok(), _ => Asn::from_str(core).map(|p| p.to_string()).ok() };
                        if back_ok.as_deref() != Some(canon.as_str()) { fl.fail("C13.display.parameters", &wit, || format!("renders as {out:?}; without the fill it parses to {back_ok:?}")) }
                    }
                }
            }
            (fl, ev, nt)
        }).collect();
        for (fl, ev, nt) in res { fl.flush(ctx); sp.evals(ev); sp.nontrivial(nt) }
        sp.outcomes_n("values", vals.len() as u64); sp.outcomes_n("format-specs", 16 * 41);
        sp.sample_str(|| "format!(\"{:<24}\", 0.0.0.0/0) and format!(\"{:.8}\", 10.0.0.128/32) must give the plain text (or the whole text padded), never \"0.0.0.0                 /0\" or \"10.0.0.1/32\"".into());
        sp.done(true, &format!("{} values x 41 widths/precisions x 16 format specs", vals.len()));
        lap(t0, &sp.name);
    }
}

// ------------------------------------------------ every public route that yields a value of the property's types

/// The value laws of a prefix, however it was obtained: construction invariants, equal in every respect to the
/// value the public constructor makes from its own accessors, text and serde forms parse back.
fn prefix_laws(x: Prefix) -> Result<MP, String> {
    let o = prefix_invariant(x)?;
    let y = Prefix::new(o.ip(), o.len).map_err(|e| format!("Prefix::new({}, {}) of its own accessors fails: {e}", o.ip(), o.len))?;
    if !(x == y) || !(y == x) || x.cmp(&y) != Ordering::Equal { return Err(format!("{x:?} vs the constructed {y:?}: == {}, cmp {:?}", x == y, x.cmp(&y))) }
    if h(&x) != h(&y) { return Err(format!("{x:?} and the equal constructed {y:?} {}", hash_diff(h(&x), h(&y)))) }
    ops_vs_cmp(&x, &y, 0)?;
    if !x.covers(y) || !y.covers(x) { return Err("does not cover its constructed twin".into()) }
    let t = x.to_string();
    if t != o.text() { return Err(format!("Display gives {t:?}, expected {:?}", o.text())) }
    match Prefix::from_str(&t) { Ok(q) if q == x && h(&q) == h(&x) => {}, other => return Err(format!("{t} parses back to {other:?}, not to {x:?}")) }
    match serde_json::to_value(x).ok().and_then(|v| serde_json::from_value::<Prefix>(v).ok()) { Some(q) if q == x => {}, other => return Err(format!("{t} through Serialize / Deserialize comes back as {other:?}")) }
    Ok(o)
}
/// The value laws of a max-len prefix: prefix laws, prefix length <= max-len <= family maximum, accessors, twin, text.
fn maxlen_laws(x: MaxLenPrefix) -> Result<(MP, Option<u8>), String> {
    let o = prefix_laws(x.prefix())?;
    let ml = x.max_len();
    if let Some(m) = ml { if m < o.len || m > fam_max(o.v4) { return Err(format!("{}-{m}: max-len outside [{}, {}]", o.text(), o.len, fam_max(o.v4))) } }
    if x.resolved_max_len() != ml.unwrap_or(o.len) || x.prefix_len() != o.len || x.addr() != o.ip() { return Err(format!("accessors of {x:?} disagree: resolved_max_len {} prefix_len {} addr {}", x.resolved_max_len(), x.prefix_len(), x.addr())) }
    let y = MaxLenPrefix::new(x.prefix(), ml).map_err(|e| format!("MaxLenPrefix::new of its own accessors fails: {e}"))?;
    if !(x == y) || x.cmp(&y) != Ordering::Equal || h(&x) != h(&y) { return Err(format!("{x:?} vs the constructed {y:?}: == {}, cmp {:?}, hashes {}", x == y, x.cmp(&y), hash_diff(h(&x), h(&y)))) }
    ops_vs_cmp(&x, &y, 0)?;
    let want = match ml { None => o.text(), Some(m) => format!("{}-{m}", o.text()) };
    if x.to_string() != want { return Err(format!("Display gives {:?}, expected {want:?}", x.to_string())) }
    match MaxLenPrefix::from_str(&want) { Ok(q) if q == x && h(&q) == h(&x) => {}, other => return Err(format!("{want} parses back to {other:?}, not to {x:?}")) }
    Ok((o, ml))
}
/// The value laws of a route origin: those of its max-len prefix; equal (==, cmp, three hashers, as Payload) to the
/// origin constructed from its own accessors AND to the other spelling of the same effective max-len; ASN text.
fn origin_laws(x: RouteOrigin) -> Result<(MP, u8, u32), String> {
    let (o, ml) = maxlen_laws(x.prefix)?;
    let p = Prefix::new(o.ip(), o.len).map_err(|e| e.to_string())?;
    let asn = Asn::from_u32(x.asn.into_u32());
    let other_spelling = if ml.is_none() { Some(o.len) } else if ml == Some(o.len) { None } else { ml };
    for m in [ml, other_spelling] {
        let y = RouteOrigin::new(MaxLenPrefix::new(p, m).map_err(|e| e.to_string())?, asn);
        if !(x == y) || !(y == x) || x.cmp(&y) != Ordering::Equal || h(&x) != h(&y) { return Err(format!("{x:?} vs the constructed {y:?}: == {}, cmp {:?}, hashes {}", x == y, x.cmp(&y), hash_diff(h(&x), h(&y)))) }
        ops_vs_cmp(&x, &y, 0)?;
        let (px, py) = (Payload::from(x), Payload::from(y));
        if px != py || px.cmp(&py) != Ordering::Equal || h(&px) != h(&py) || h(&px.as_ref()) != h(&py.as_ref()) { return Err(format!("the payload of {x:?} differs from the payload of the constructed {y:?}")) }
    }
    if x.is_v4() != o.v4 { return Err(format!("is_v4() = {}", x.is_v4())) }
    match Asn::from_str(&x.asn.to_string()) { Ok(q) if q == x.asn => {}, other => return Err(format!("{} parses back to {other:?}", x.asn)) }
    Ok((o, ml.unwrap_or(o.len), x.asn.into_u32()))
}

/// Partner sets and probe values for the set laws: every subset of a small universe around the menu.
struct SetCtx { others: Vec<(SmallAsnSet, BTreeSet<u32>)>, probes: Vec<u32> }
fn set_ctx(menu: &[u32]) -> SetCtx {
    let mut uni: Vec<u32> = menu.to_vec(); uni.push(menu[1] + 1); uni.sort(); uni.dedup();
    let others = (0u32..(1 << uni.len())).map(|mask| {
        let m: BTreeSet<u32> = uni.iter().enumerate().filter(|(i, _)| mask >> i & 1 == 1).map(|(_, x)| *x).collect();
        (m.iter().map(|&x| Asn::from_u32(x)).collect::<SmallAsnSet>(), m)
    }).collect();
    let mut probes: Vec<u32> = uni.iter().flat_map(|&x| [x.wrapping_sub(1), x, x.wrapping_add(1)]).collect(); probes.sort(); probes.dedup();
    SetCtx { others, probes }
}
/// The value laws of a small AS-number set, however it was obtained: iteration strictly ascending (sorted, no
/// duplicate), len / is_empty / IntoIterator / contains agree with the items, equal in every respect to FromIterator
/// of its own items, and the four set operations with every partner set (both argument orders) are the mathematical ones.
fn set_laws(s: &SmallAsnSet, sc: &SetCtx) -> Result<Vec<u32>, String> {
    let items: Vec<u32> = s.iter().map(|a| a.into_u32()).collect();
    if !items.windows(2).all(|w| w[0] < w[1]) { return Err(format!("the set iterates as {items:?}: not strictly ascending (unsorted or with a duplicate)")) }
    if s.len() != items.len() || s.is_empty() != items.is_empty() { return Err(format!("len() = {}, is_empty() = {} for the items {items:?}", s.len(), s.is_empty())) }
    if s.into_iter().map(|a| a.into_u32()).collect::<Vec<_>>() != items { return Err("IntoIterator differs from iter()".into()) }
    let again: SmallAsnSet = s.iter().collect();
    if *s != again || again != *s || s.cmp(&again) != Ordering::Equal || h(s) != h(&again) { return Err(format!("differs from FromIterator of its own items {items:?}")) }
    if s.clone() != *s { return Err("a clone differs".into()) }
    let m: BTreeSet<u32> = items.iter().copied().collect();
    for &x in &sc.probes { if s.contains(Asn::from_u32(x)) != m.contains(&x) { return Err(format!("contains({x}) = {} for the items {items:?}", s.contains(Asn::from_u32(x)))) } }
    let v = |i: &mut dyn Iterator<Item = Asn>| i.map(|q| q.into_u32()).collect::<Vec<u32>>();
    for (o, om) in &sc.others {
        let bad = |name: &str, got: Vec<u32>, want: Vec<u32>| format!("{name} of {items:?} and {:?} gives {got:?}, the mathematical result is {want:?}", om.iter().collect::<Vec<_>>());
        let (g, w) = (v(&mut s.union(o)), m.union(om).copied().collect::<Vec<_>>()); if g != w { return Err(bad("union", g, w)) }
        let (g, w) = (v(&mut o.union(s)), m.union(om).copied().collect::<Vec<_>>()); if g != w { return Err(bad("union (as right operand)", g, w)) }
        let (g, w) = (v(&mut s.intersection(o)), m.intersection(om).copied().collect::<Vec<_>>()); if g != w { return Err(bad("intersection", g, w)) }
        let (g, w) = (v(&mut o.intersection(s)), m.intersection(om).copied().collect::<Vec<_>>()); if g != w { return Err(bad("intersection (as right operand)", g, w)) }
        let (g, w) = (v(&mut s.difference(o)), m.difference(om).copied().collect::<Vec<_>>()); if g != w { return Err(bad("difference", g, w)) }
        let (g, w) = (v(&mut o.difference(s)), om.difference(&m).copied().collect::<Vec<_>>()); if g != w { return Err(bad("difference (as right operand)", g, w)) }
        let (g, w) = (v(&mut s.symmetric_difference(o)), m.symmetric_difference(om).copied().collect::<Vec<_>>()); if g != w { return Err(bad("symmetric_difference", g, w)) }
        let (g, w) = (v(&mut o.symmetric_difference(s)), m.symmetric_difference(om).copied().collect::<Vec<_>>()); if g != w { return Err(bad("symmetric_difference (as right operand)", g, w)) }
    }
    Ok(items)
}

/// Signatures are no part of this property: the signed-object routes are driven with a signer that hands out the
/// pool's public keys and a constant octet string as every signature (no object built here is ever validated).
struct CheapSigner<'a>(&'a PoolSigner);
impl Signer for CheapSigner<'_> {
    type KeyId = Kid;
    type Error = std::io::Error;
    fn create_key(&self, a: PublicKeyFormat) -> Result<Kid, std::io::Error> { self.0.create_key(a) }
    fn get_key_info(&self, k: &Kid) -> Result<PublicKey, KeyError<std::io::Error>> { self.0.get_key_info(k) }
    fn destroy_key(&self, k: &Kid) -> Result<(), KeyError<std::io::Error>> { self.0.destroy_key(k) }
    fn sign<Alg: SignatureAlgorithm, D: AsRef<[u8]> + ?Sized>(&self, _k: &Kid, alg: Alg, _d: &D) -> Result<Signature<Alg>, SigningError<std::io::Error>> {
        Ok(Signature::new(alg, bytes::Bytes::from_static(&[0x5a; 256])))
    }
    fn sign_one_off<Alg: SignatureAlgorithm, D: AsRef<[u8]> + ?Sized>(&self, alg: Alg, _d: &D) -> Result<(Signature<Alg>, PublicKey), std::io::Error> {
        Ok((Signature::new(alg, bytes::Bytes::from_static(&[0x5a; 256])), self.0.public(7)))
    }
    fn rand(&self, target: &mut [u8]) -> Result<(), std::io::Error> { for b in target.iter_mut() { *b = 0x5a } Ok(()) }
}
fn rsync(s: &str) -> rpki::uri::Rsync { rpki::uri::Rsync::from_str(s).unwrap() }
fn sigobj_builder() -> SignedObjectBuilder {
    let mut b = SignedObjectBuilder::new(123u64.into(), Validity::new(Time::utc(2024, 1, 1, 0, 0, 0), Time::utc(2034, 1, 1, 0, 0, 0)),
        rsync("rsync://example.com/ca/ca.crl"), rsync("rsync://example.com/parent/ca.cer"), rsync("rsync://example.com/ca/object"));
    b.set_signing_time(Time::utc(2024, 6, 1, 0, 0, 0));
    b
}
/// A CMS signed object around `content`, written with the independent encoder; `cert` is an EE certificate taken from
/// a library-built object (decoding does not verify the signature or the certificate's resources).
fn signed_object_der(ect: &[u64], content: Vec<u8>, cert: &[u8], ski: &[u8]) -> Vec<u8> {
    let attrs = vec![der::attr_content_type(ect), der::attr_message_digest(&sha256(&content)), der::attr_signing_time(der::utctime(der::Civil { y: 2024, mo: 6, d: 1, h: 0, mi: 0, s: 0 }))];
    der::signed_data(&der::SignedDataParts { version: 3, digest_alg_set: der::set_unsorted(&[der::alg_sha256(false)]), econtent_type: ect.to_vec(), econtent: content,
        certificates: vec![cert.to_vec()], crls: vec![], si_version: 3, sid: ski.to_vec(), si_digest_alg: der::alg_sha256(false), signed_attrs: attrs,
        sig_alg: der::alg_rsa_encryption(), signature: vec![0x5a; 256] })
}
fn show_asns(l: &[u32]) -> String { format!("[{}]", l.iter().map(|x| format!("AS{x}")).collect::<Vec<_>>().join(", ")) }
const SIZE_CLASS: [&str; 6] = ["set-of-0-items", "set-of-1-item", "set-of-2-items", "set-of-3-items", "set-of-4-items", "set-of-5-or-more-items"];

fn routes_spaces(ctx: &Ctx, t0: &std::time::Instant) {
    ctx.assume("signatures are no part of C13: the signed-object routes (AspaBuilder / RoaBuilder finalize, the CMS wrapper of independently encoded content) carry a constant octet string as signature; the objects are decoded, never validated");
    let thorough = ctx.tier.is_thorough();
    let pool = PoolSigner::load();
    let signer = CheapSigner(&pool);
    // ASN menu: DER INTEGER contents of 1, 2, 3 and 5 octets (00, 00c8, 010000, 00ffffffff), so that numeric order, order of
    // the encodings and order of the encoded lengths all differ
    let menu: [u32; 4] = [0, 200, 65536, u32::MAX];
    let sc = set_ctx(&menu);
    let mut idx = Vec::new();
    let lists3: Vec<Vec<u32>> = (0..seq_count(4, 3)).map(|i| { seq_at(4, 3, i, &mut idx); idx.iter().map(|&k| menu[k]).collect() }).collect();

    // --------------------------------------------------------------------------- routes.aspa_builder
    let op_len: u32 = ctx.tier.pick(3, 4);
    let sp = ctx.space("routes.aspa_builder",
        "AspaBuilder as a state machine: customer in {AS64496, a menu ASN} x construction form {empty(), new(Vec) for EVERY list of <= 3 menu ASNs (sorted, unsorted, with duplicates); thorough: also new(&[Asn])} x EVERY sequence of <= 3 (thorough 4) add_provider calls over the 4-ASN menu {0, 200, 65536, MAX}, then finalize; the SmallAsnSet handed out by content().provider_as_set().to_set() must obey the set laws (strictly ascending, duplicate-free, len / contains / IntoIterator consistent, equal to FromIterator of its own items, union / intersection / difference / symmetric_difference with all 32 subsets of {0, 200, 201, 65536, MAX} in both argument orders equal to BTreeSet) and must be the set of the items the builder accepted (construction list + additions answered Ok); ProviderAsSet::iter / len agree with it; the same laws and equality for the set obtained by Aspa::decode (strict and not) of the built object's own encoding and through Serialize -> Deserialize, whenever those accept; the builder's verdicts themselves are counted against the set model, not judged; non-trivial = cases whose accepted items, in the order given, are not already strictly ascending");
    {
        let opseqs: Vec<Vec<u32>> = (0..seq_count(4, op_len)).map(|i| { seq_at(4, op_len, i, &mut idx); idx.iter().map(|&k| menu[k]).collect() }).collect();
        let n_forms = 1 + lists3.len() * if thorough { 2 } else { 1 };
        let customers = [64496u32, menu[1]];
        let n_cases = customers.len() * n_forms * opseqs.len();
        let verdict_diffs = AtomicU64::new(0);
        batched(ctx, n_cases, 8192, |ci, fl| {
            let mut oc: Oc = BTreeMap::new();
            let (cust, rest) = (customers[ci % customers.len()], ci / customers.len());
            let (form, ops) = (rest % n_forms, &opseqs[rest / n_forms]);
            let list: Option<&Vec<u32>> = if form == 0 { None } else { Some(&lists3[(form - 1) % lists3.len()]) };
            let as_slice = form > lists3.len();
            let plan = format!("customer=AS{cust} ; {} ; {}finalize", match list { None => "AspaBuilder::empty()".to_string(), Some(l) => format!("AspaBuilder::new({} {})", if as_slice { "&" } else { "vec" }, show_asns(l)) },
                ops.iter().map(|x| format!("add_provider(AS{x}) ; ")).collect::<String>());
            // build: (object, accepted items in order, verdict log, verdicts differing from the set model)
            let built = guard(|| {
                let c = Asn::from_u32(cust);
                let mut accepted: Vec<u32> = Vec::new(); let mut log: Vec<String> = Vec::new(); let mut model: BTreeSet<u32> = BTreeSet::new(); let mut diffs = 0u64;
                let mut b = match list {
                    None => AspaBuilder::empty(c),
                    Some(l) => {
                        let v: Vec<Asn> = l.iter().map(|&x| Asn::from_u32(x)).collect();
                        let model_ok = l.iter().all(|x| model.insert(*x));
                        match if as_slice { AspaBuilder::new(c, v.as_slice()) } else { AspaBuilder::new(c, v) } {
                            Ok(b) => { if !model_ok { diffs += 1 } accepted.extend(l.iter().copied()); log.push("new -> Ok".into()); b }
                            Err(_) => { if model_ok { diffs += 1 } return (None, accepted, vec!["new -> refused".to_string()], diffs) }
                        }
                    }
                };
                for &x in ops.iter() {
                    let model_ok = model.insert(x);
                    match b.add_provider(Asn::from_u32(x)) {
                        Ok(()) => { if !model_ok { diffs += 1 } accepted.push(x); log.push(format!("add_provider(AS{x}) -> Ok")) }
                        Err(_) => { if model_ok { diffs += 1; model.remove(&x); } log.push(format!("add_provider(AS{x}) -> refused")) }
                    }
                }
                (b.finalize(sigobj_builder(), &signer, &Kid(0)).ok(), accepted, log, diffs)
            });
            let (aspa, accepted, log, diffs) = match built { Ok(x) => x, Err(p) => { fl.fail("C13.routes.nopanic", &|| plan.clone(), || p); sp.outcome("panicked"); return } };
            verdict_diffs.fetch_add(diffs, AtomicOrdering::Relaxed);
            let Some(aspa) = aspa else { bump(&mut oc, if log.last().map(|l| l.starts_with("new")).unwrap_or(false) { "construction-list-refused" } else { "finalize-failed" }); sp.merge_outcomes(&oc); return };
            if log.iter().any(|l| l.ends_with("refused")) { bump(&mut oc, "an-addition-was-refused") }
            if !accepted.windows(2).all(|w| w[0] < w[1]) { sp.nontrivial(1) }
            let wit = |route: &str| format!("{plan} ; {route}   [builder verdicts: {}]", log.join(", "));
            let want: Vec<u32> = accepted.iter().copied().collect::<BTreeSet<u32>>().into_iter().collect();
            let set = match guard(|| aspa.content().provider_as_set().to_set()) { Ok(s) => s, Err(p) => { fl.fail("C13.routes.nopanic", &|| wit("content().provider_as_set().to_set()"), || p); return } };
            bump(&mut oc, SIZE_CLASS[set.len().min(5)]);
            fl.check("C13.routes.asnset.laws", &|| wit("content().provider_as_set().to_set()"), || set_laws(&set, &sc).map(|_| ()));
            fl.check("C13.routes.asnset.items", &|| wit("content().provider_as_set()"), || {
                let pas = aspa.content().provider_as_set();
                let got: Vec<u32> = set.iter().map(|a| a.into_u32()).collect();
                if got != want { return Err(format!("to_set() iterates as {got:?}; the builder accepted the items {accepted:?}, i.e. the set {want:?}")) }
                let it: Vec<u32> = pas.iter().map(|a| a.into_u32()).collect();
                if it != got || pas.len() != got.len() { return Err(format!("ProviderAsSet::iter() yields {it:?} and len() = {}, to_set() holds {got:?}", pas.len())) }
                if pas.to_set() != set || aspa.content().clone().provider_as_set().to_set() != set { return Err("a second to_set() / to_set() of a clone differs".into()) }
                if aspa.content().customer_as().into_u32() != cust { return Err(format!("customer_as() = {}", aspa.content().customer_as())) }
                Ok(())
            });
            // the decode routes on the object's own encoding
            let bytes = aspa.to_captured().into_bytes();
            let mut twins: Vec<(&'static str, Option<Aspa>)> = Vec::new();
            for (name, strict) in [("Aspa::decode(its encoding, strict) ; content().provider_as_set().to_set()", true), ("Aspa::decode(its encoding, not strict) ; content().provider_as_set().to_set()", false)] {
                match guard(|| Aspa::decode(bytes.clone(), strict)) { Ok(r) => twins.push((name, r.ok())), Err(p) => fl.fail("C13.routes.nopanic", &|| wit(name), || p) }
            }
            match guard(|| serde_json::to_value(&aspa).ok().and_then(|v| serde_json::from_value::<Aspa>(v).ok())) {
                Ok(r) => twins.push(("Serialize ; Deserialize ; content().provider_as_set().to_set()", r)), Err(p) => fl.fail("C13.routes.nopanic", &|| wit("Serialize ; Deserialize"), || p) }
            for (name, tw) in &twins {
                match tw {
                    None => bump(&mut oc, "own-encoding-refused-by-a-decode-route"),
                    Some(d) => { bump(&mut oc, "own-encoding-accepted-by-a-decode-route");
                        let ds = match guard(|| d.content().provider_as_set().to_set()) { Ok(s) => s, Err(p) => { fl.fail("C13.routes.nopanic", &|| wit(name), || p); continue } };
                        fl.check("C13.routes.asnset.laws", &|| wit(name), || set_laws(&ds, &sc).map(|_| ()));
                        fl.check("C13.routes.asnset.agree", &|| wit(name), || if ds == set && h(&ds) == h(&set) && ds.cmp(&set) == Ordering::Equal { Ok(()) } else {
                            Err(format!("the decoded twin's set iterates as {:?}, the built object's as {:?}", ds.iter().map(|a| a.into_u32()).collect::<Vec<_>>(), set.iter().map(|a| a.into_u32()).collect::<Vec<_>>())) });
                    }
                }
            }
            sp.merge_outcomes(&oc);
        });
        sp.evals(n_cases as u64 * 4);
        sp.set("asn_menu", json!(menu)); sp.set("construction_forms", json!(n_forms)); sp.set("operation_sequences", json!(opseqs.len())); sp.set("customers", json!(customers));
        sp.set("builder_verdicts_differing_from_the_set_model_counted_not_judged", json!(verdict_diffs.load(AtomicOrdering::Relaxed)));
        sp.sample_str(|| "customer=AS64496 ; AspaBuilder::new(vec [AS4294967295, AS0, AS200]) ; add_provider(AS4294967295) ; finalize ; content().provider_as_set().to_set() must iterate as [0, 200, 4294967295] whatever the builder answered".into());
        sp.done(true, &format!("{} customers x {n_forms} construction forms (all lists of <= 3 over 4 ASNs) x {} add_provider sequences of length <= {op_len} = {n_cases} built objects x 4 routes to the set", customers.len(), opseqs.len()));
        lap(t0, &sp.name);
    }

    // ---------------------------------------------------------------------------- routes.aspa_decode
    let sp = ctx.space("routes.aspa_decode",
        "Aspa::decode (strict and not) and Deserialize of INDEPENDENTLY ENCODED signed objects (engine::der; the EE certificate is taken from a library-built ASPA) whose provider list is EVERY sequence of <= 4 (thorough 5) menu ASNs - empty, sorted, unsorted, with duplicates, containing the customer - for customer in {AS64496, a menu ASN}: whatever the decoder accepts must hand out, through content().provider_as_set().to_set(), a set that obeys the set laws and holds exactly the encoded items; iter() / len() agree; the decoder's verdict is counted against the profile (non-empty, strictly ascending, customer not a provider), not judged; non-trivial = accepted objects");
    {
        let dl: u32 = ctx.tier.pick(4, 5);
        let lists: Vec<Vec<u32>> = (0..seq_count(4, dl)).map(|i| { seq_at(4, dl, i, &mut idx); idx.iter().map(|&k| menu[k]).collect() }).collect();
        let template = guard(|| AspaBuilder::new(Asn::from_u32(64496), vec![Asn::from_u32(64497)]).ok().and_then(|b| b.finalize(sigobj_builder(), &signer, &Kid(0)).ok()));
        match template {
            Ok(Some(t)) => {
                let cert = t.cert().to_captured().as_slice().to_vec();
                let ski = t.cert().subject_key_identifier().as_slice().to_vec();
                let customers = [64496u32, menu[1]];
                let verdict_diffs = AtomicU64::new(0);
                batched(ctx, lists.len() * customers.len(), 4096, |ci, fl| {
                    let mut oc: Oc = BTreeMap::new();
                    let (l, cust) = (&lists[ci / customers.len()], customers[ci % customers.len()]);
                    let bytes = bytes::Bytes::from(signed_object_der(der::OID_CT_ASPA, der::aspa_content(Some(1), cust as u128, &l.iter().map(|&x| x as u128).collect::<Vec<_>>()), &cert, &ski));
                    let profile_ok = !l.is_empty() && l.windows(2).all(|w| w[0] < w[1]) && !l.contains(&cust);
                    for route in 0..3usize {
                        let name = ["Aspa::decode(strict)", "Aspa::decode(not strict)", "Deserialize"][route];
                        let wit = || format!("independently encoded ASPA: customer=AS{cust} providers={} ; {name} ; content().provider_as_set().to_set()", show_asns(l));
                        let got = guard(|| match route { 0 => Aspa::decode(bytes.clone(), true).ok(), 1 => Aspa::decode(bytes.clone(), false).ok(),
                            _ => { use base64::Engine as _; serde_json::from_value::<Aspa>(serde_json::Value::String(base64::engine::general_purpose::STANDARD.encode(&bytes))).ok() } });
                        match got {
                            Err(p) => fl.fail("C13.routes.nopanic", &wit, || p),
                            Ok(None) => { bump(&mut oc, "refused"); if profile_ok { verdict_diffs.fetch_add(1, AtomicOrdering::Relaxed); } }
                            Ok(Some(a)) => {
                                bump(&mut oc, "accepted"); sp.nontrivial(1); if !profile_ok { verdict_diffs.fetch_add(1, AtomicOrdering::Relaxed); }
                                let set = match guard(|| a.content().provider_as_set().to_set()) { Ok(s) => s, Err(p) => { fl.fail("C13.routes.nopanic", &wit, || p); continue } };
                                bump(&mut oc, SIZE_CLASS[set.len().min(5)]);
                                fl.check("C13.routes.asnset.laws", &wit, || set_laws(&set, &sc).map(|_| ()));
                                fl.check("C13.routes.asnset.items", &wit, || {
                                    let pas = a.content().provider_as_set();
                                    let got: Vec<u32> = set.iter().map(|x| x.into_u32()).collect();
                                    if got != *l { return Err(format!("to_set() iterates as {got:?}, the object encodes {l:?}")) }
                                    let it: Vec<u32> = pas.iter().map(|x| x.into_u32()).collect();
                                    if it != got || pas.len() != got.len() { return Err(format!("ProviderAsSet::iter() yields {it:?} and len() = {}, to_set() holds {got:?}", pas.len())) }
                                    if a.content().customer_as().into_u32() != cust { return Err(format!("customer_as() = {}", a.content().customer_as())) }
                                    Ok(())
                                });
                            }
                        }
                    }
                    sp.merge_outcomes(&oc);
                });
                sp.evals((lists.len() * customers.len() * 3) as u64);
                sp.set("decoder_verdicts_differing_from_the_profile_counted_not_judged", json!(verdict_diffs.load(AtomicOrdering::Relaxed)));
                sp.sample_str(|| "independently encoded ASPA: customer=AS64496 providers=[AS200, AS0] -> the decoder must refuse it or hand out a lawful set".into());
                sp.done(true, &format!("{} provider lists (all sequences of <= {dl} over 4 ASNs) x 2 customers x 3 decode routes", lists.len()));
            }
            other => { ctx.fail("C13.routes.nopanic", "AspaBuilder::new(AS64496, [AS64497]) ; finalize", format!("the template object could not be built: {:?}", other.map(|o| o.is_some()))); sp.done(false, "template object could not be built") }
        }
        lap(t0, &sp.name);
    }

    // ------------------------------------------------------------------------------------ routes.roa
    let sp = ctx.space("routes.roa",
        "ROA routes to Prefix / MaxLenPrefix / RouteOrigin. (a) RoaBuilder (no signing: to_attestation): family x EVERY prefix length 0..=128 (the builder's own limit) x 4 address patterns (all ones, zero, alternating, lowest bit) x 3 push forms (push_addr, push_v4_addr / push_v6_addr, push_v4 / push_v6 of RoaIpAddress::new(resources::Prefix::new(..))) with one entry per max-len in {None, 0, len-1, len, len+1, 31, 32, 33, 127, 128, 129, 255}, plus mixed-family builders: every origin iter_origins() yields obeys the origin laws; the origins yielded are exactly the entries that are valid by the integer model (length <= family, length <= max-len <= family), host bits cleared, in order; every FriendlyRoaIpAddress from iter() whose length fits the family converts (From) to a lawful Prefix equal to the constructed one and its text parses as MaxLenPrefix to the constructed twin when the entry is valid; a conversion that panics for a length beyond the family (documented expect) is an outcome class. (b) Roa::decode (strict and not) of independently encoded objects with one address: family x every BIT STRING length 0..=40 / 0..=136 x 3 patterns x max-len in the set above and 256: what the decoder accepts is judged the same way. (c) From<Prefix> for MaxLenPrefix and for repository::resources::IpBlock over the prefix domain; non-trivial = entries valid by the model");
    {
        let asn = 64496u32;
        let pats = |w: u32| -> [u128; 4] { let full = low_ones(w); [full, 0, full / 3, 1] };
        let mls = |len: u8| -> Vec<Option<u8>> { let mut v: Vec<Option<u8>> = vec![None, Some(0), Some(len.saturating_sub(1)), Some(len), Some(len.saturating_add(1)), Some(31), Some(32), Some(33), Some(127), Some(128), Some(129), Some(255)]; v.sort(); v.dedup(); v };
        let valid = |v4: bool, len: u8, ml: Option<u8>| len <= fam_max(v4) && ml.map(|m| len <= m && m <= fam_max(v4)).unwrap_or(true);
        let twin = |v4: bool, a: u128, len: u8, ml: Option<u8>| -> (MP, u8, u32) { (MP { v4, addr: a & !low_ones(fam_w(v4) - len as u32), len }, ml.unwrap_or(len), asn) };
        // judge what one attestation hands out for the entries pushed (family, address, length, max-len) in order
        let judge = |fl: &mut Fails, oc: &mut Oc, att: &rpki::repository::roa::RouteOriginAttestation, entries: &[(bool, u128, u8, Option<u8>)], how: &dyn Fn() -> String, strict_equivalence: bool| {
            // entries in the order the attestation lists them: v4 first
            let ordered: Vec<&(bool, u128, u8, Option<u8>)> = entries.iter().filter(|e| e.0).chain(entries.iter().filter(|e| !e.0)).collect();
            let expect: Vec<(MP, u8, u32)> = ordered.iter().filter(|e| valid(e.0, e.2, e.3)).map(|e| twin(e.0, e.1, e.2, e.3)).collect();
            match guard(|| att.iter_origins().collect::<Vec<RouteOrigin>>()) {
                Err(p) => fl.fail("C13.routes.nopanic", &|| format!("{} ; iter_origins()", how()), || p),
                Ok(os) => {
                    let mut got = Vec::new();
                    for (k, o) in os.iter().enumerate() {
                        match guard(|| origin_laws(*o)) {
                            Ok(Ok(t)) => got.push(t),
                            Ok(Err(e)) | Err(e) => fl.fail("C13.routes.origin.laws", &|| format!("{} ; iter_origins() item {k}", how()), || e),
                        }
                    }
                    bump(oc, if os.is_empty() { "no-origin-yielded" } else { "origins-yielded" });
                    if got.len() == os.len() && got != expect && (strict_equivalence || !os.is_empty()) {
                        fl.fail("C13.routes.equivalence", &|| format!("{} ; iter_origins()", how()), || format!("yields {:?}; the entries valid by the integer model are {:?}",
                            got.iter().map(|t| format!("{}-{} AS{}", t.0.text(), t.1, t.2)).collect::<Vec<_>>(), expect.iter().map(|t| format!("{}-{} AS{}", t.0.text(), t.1, t.2)).collect::<Vec<_>>()));
                    }
                }
            }
            match guard(|| att.iter().collect::<Vec<_>>()) {
                Err(p) => fl.fail("C13.routes.nopanic", &|| format!("{} ; iter()", how()), || p),
                Ok(fs) => {
                    if fs.len() != ordered.len() { fl.fail("C13.routes.equivalence", &|| format!("{} ; iter()", how()), || format!("{} addresses listed, {} entries pushed", fs.len(), ordered.len())); return }
                    for (k, (f, e)) in fs.iter().zip(&ordered).enumerate() {
                        let (v4, a, len, ml) = **e;
                        let wit = || format!("{} ; iter() item {k} ({f}) ; Prefix::from", how());
                        match guard(|| Prefix::from(*f)) {
                            Err(p) => if len <= fam_max(v4) { fl.fail("C13.routes.nopanic", &wit, || p) } else { bump(oc, "friendly-address-beyond-the-family-refused-by-panic") },
                            Ok(p) => { bump(oc, "friendly-address-converted");
                                fl.check("C13.routes.prefix.laws", &wit, || prefix_laws(p).map(|_| ()));
                                if len <= fam_max(v4) { fl.check("C13.routes.equivalence", &wit, || { let o = observe(p); let want = twin(v4, a, len, None).0; if o == want { Ok(()) } else { Err(format!("converts to {}, the entry is {}", o.text(), want.text())) } }); }
                            }
                        }
                        // FriendlyRoaIpAddress has a text form of its own ("10.0.0.0/8/8-24": address/length from the resources
                        // formatter, then /length again); it is not one of the property's types, so whether that text reads as
                        // a MaxLenPrefix is counted, not judged - but if it does parse, the value must be the entry
                        if valid(v4, len, ml) {
                            let t = f.to_string(); let want = twin(v4, a, len, ml);
                            match guard(|| MaxLenPrefix::from_str(&t)) {
                                Ok(Ok(q)) => { bump(oc, "friendly-text-reads-as-a-max-len-prefix");
                                    fl.check("C13.routes.equivalence", &|| format!("{} ; iter() item {k} ; to_string() ; MaxLenPrefix::from_str", how()), || {
                                        if observe(q.prefix()) == want.0 && q.max_len() == ml { maxlen_laws(q).map(|_| ()) } else { Err(format!("{t} parses to {q:?}, the entry is {}-{:?}", want.0.text(), ml)) } }); }
                                Ok(Err(_)) => bump(oc, "friendly-text-does-not-read-as-a-max-len-prefix-(counted-not-judged)"),
                                Err(p) => fl.fail("C13.routes.nopanic", &|| format!("{} ; iter() item {k} ; to_string() ; MaxLenPrefix::from_str", how()), || p),
                            }
                        }
                    }
                }
            }
        };
        // (a) builder
        let work: Vec<(bool, u8)> = [true, false].into_iter().flat_map(|v4| (0..=128u8).map(move |l| (v4, l))).collect();
        let res: Vec<(Fails, Oc, u64, u64)> = work.par_iter().map(|&(v4, len)| {
            let mut fl = Fails::new(); let mut oc: Oc = BTreeMap::new(); let (mut ev, mut nt) = (0u64, 0u64);
            for (pi, &a) in pats(fam_w(v4)).iter().enumerate() { for form in 0..3usize {
                let entries: Vec<(bool, u128, u8, Option<u8>)> = mls(len).into_iter().map(|ml| (v4, a, len, ml)).collect();
                let how = || format!("RoaBuilder::new(AS{asn}) ; {} for address={} length={len} max_len in {:?} ; to_attestation()", ["push_addr(IpAddr, ..)", "push_v4_addr / push_v6_addr", "push_v4 / push_v6(RoaIpAddress::new(resources::Prefix::new(..)))"][form], ip(v4, a), mls(len));
                let att = guard(|| { let mut b = RoaBuilder::new(Asn::from_u32(asn));
                    for &(_, _, _, ml) in &entries { match (form, v4) {
                        (0, _) => b.push_addr(ip(v4, a), len, ml),
                        (1, true) => b.push_v4_addr(Ipv4Addr::from(a as u32), len, ml), (1, false) => b.push_v6_addr(Ipv6Addr::from(a), len, ml),
                        (_, true) => b.push_v4(RoaIpAddress::new(ResPrefix::new(ip(v4, a), len), ml)), (_, false) => b.push_v6(RoaIpAddress::new(ResPrefix::new(ip(v4, a), len), ml)),
                    } }
                    b.to_attestation() });
                ev += entries.len() as u64; nt += entries.iter().filter(|e| valid(e.0, e.2, e.3)).count() as u64;
                let _ = pi;
                match att { Err(p) => fl.fail("C13.routes.nopanic", &how, || p), Ok(att) => judge(&mut fl, &mut oc, &att, &entries, &how, true) }
            }}
            // mixed families in one builder, v6 pushed first
            if v4 && len <= 32 {
                let entries = vec![(false, low_ones(128), len.saturating_mul(4), Some(128u8)), (true, low_ones(32), len, None), (false, 1u128 << 127, 1, None), (true, 0, len, Some(32))];
                let how = || format!("RoaBuilder::new(AS{asn}) ; push_addr of {:?} ; to_attestation()", entries.iter().map(|e| format!("{}/{} max_len {:?}", ip(e.0, e.1), e.2, e.3)).collect::<Vec<_>>());
                ev += 4; nt += 4;
                match guard(|| { let mut b = RoaBuilder::new(Asn::from_u32(asn)); for e in &entries { b.push_addr(ip(e.0, e.1), e.2, e.3) } b.to_attestation() }) {
                    Err(p) => fl.fail("C13.routes.nopanic", &how, || p), Ok(att) => judge(&mut fl, &mut oc, &att, &entries, &how, true) }
            }
            (fl, oc, ev, nt)
        }).collect();
        for (fl, oc, ev, nt) in res { fl.flush(ctx); sp.merge_outcomes(&oc); sp.evals(ev); sp.nontrivial(nt) }
        // (b) decoder
        let template = guard(|| { let mut b = RoaBuilder::new(Asn::from_u32(asn)); b.push_addr(ip(true, 0x0a00_0000), 8, None); b.finalize(sigobj_builder(), &signer, &Kid(0)).ok() });
        let mut decoded = 0u64;
        match template {
            Ok(Some(t)) => {
                let cert = t.cert().to_captured().as_slice().to_vec();
                let ski = t.cert().subject_key_identifier().as_slice().to_vec();
                let work: Vec<(bool, u8)> = (0..=40u8).map(|l| (true, l)).chain((0..=136u8).map(|l| (false, l))).collect();
                let verdict_diffs = AtomicU64::new(0);
                let res: Vec<(Fails, Oc, u64, u64)> = work.par_iter().map(|&(v4, len)| {
                    let mut fl = Fails::new(); let mut oc: Oc = BTreeMap::new(); let (mut ev, mut nt) = (0u64, 0u64);
                    for pat in [0xffu8, 0x00, 0x55] {
                        let nbytes = (len as usize).div_ceil(8); let unused = (nbytes * 8 - len as usize) as u8;
                        let mut bits = vec![pat; nbytes]; if unused > 0 { let l = bits.len() - 1; bits[l] &= 0xffu8 << unused }
                        // the address these bits denote, in the family's width (meaningful when the length fits the family)
                        let w = fam_w(v4); let mut a: u128 = 0; for (i, b) in bits.iter().enumerate() { if (i as u32) < w / 8 { a |= (*b as u128) << (w - 8 - 8 * i as u32) } }
                        let mut m: Vec<Option<u128>> = mls(len).into_iter().map(|x| x.map(|y| y as u128)).collect(); m.push(Some(256));
                        for ml in m {
                            let ra = [der::RoaAddr { bits: bits.clone(), unused, max_len: ml }];
                            let content = if v4 { der::roa_content(None, asn as u128, Some(&ra), None) } else { der::roa_content(None, asn as u128, None, Some(&ra)) };
                            let bytes = bytes::Bytes::from(signed_object_der(der::OID_CT_ROA, content, &cert, &ski));
                            let ml8: Option<Option<u8>> = match ml { None => Some(None), Some(x) if x <= 255 => Some(Some(x as u8)), _ => None };
                            let ok_model = ml8.map(|m8| valid(v4, len, m8)).unwrap_or(false);
                            for strict in [true, false] {
                                ev += 1; if ok_model { nt += 1 }
                                let how = || format!("independently encoded ROA: AS{asn} family={} address bits={} ({len} bits) max_len={ml:?} ; Roa::decode({}) ; content()", if v4 { "IPv4" } else { "IPv6" }, rpki_verif::hex(&bits), if strict { "strict" } else { "not strict" });
                                match guard(|| Roa::decode(bytes.clone(), strict).ok()) {
                                    Err(p) => fl.fail("C13.routes.nopanic", &how, || p),
                                    Ok(None) => { bump(&mut oc, "decoder-refused"); if ok_model { verdict_diffs.fetch_add(1, AtomicOrdering::Relaxed); } }
                                    Ok(Some(r)) => { bump(&mut oc, "decoder-accepted");
                                        match ml8 { Some(m8) if len <= 128 => { if !ok_model { verdict_diffs.fetch_add(1, AtomicOrdering::Relaxed); } judge(&mut fl, &mut oc, r.content(), &[(v4, a, len, m8)], &how, ok_model) }
                                            _ => { verdict_diffs.fetch_add(1, AtomicOrdering::Relaxed); let n = guard(|| r.content().iter_origins().filter_map(|o| origin_laws(o).err()).collect::<Vec<_>>()); if let Ok(errs) = n { for e in errs { fl.fail("C13.routes.origin.laws", &how, || e) } } } }
                                    }
                                }
                            }
                        }
                    }
                    (fl, oc, ev, nt)
                }).collect();
                for (fl, oc, ev, nt) in res { fl.flush(ctx); sp.merge_outcomes(&oc); sp.evals(ev); sp.nontrivial(nt); decoded += ev }
                sp.set("decoder_verdicts_differing_from_the_model_counted_not_judged", json!(verdict_diffs.load(AtomicOrdering::Relaxed)));
            }
            other => ctx.fail("C13.routes.nopanic", "RoaBuilder::new(AS64496) ; push_addr(10.0.0.0, 8, None) ; finalize", format!("the template object could not be built: {:?}", other.map(|o| o.is_some()))),
        }
        // (c) From conversions over the prefix domain of prefix.relations (short lengths) and deep lengths
        let mut dom: Vec<MP> = Vec::new();
        for v4 in [true, false] { let w = fam_w(v4);
            for len in 0..=5u8 { for k in 0..(1u128 << len) { dom.push(MP { v4, addr: if len == 0 { 0 } else { k << (w - len as u32) }, len }) } }
            for len in 6..=fam_max(v4) { for a in [0u128, low_ones(w), low_ones(w) / 3] { dom.push(MP { v4, addr: a & !low_ones(w - len as u32), len }) } } }
        dom.sort(); dom.dedup();
        for m in &dom {
            sp.evals(2); sp.nontrivial(1);
            let Ok(Ok(p)) = guard(|| Prefix::new(m.ip(), m.len)) else { continue };
            ctx.check("C13.routes.maxlen.laws", || format!("MaxLenPrefix::from(Prefix {})", m.text()), || {
                let v = MaxLenPrefix::from(p); let (o, ml) = maxlen_laws(v)?;
                if o != *m || ml.is_some() || v != MaxLenPrefix::new(p, None).map_err(|e| e.to_string())? { return Err(format!("gives {v:?}")) }
                Ok(())
            });
            ctx.check("C13.routes.equivalence", || format!("repository::resources::IpBlock::from(Prefix {})", m.text()), || {
                let b = IpBlock::from(p);
                let shift = 128 - fam_w(m.v4); let (lo, hi) = (m.lo() << shift, (m.lo() << shift) | low_ones(128 - m.len as u32));
                if b.min().to_bits() != lo || b.max().to_bits() != hi { return Err(format!("the block spans {:032x}..={:032x}, the prefix {lo:032x}..={hi:032x} (addresses left-aligned in 128 bits)", b.min().to_bits(), b.max().to_bits())) }
                Ok(())
            });
            sp.outcome(if m.v4 { "conversion-of-a-v4-prefix" } else { "conversion-of-a-v6-prefix" });
        }
        sp.set("decoded_objects", json!(decoded)); sp.set("conversion_domain", json!(dom.len()));
        sp.sample_str(|| "RoaBuilder::new(AS64496) ; push_v4_addr(255.255.255.255, 24, max_len in {None, 0, 23, 24, 25, 31, 32, 33, ..}) ; to_attestation() ; iter_origins() must yield 255.255.255.0/24 with max-len 24 (None), 24, 25, 31, 32 and nothing else".into());
        sp.done(true, &format!("builder: 2 families x 129 lengths x 4 addresses x 3 push forms x <= 12 max-lens + 33 mixed builders; decoder: {decoded} decodes (41 + 137 bit-string lengths x 3 patterns x <= 13 max-lens x strict / not); {} prefixes through the From conversions", dom.len()));
        lap(t0, &sp.name);
    }

    // -------------------------------------------------------------------------------- routes.rtr_pdu
    let sp = ctx.space("routes.rtr_pdu",
        "rtr::pdu::Payload -> to_payload(): family x EVERY prefix-length octet 0..=255 x EVERY max-len octet 0..=255 x 3 addresses (all ones - host bits set -, zero, alternating), announce (and withdraw for the first address), both as constructed PDU (Ipv4Prefix::new / Ipv6Prefix::new) and READ FROM THE WIRE (pdu::Payload::read over hand-assembled octets; the two PDUs must be equal): a route origin that comes out obeys the origin laws; PDUs valid by the integer model (length <= max-len <= family maximum) must give exactly the origin built by the public constructors (host bits cleared), the others no lawless value; pdu::Payload::new(origin) -> to_payload() gives the origin back; ProviderAsns::try_from_iter(l).iter(), payload::Aspa through pdu::Payload::new -> to_payload() and the PDU read from the wire hand back every list l of <= 3 menu ASNs unchanged; non-trivial = PDUs valid by the model");
    {
        let asn = 65551u32;
        let work: Vec<(bool, u8)> = [true, false].into_iter().flat_map(|v4| (0..=255u8).map(move |l| (v4, l))).collect();
        let res: Vec<(Fails, Oc, u64, u64)> = work.par_iter().map(|&(v4, plen)| {
            let mut fl = Fails::new(); let mut oc: Oc = BTreeMap::new(); let (mut ev, mut nt) = (0u64, 0u64);
            let rt = tokio::runtime::Builder::new_current_thread().build().expect("runtime");
            let w = fam_w(v4); let full = low_ones(w);
            for (pi, a) in [full, 0, full / 3].into_iter().enumerate() { for ml in 0..=255u8 { for flags in [1u8, 0] {
                if flags == 0 && pi != 0 { continue }
                let ok_model = plen <= fam_max(v4) && plen <= ml && ml <= fam_max(v4);
                ev += 2; if ok_model { nt += 1 }
                let wit = |route: &str| format!("{route} {}(version 1, flags {flags}, prefix_len {plen}, max_len {ml}, {}, AS{asn}) ; to_payload()", if v4 { "Ipv4Prefix" } else { "Ipv6Prefix" }, ip(v4, a));
                let made = if v4 { pdu::Payload::V4(pdu::Ipv4Prefix::new(1, flags, plen, ml, Ipv4Addr::from(a as u32), Asn::from_u32(asn))) } else { pdu::Payload::V6(pdu::Ipv6Prefix::new(1, flags, plen, ml, Ipv6Addr::from(a), Asn::from_u32(asn))) };
                let mut wire: Vec<u8> = vec![1, if v4 { 4 } else { 6 }, 0, 0, 0, 0, 0, if v4 { 20 } else { 32 }, flags, plen, ml, 0];
                if v4 { wire.extend_from_slice(&(a as u32).to_be_bytes()) } else { wire.extend_from_slice(&a.to_be_bytes()) }
                wire.extend_from_slice(&asn.to_be_bytes());
                let read = guard(|| rt.block_on(async { let mut s: &[u8] = &wire; pdu::Payload::read(&mut s).await }));
                let read = match read { Ok(Ok(Ok(Some(p)))) => Some(p), Ok(_) => None, Err(p) => { fl.fail("C13.routes.nopanic", &|| wit("read from the wire:"), || p); None } };
                match &read { Some(p) if *p == made => {}, other => fl.fail("C13.routes.equivalence", &|| wit("read from the wire:"), || format!("pdu::Payload::read of {} gives {other:?}, the constructed PDU is {made:?}", rpki_verif::hex(&wire))) }
                for (route, p) in [("constructed", Some(&made)), ("read from the wire:", read.as_ref())] {
                    let Some(p) = p else { continue };
                    match guard(|| p.to_payload().ok()) {
                        Err(pn) => fl.fail("C13.routes.nopanic", &|| wit(route), || pn),
                        Ok(None) => { bump(&mut oc, "pdu-refused"); if ok_model { fl.fail("C13.routes.equivalence", &|| wit(route), || "a PDU that is valid by the integer model is refused".into()) } }
                        Ok(Some((action, pl))) => {
                            bump(&mut oc, if ok_model { "pdu-accepted" } else { "pdu-accepted-though-invalid-by-the-model" });
                            if action.is_announce() != (flags & 1 == 1) { fl.fail("C13.routes.equivalence", &|| wit(route), || format!("action {action:?} from flags {flags}")) }
                            match pl.to_origin() {
                                None => fl.fail("C13.routes.equivalence", &|| wit(route), || format!("a prefix PDU becomes {pl:?}")),
                                Some(o) => match guard(|| origin_laws(o)) {
                                    Ok(Ok(t)) => { let want = (MP { v4, addr: a & !low_ones(w - (plen as u32).min(w)), len: plen }, ml, asn);
                                        if ok_model && t != want { fl.fail("C13.routes.equivalence", &|| wit(route), || format!("gives {}-{} AS{}, the PDU says {}-{} AS{}", t.0.text(), t.1, t.2, want.0.text(), want.1, want.2)) }
                                        // and back: the PDU made from this origin gives the origin again
                                        if pi == 0 { fl.check("C13.routes.equivalence", &|| format!("{} ; pdu::Payload::new(1, {flags}, origin) ; to_payload()", wit(route)), || {
                                            let back = pdu::Payload::new(1, flags, PayloadRef::Origin(o)).to_payload().map_err(|_| "refused".to_string())?.1.to_origin();
                                            if back == Some(o) && back.map(|b| h(&b)) == Some(h(&o)) { Ok(()) } else { Err(format!("comes back as {back:?}, not {o:?}")) } }); }
                                    }
                                    Ok(Err(e)) | Err(e) => fl.fail("C13.routes.origin.laws", &|| wit(route), || e),
                                }
                            }
                        }
                    }
                }
            }}}
            (fl, oc, ev, nt)
        }).collect();
        for (fl, oc, ev, nt) in res { fl.flush(ctx); sp.merge_outcomes(&oc); sp.evals(ev); sp.nontrivial(nt) }
        // routes that hand out ASNs
        let rt = tokio::runtime::Builder::new_current_thread().build().expect("runtime");
        for l in &lists3 { for cust in [64496u32, menu[3]] {
            sp.evals(3);
            ctx.check("C13.routes.equivalence", || format!("ProviderAsns::try_from_iter({}) customer=AS{cust}", show_asns(l)), || {
                let v = |i: &mut dyn Iterator<Item = Asn>| i.map(|a| a.into_u32()).collect::<Vec<u32>>();
                let pa = pdu::ProviderAsns::try_from_iter(l.iter().map(|&x| Asn::from_u32(x))).map_err(|e| e.to_string())?;
                if v(&mut pa.iter()) != *l || pa.asn_count() as usize != l.len() || pa.is_empty() != l.is_empty() { return Err(format!("iter() yields {:?}, asn_count() = {}", v(&mut pa.iter()), pa.asn_count())) }
                let pl = Payload::aspa(Asn::from_u32(cust), pa.clone());
                let made = pdu::Payload::new(2, 1, pl.as_ref());
                let (action, back) = made.to_payload().map_err(|_| "pdu::Payload::new(aspa) ; to_payload() refused".to_string())?;
                let ba = back.as_aspa().ok_or("not an ASPA payload")?;
                if !action.is_announce() || ba.customer.into_u32() != cust || v(&mut ba.providers.iter()) != *l || back != pl || h(&back) != h(&pl) { return Err(format!("through the PDU it comes back as {back:?}")) }
                let mut wire: Vec<u8> = vec![2, 11, 1, 0]; wire.extend_from_slice(&(12 + 4 * l.len() as u32).to_be_bytes()); wire.extend_from_slice(&cust.to_be_bytes()); for x in l { wire.extend_from_slice(&x.to_be_bytes()) }
                let read = rt.block_on(async { let mut s: &[u8] = &wire; pdu::Payload::read(&mut s).await }).map_err(|e| e.to_string())?;
                match read { Ok(Some(p)) if p == made => {}, other => return Err(format!("read from the wire {} gives {other:?}", rpki_verif::hex(&wire))) }
                for &x in l.iter().chain([&cust]) { match Asn::from_str(&Asn::from_u32(x).to_string()) { Ok(q) if q.into_u32() == x => {}, other => return Err(format!("AS{x} parses back to {other:?}")) } }
                Ok(())
            });
            sp.outcome(if l.windows(2).all(|w| w[0] < w[1]) { "asn-list-ascending" } else { "asn-list-unsorted-or-repeating" });
        }}
        sp.sample_str(|| "constructed Ipv4Prefix(version 1, flags 1, prefix_len 24, max_len 24, 255.255.255.255, AS65551) ; to_payload() -> 255.255.255.0/24-24 AS65551; prefix_len 24, max_len 23 -> refused".into());
        sp.done(true, "2 families x 256 prefix lengths x 256 max-lens x 3 addresses (+ withdraw for one) x {constructed, read from the wire}; 85 ASN lists x 2 customers x 3 routes");
        lap(t0, &sp.name);
    }

    // ---------------------------------------------------------------------------------- routes.slurm
    let sp = ctx.space("routes.slurm",
        "SLURM JSON as a route to Prefix / MaxLenPrefix / RouteOrigin: prefix texts of EVERY length of both families at 2 addresses (zero, leading ones) x maxPrefixLength in {absent, 0, len-1, len, len+1, 31, 32, 33, 127, 128, 129, 255, 256} deserialized as PrefixAssertion, as PrefixFilter and inside a whole SlurmFile (from_str -> assertions.iter_payload(), filters.prefix): a value that comes out obeys the max-len prefix / prefix / origin laws; inputs valid by the integer model must give exactly the constructed twin, survive Serialize -> Deserialize unchanged and appear as the same origin in iter_payload(); non-trivial = inputs valid by the model");
    {
        let mut texts: Vec<MP> = Vec::new();
        for v4 in [true, false] { let w = fam_w(v4); for len in 0..=fam_max(v4) { for a in [0u128, low_ones(w)] { texts.push(MP { v4, addr: a & !low_ones(w - len as u32), len }) } } }
        texts.sort(); texts.dedup();
        let res: Vec<(Fails, Oc, u64, u64)> = texts.par_iter().map(|m| {
            let mut fl = Fails::new(); let mut oc: Oc = BTreeMap::new(); let (mut ev, mut nt) = (0u64, 0u64);
            let mut mls: Vec<Option<u32>> = vec![None, Some(0), Some((m.len as u32).saturating_sub(1)), Some(m.len as u32), Some(m.len as u32 + 1), Some(31), Some(32), Some(33), Some(127), Some(128), Some(129), Some(255), Some(256)];
            mls.sort(); mls.dedup();
            for ml in mls {
                let ok_model = ml.map(|x| m.len as u32 <= x && x <= fam_max(m.v4) as u32).unwrap_or(true);
                ev += 3; if ok_model { nt += 1 }
                let obj = match ml { None => format!("{{\"prefix\":\"{}\",\"asn\":64496}}", m.text()), Some(x) => format!("{{\"prefix\":\"{}\",\"asn\":64496,\"maxPrefixLength\":{x}}}", m.text()) };
                let wit = |route: &str| format!("{route} of {obj}");
                let ml8 = ml.map(|x| x.min(255) as u8);
                match guard(|| serde_json::from_str::<rpki::slurm::PrefixAssertion>(&obj).ok()) {
                    Err(p) => fl.fail("C13.routes.nopanic", &|| wit("PrefixAssertion::deserialize"), || p),
                    Ok(None) => { bump(&mut oc, "assertion-refused"); if ok_model { fl.fail("C13.routes.equivalence", &|| wit("PrefixAssertion::deserialize"), || "an assertion that is valid by the integer model is refused".into()) } }
                    Ok(Some(a)) => { bump(&mut oc, "assertion-accepted");
                        fl.check("C13.routes.maxlen.laws", &|| wit("PrefixAssertion::deserialize"), || {
                            let (o, got_ml) = maxlen_laws(a.prefix)?;
                            if ok_model && (o != *m || got_ml != ml8 || a.asn.into_u32() != 64496) { return Err(format!("gives {:?} AS{}", a.prefix, a.asn.into_u32())) }
                            Ok(())
                        });
                        fl.check("C13.routes.equivalence", &|| wit("PrefixAssertion::deserialize ; Serialize ; Deserialize"), || {
                            let js = serde_json::to_string(&a).map_err(|e| e.to_string())?;
                            match serde_json::from_str::<rpki::slurm::PrefixAssertion>(&js) { Ok(b) if b == a && h(&b.prefix) == h(&a.prefix) => Ok(()), other => Err(format!("{js} comes back as {other:?}")) }
                        });
                    }
                }
                match guard(|| serde_json::from_str::<rpki::slurm::PrefixFilter>(&format!("{{\"prefix\":\"{}\"}}", m.text())).ok()) {
                    Ok(Some(f)) => { fl.check("C13.routes.prefix.laws", &|| format!("PrefixFilter::deserialize of {{\"prefix\":\"{}\"}}", m.text()), || match f.prefix { Some(p) => { let o = prefix_laws(p)?; if o == *m { Ok(()) } else { Err(format!("gives {}", o.text())) } }, None => Err("no prefix".into()) }); }
                    Ok(None) => fl.fail("C13.routes.equivalence", &|| format!("PrefixFilter::deserialize of {{\"prefix\":\"{}\"}}", m.text()), || "a valid prefix is refused".into()),
                    Err(p) => fl.fail("C13.routes.nopanic", &|| format!("PrefixFilter::deserialize of {{\"prefix\":\"{}\"}}", m.text()), || p),
                }
                let file = format!("{{\"slurmVersion\":1,\"validationOutputFilters\":{{\"prefixFilters\":[{{\"prefix\":\"{}\"}}],\"bgpsecFilters\":[]}},\"locallyAddedAssertions\":{{\"prefixAssertions\":[{obj}],\"bgpsecAssertions\":[]}}}}", m.text());
                match guard(|| rpki::slurm::SlurmFile::from_str(&file).ok()) {
                    Err(p) => fl.fail("C13.routes.nopanic", &|| wit("SlurmFile::from_str around"), || p),
                    Ok(None) => { bump(&mut oc, "file-refused"); if ok_model { fl.fail("C13.routes.equivalence", &|| wit("SlurmFile::from_str around"), || "a file that is valid by the integer model is refused".into()) } }
                    Ok(Some(f)) => { bump(&mut oc, "file-accepted");
                        fl.check("C13.routes.origin.laws", &|| wit("SlurmFile::from_str ; assertions.iter_payload() around"), || {
                            let ps: Vec<Payload> = f.assertions.iter_payload().collect();
                            if ps.len() != 1 { return Err(format!("{} payload items", ps.len())) }
                            let o = ps[0].to_origin().ok_or("not an origin")?;
                            let t = origin_laws(o)?;
                            if ok_model && t != (*m, ml8.unwrap_or(m.len), 64496) { return Err(format!("gives {}-{} AS{}", t.0.text(), t.1, t.2)) }
                            match f.filters.prefix.first().and_then(|x| x.prefix) { Some(p) => { if prefix_laws(p)? != *m { return Err(format!("the filter's prefix is {p:?}")) } }, None => return Err("the filter has no prefix".into()) }
                            if ok_model && !f.filters.prefix[0].drop_origin(o) { return Err("the filter on the same prefix does not cover the assertion's origin".into()) }
                            match rpki::slurm::SlurmFile::from_str(&f.to_string()) { Ok(g) if g == f => Ok(()), other => Err(format!("to_string() parses back to {other:?}")) }
                        });
                    }
                }
            }
            (fl, oc, ev, nt)
        }).collect();
        for (fl, oc, ev, nt) in res { fl.flush(ctx); sp.merge_outcomes(&oc); sp.evals(ev); sp.nontrivial(nt) }
        sp.set("prefix_texts", json!(texts.len()));
        sp.sample_str(|| "PrefixAssertion::deserialize of {\"prefix\":\"255.255.0.0/16\",\"asn\":64496,\"maxPrefixLength\":15} -> refused; maxPrefixLength 16 -> 255.255.0.0/16-16".into());
        sp.done(true, &format!("{} prefix texts (every length of both families x 2 addresses) x <= 13 maxPrefixLength values x 3 deserialization routes", texts.len()));
        lap(t0, &sp.name);
    }
}

/// `SmallAsnSet` and `rtr::Payload` drawn through Arbitrary: further public routes to values of the property's types.
#[cfg(not(feature = "with-arbitrary"))]
fn arbitrary_routes_space(_ctx: &Ctx, _t0: &std::time::Instant) {}
#[cfg(feature = "with-arbitrary")]
fn arbitrary_routes_space(ctx: &Ctx, t0: &std::time::Instant) {
    use arbitrary::{Arbitrary, Unstructured};
    let sp = ctx.space("routes.arbitrary",
        "SmallAsnSet::arbitrary and rtr::payload::Payload::arbitrary on EVERY octet string of length <= 2 and on structured inputs: for sets, every sequence of <= 3 (thorough 4) ASNs out of {0, 200, 65536, MAX} spelled as Arbitrary's element stream (continue-octet 1 + four octets, little- and big-endian, end-octet 0) - sorted, unsorted and repeating; for payloads, a zero discriminant + family bit x every length octet x 3 address patterns x 7 max-len encodings: a set that is produced obeys the set laws, an origin that is produced obeys the origin laws; non-trivial = inputs that produce a value with at least 2 items / an origin");
    let menu: [u32; 4] = [0, 200, 65536, u32::MAX];
    let sc = set_ctx(&menu);
    let sl: u32 = ctx.tier.pick(3, 4);
    let mut inputs: Vec<Vec<u8>> = vec![vec![]];
    for l in 1..=2usize { for i in 0..(256u64.pow(l as u32)) { inputs.push((0..l).map(|k| (i >> (8 * k)) as u8).collect()) } }
    let mut idx = Vec::new();
    for i in 0..seq_count(4, sl) { seq_at(4, sl, i, &mut idx); for be in [false, true] { for tail in [vec![0u8], vec![]] {
        let mut v = Vec::new(); for &k in &idx { v.push(1u8); v.extend_from_slice(&if be { menu[k].to_be_bytes() } else { menu[k].to_le_bytes() }) } v.extend_from_slice(&tail); inputs.push(v) } } }
    inputs.sort(); inputs.dedup();
    let n_set_inputs = inputs.len();
    let pats: [[u8; 16]; 3] = [[0; 16], [0xff; 16], [0xaa; 16]];
    for disc in [[0u8; 4], [0x10, 0, 0, 0]] { for fam in [0u8, 1] { for lenb in 0..=255u8 { for pat in &pats { for ml in [[0u8, 0], [1, 0], [1, 32], [1, 33], [1, 128], [1, 129], [1, 255]] {
        let mut v = disc.to_vec(); v.extend_from_slice(&[fam, lenb]); v.extend_from_slice(pat); v.extend_from_slice(&ml); v.extend_from_slice(&[0xff; 4]); inputs.push(v) } } } } }
    let res: Vec<(Fails, Oc, u64)> = inputs.par_chunks(2048).enumerate().map(|(ck, chunk)| {
        let mut fl = Fails::new(); let mut oc: Oc = BTreeMap::new(); let mut nt = 0u64;
        for (k, data) in chunk.iter().enumerate() {
            let wit = || format!("input_hex={}", rpki_verif::hex(data));
            if ck * 2048 + k < n_set_inputs {
                match guard(|| SmallAsnSet::arbitrary(&mut Unstructured::new(data))) {
                    Err(p) => fl.fail("C13.routes.nopanic", &|| format!("SmallAsnSet::arbitrary {}", wit()), || p),
                    Ok(Err(_)) => bump(&mut oc, "set-not-produced"),
                    Ok(Ok(s)) => { bump(&mut oc, SIZE_CLASS[s.len().min(5)]); if s.len() >= 2 { nt += 1 }
                        fl.check("C13.routes.arbitrary.asnset", &|| format!("SmallAsnSet::arbitrary {}", wit()), || set_laws(&s, &sc).map(|_| ())); }
                }
            }
            match guard(|| Payload::arbitrary(&mut Unstructured::new(data))) {
                Err(p) => fl.fail("C13.routes.nopanic", &|| format!("rtr::Payload::arbitrary {}", wit()), || p),
                Ok(Err(_)) => bump(&mut oc, "payload-not-produced"),
                Ok(Ok(p)) => match p.to_origin() { None => bump(&mut oc, "payload-of-another-kind"),
                    Some(o) => { bump(&mut oc, "origin-produced"); nt += 1; fl.check("C13.routes.arbitrary.origin", &|| format!("rtr::Payload::arbitrary {}", wit()), || origin_laws(o).map(|_| ())); } }
            }
        }
        (fl, oc, nt)
    }).collect();
    for (fl, oc, nt) in res { fl.flush(ctx); sp.merge_outcomes(&oc); sp.nontrivial(nt) }
    sp.evals((inputs.len() + n_set_inputs) as u64);
    sp.set("set_inputs", json!(n_set_inputs)); sp.set("inputs", json!(inputs.len()));
    sp.sample_str(|| "input_hex=01c8000000010000000000 -> SmallAsnSet::arbitrary draws the items [200, 0]; the set must iterate as [0, 200]".into());
    sp.done(true, &format!("{n_set_inputs} inputs to SmallAsnSet::arbitrary (all octet strings of length <= 2 + all ASN sequences of length <= {sl} in 4 spellings), {} inputs to Payload::arbitrary", inputs.len()));
    lap(t0, &sp.name);
}

// ---------------------------------------------------------------------- main



fn main() {
    let t0 = std::time::Instant::now();
    let ctx = Ctx::new("C13", "exploration");
    ctx.assume("std::net address parsing/formatting and integer parsing are trusted");
    ctx.assume("equal values must feed a Hasher the same sequence of write calls; judged with std DefaultHasher, an FxHash-style hasher sensitive to call chunking, and a digest of the call sequence itself");
    let thorough = ctx.tier.is_thorough();

    // ------------------------------------------------------ 1. prefix.construct
    let sp = ctx.space("prefix.construct",
        "boundary-dense addresses (zero, all-ones, every single bit, every run of leading / trailing ones, alternating, documentation addresses; thorough: also every pair of bits) per family x every length 0..=255 x {strict, relaxed} x {new_v4/new_v6, new(IpAddr)}; every constructed value is rendered and parsed back; non-trivial = (address, length, mode) combinations on which the typed constructor succeeds");
    let mut built: BTreeSet<MP> = BTreeSet::new();
    for v4 in [true, false] {
        let w = fam_w(v4);
        let dom = addr_domain(w, thorough);
        let res: Vec<(Fails, Oc, u64, Vec<MP>)> = dom.par_iter().map(|&a| {
            let mut fl = Fails::new(); let mut oc: Oc = BTreeMap::new(); let mut nt = 0u64; let mut vals = Vec::new();
            for len in 0..=255u8 { for relaxed in [false, true] {
                let wit = || format!("{} addr={} len={len}", if relaxed { "relaxed" } else { "strict" }, ip(v4, a));
                let in_fam = len as u32 <= w;
                let host = if in_fam { a & low_ones(w - len as u32) } else { 0 };
                let expect: Option<MP> = if !in_fam { None } else if relaxed { Some(MP { v4, addr: a & !host, len }) }
                    else if host == 0 { Some(MP { v4, addr: a, len }) } else { None };
                let typed = guard(|| match (v4, relaxed) {
                    (true, false) => Prefix::new_v4(Ipv4Addr::from(a as u32), len),
                    (true, true) => Prefix::new_v4_relaxed(Ipv4Addr::from(a as u32), len),
                    (false, false) => Prefix::new_v6(Ipv6Addr::from(a), len),
                    (false, true) => Prefix::new_v6_relaxed(Ipv6Addr::from(a), len),
                });
                let generic = guard(|| if relaxed { Prefix::new_relaxed(ip(v4, a), len) } else { Prefix::new(ip(v4, a), len) });
                let (typed, generic) = match (typed, generic) {
                    (Ok(t), Ok(g)) => (t, g),
                    (Err(p), _) | (_, Err(p)) => { fl.fail("C13.prefix.construct.nopanic", &wit, || p); continue }
                };
                if typed.is_ok() != generic.is_ok() || (typed.is_ok() && typed.as_ref().ok() != generic.as_ref().ok()) {
                    fl.fail("C13.prefix.construct.model", &wit, || "typed and IpAddr constructors disagree".into());
                }
                match (typed, expect) {
                    (Err(_), None) => bump(&mut oc, if !in_fam { "rejected-length" } else { "rejected-host-bits" }),
                    (Err(e), Some(m)) => fl.fail("C13.prefix.construct.model", &wit, || format!("rejected ({e}) although {} is a valid prefix", m.text())),
                    (Ok(p), None) => fl.fail("C13.prefix.construct.model", &wit, || format!("constructed {}/{} although {}", p.addr(), p.len(),
                        if !in_fam { "the length exceeds the family maximum" } else { "host bits are set" })),
                    (Ok(p), Some(m)) => {
                        nt += 1;
                        bump(&mut oc, if relaxed && host != 0 { "relaxed-cleared-host-bits" } else { "constructed" });
                        fl.check("C13.prefix.construct.model", &wit, || {
                            let o = prefix_invariant(p)?;
                            if o != m { return Err(format!("value is {} but the model says {}", o.text(), m.text())) }
                            if p.addr_and_len() != (m.ip(), m.len) || p.min_addr() != m.ip() { return Err("addr_and_len/min_addr".into()) }
                            if p.max_addr() != ip(v4, m.hi()) { return Err(format!("max_addr = {} but the range ends at {}", p.max_addr(), ip(v4, m.hi()))) }
                            Ok(())
                        });
                        fl.check("C13.prefix.text.roundtrip", &wit, || {
                            let t = p.to_string();
                            if t != m.text() { return Err(format!("Display gives {t:?}, expected {:?}", m.text())) }
                            match Prefix::from_str(&t) { Ok(q) if q == p => {}, other => return Err(format!("{t:?} parses back to {other:?}")) }
                            match Prefix::from_str_relaxed(&t) { Ok(q) if q == p => {}, other => return Err(format!("{t:?} parses back (relaxed) to {other:?}")) }
                            Ok(())
                        });
                        vals.push(m);
                    }
                }
            }}
            (fl, oc, nt, vals)
        }).collect();
        for (fl, oc, nt, vals) in res { fl.flush(&ctx); sp.merge_outcomes(&oc); sp.nontrivial(nt); built.extend(vals) }
        sp.evals(dom.len() as u64 * 256 * 2 * 2);
        sp.set(if v4 { "v4_addresses" } else { "v6_addresses" }, json!(dom.len()));
    }
    sp.set("distinct_values_built", json!(built.len()));
    sp.sample_str(|| "strict addr=255.255.255.254 len=31 -> 255.255.255.254/31; len=30 -> rejected (host bits); len=33 -> rejected (length)".into());
    sp.sample_str(|| "relaxed addr=::1 len=127 -> ::/127".into());
    sp.done(true, "every address of the boundary domain x every length 0..=255 x strict/relaxed x typed/IpAddr constructor"); lap(&t0, &sp.name);

    // ------------------------------------------------------ 2. maxlen.construct
    let sp = ctx.space("maxlen.construct",
        "every prefix length of each family at 2 addresses (zero, leading ones) x max-len in {None, 0..=255} x {new, saturating_new}; accessors and Display/FromStr of every value; non-trivial = (prefix, max-len) combinations that `new` accepts with an explicit max-len");
    {
        let mut bases: Vec<MP> = Vec::new();
        for v4 in [true, false] { let w = fam_w(v4); for len in 0..=fam_max(v4) { for a in [0u128, low_ones(w)] {
            bases.push(MP { v4, addr: a & !low_ones(w - len as u32), len });
        }}}
        bases.sort(); bases.dedup();
        let res: Vec<(Fails, Oc, u64)> = bases.par_iter().map(|&m| {
            let mut fl = Fails::new(); let mut oc: Oc = BTreeMap::new(); let mut nt = 0u64;
            let p = match guard(|| Prefix::new(m.ip(), m.len)) { Ok(Ok(p)) => p, _ => {
                fl.fail("C13.prefix.construct.model", &|| format!("strict addr={} len={}", m.ip(), m.len), || "a valid prefix could not be constructed".into());
                return (fl, oc, nt) } };
            let maxs: Vec<Option<u8>> = std::iter::once(None).chain((0..=255u8).map(Some)).collect();
            for ml in maxs {
                let wit = || format!("prefix={} max_len={ml:?}", m.text());
                let ok = match ml { None => true, Some(x) => m.len <= x && x <= fam_max(m.v4) };
                let check_val = |v: MaxLenPrefix, want: Option<u8>| -> Result<(), String> {
                    if v.prefix() != p || v.addr() != m.ip() || v.prefix_len() != m.len { return Err("prefix()/addr()/prefix_len() differ from the input prefix".into()) }
                    if v.max_len() != want { return Err(format!("max_len() = {:?}, expected {want:?}", v.max_len())) }
                    if v.resolved_max_len() != want.unwrap_or(m.len) { return Err(format!("resolved_max_len() = {}", v.resolved_max_len())) }
                    if let Some(x) = v.max_len() { if x < m.len || x > fam_max(m.v4) { return Err(format!("max-len {x} outside [{}, {}]", m.len, fam_max(m.v4))) } }
                    Ok(())
                };
                match guard(|| MaxLenPrefix::new(p, ml)) {
                    Err(pn) => fl.fail("C13.maxlen.new", &wit, || pn),
                    Ok(Err(e)) => { if ok { fl.fail("C13.maxlen.new", &wit, || format!("rejected: {e}")) } else { bump(&mut oc, "new-rejected") } }
                    Ok(Ok(v)) => {
                        if !ok { fl.fail("C13.maxlen.new", &wit, || "accepted although not prefix-len <= max-len <= family maximum".into()) }
                        else {
                            bump(&mut oc, "new-accepted"); if ml.is_some() { nt += 1 }
                            fl.check("C13.maxlen.new", &wit, || check_val(v, ml));
                            fl.check("C13.maxlen.text.roundtrip", &wit, || {
                                let t = v.to_string();
                                let want = match ml { None => m.text(), Some(x) => format!("{}-{x}", m.text()) };
                                if t != want { return Err(format!("Display gives {t:?}, expected {want:?}")) }
                                match MaxLenPrefix::from_str(&t) { Ok(q) if q == v => Ok(()), other => Err(format!("{t:?} parses back to {other:?}")) }
                            });
                        }
                    }
                }
                let sat_want = ml.map(|x| x.clamp(m.len, fam_max(m.v4)));
                match guard(|| MaxLenPrefix::saturating_new(p, ml)) {
                    Err(pn) => fl.fail("C13.maxlen.saturating_new", &wit, || pn),
                    Ok(v) => {
                        bump(&mut oc, if sat_want == ml { "saturating-unchanged" } else { "saturating-clamped" });
                        fl.check("C13.maxlen.saturating_new", &wit, || check_val(v, sat_want));
                    }
                }
            }
            (fl, oc, nt)
        }).collect();
        for (fl, oc, nt) in res { fl.flush(&ctx); sp.merge_outcomes(&oc); sp.nontrivial(nt) }
        sp.evals(bases.len() as u64 * 257 * 2);
        sp.set("prefixes", json!(bases.len()));
        sp.sample_str(|| "prefix=255.255.0.0/16 max_len=Some(15) -> new rejects, saturating_new gives 16".into());
        sp.done(true, "every length of both families at 2 addresses x {None, every max-len 0..=255} x {new, saturating_new}"); lap(&t0, &sp.name);
    }

    // ------------------------------------------------------- 3. text.deviations
    let sp = ctx.space("text.deviations",
        "rendered prefixes / max-len prefixes / ASNs with every single-character deletion, replacement and insertion over a 16-character alphabet (thorough: every pair of such deviations), plus every numeric spelling n, +n, 0n, 00n, -n, ' n', 'n ' (n = 0..=300) of the length and max-len fields, and zero-padded / all-nines fields of every length 0..=40 and 2^k-1..2^k+1 up to 4097 characters; each text offered to Prefix::from_str, Prefix::from_str_relaxed, MaxLenPrefix::from_str, Asn::from_str and (as a JSON string) to Asn::deserialize_from_str / deserialize_from_any, which must agree with Asn::from_str; accepted values must satisfy the construction invariants, equal the most liberal integer reading of the text and survive Display->FromStr; non-trivial = distinct texts accepted by at least one entry point");
    {
        let seeds: Vec<&str> = vec!["10.0.0.0/8", "0.0.0.0/0", "255.255.255.255/32", "192.168.0.0/16", "1.2.3.4/24", "::/0", "2001:db8::/32",
            "ffff:ffff:ffff:ffff:ffff:ffff:ffff:ffff/128", "::ffff:0:0/96", "10.0.0.0/8-24", "10.0.0.0/8-8", "10.0.0.0/8-32", "2001:db8::/32-48",
            "::/0-128", "0.0.0.0/0-0", "AS65000", "AS0", "as4294967295", "4294967295", "1"];
        let alpha: &[u8] = b"012359+-/ .:afAS";
        let deviate = |t: &[u8]| -> Vec<Vec<u8>> {
            let mut out = Vec::new();
            for i in 0..t.len() { let mut d = t.to_vec(); d.remove(i); out.push(d) }
            for i in 0..t.len() { for &c in alpha { if t[i] != c { let mut d = t.to_vec(); d[i] = c; out.push(d) } } }
            for i in 0..=t.len() { for &c in alpha { let mut d = t.to_vec(); d.insert(i, c); out.push(d) } }
            out
        };
        // one text -> oracles; returns whether any entry point accepted it
        let probe = |fl: &mut Fails, oc: &mut Oc, t: &str| -> bool {
            let wit = || format!("text={t:?}");
            let mut any = false;
            let mtext = model_prefix_text(t);
            for relaxed in [false, true] {
                let r = guard(|| if relaxed { Prefix::from_str_relaxed(t) } else { Prefix::from_str(t) });
                match r {
                    Err(p) => fl.fail("C13.fromstr.nopanic", &wit, || p),
                    Ok(Err(_)) => bump(oc, "prefix-rejected"),
                    Ok(Ok(p)) => {
                        any = true;
                        fl.check("C13.prefix.fromstr.value", &wit, || {
                            let o = prefix_invariant(p)?;
                            if let Some((v4, bits, len)) = mtext {
                                let want = MP { v4, addr: if relaxed && len <= fam_max(v4) { bits & !low_ones(fam_w(v4) - len as u32) } else { bits }, len };
                                if o != want { return Err(format!("parsed as {} but the text reads {}", o.text(), want.text())) }
                            }
                            let back = p.to_string();
                            match Prefix::from_str(&back) { Ok(q) if q == p => {}, other => return Err(format!("value renders as {back:?}, which parses to {other:?}")) }
                            Ok(())
                        });
                        bump(oc, if p.to_string() == t { "prefix-accepted-canonical" } else if relaxed { "prefix-accepted-relaxed-or-lenient" } else { "prefix-accepted-lenient-spelling" });
                    }
                }
            }
            match guard(|| MaxLenPrefix::from_str(t)) {
                Err(p) => fl.fail("C13.fromstr.nopanic", &wit, || p),
                Ok(Err(_)) => bump(oc, "maxlen-rejected"),
                Ok(Ok(v)) => {
                    any = true;
                    fl.check("C13.maxlen.fromstr.value", &wit, || {
                        let o = prefix_invariant(v.prefix())?;
                        if let Some(x) = v.max_len() { if x < o.len || x > fam_max(o.v4) { return Err(format!("max-len {x} outside [{}, {}]", o.len, fam_max(o.v4))) } }
                        let (pt, mt) = match t.split_once('-') { Some((a, b)) => (a, Some(b)), None => (t, None) };
                        if let Some((v4, bits, len)) = model_prefix_text(pt) {
                            if o != (MP { v4, addr: bits, len }) { return Err(format!("prefix parsed as {} but the text reads {}/{}", o.text(), ip(v4, bits), len)) }
                        }
                        match mt {
                            None => if v.max_len().is_some() { return Err(format!("max_len {:?} from a text without one", v.max_len())) },
                            Some(m) => if let Some(x) = lenient_uint(m, 255) { if v.max_len() != Some(x as u8) { return Err(format!("max_len {:?} but the text reads {x}", v.max_len())) } },
                        }
                        let back = v.to_string();
                        match MaxLenPrefix::from_str(&back) { Ok(q) if q == v => Ok(()), other => Err(format!("value renders as {back:?}, which parses to {other:?}")) }
                    });
                    bump(oc, if v.to_string() == t { "maxlen-accepted-canonical" } else { "maxlen-accepted-lenient-spelling" });
                }
            }
            match guard(|| Asn::from_str(t)) {
                Err(p) => fl.fail("C13.fromstr.nopanic", &wit, || p),
                Ok(Err(_)) => bump(oc, "asn-rejected"),
                Ok(Ok(a)) => {
                    any = true;
                    fl.check("C13.asn.fromstr.value", &wit, || {
                        let digits = if t.len() >= 2 && t.is_char_boundary(2) && t[..2].eq_ignore_ascii_case("as") { &t[2..] } else { t };
                        if let Some(x) = lenient_uint(digits, u32::MAX as u64) { if a.into_u32() as u64 != x { return Err(format!("parsed as {a} but the text reads {x}")) } }
                        let back = a.to_string();
                        match Asn::from_str(&back) { Ok(q) if q == a => Ok(()), other => Err(format!("value renders as {back:?}, which parses to {other:?}")) }
                    });
                    bump(oc, if a.to_string() == t { "asn-accepted-canonical" } else { "asn-accepted-other-spelling" });
                }
            }
            // Deserialize is another decode route: it must reject what FromStr rejects and give the same value otherwise
            fl.check("C13.prefix.serde.fromstr", &wit, || {
                let want = Prefix::from_str(t).ok();
                let got = serde_json::from_value::<Prefix>(serde_json::Value::String(t.to_string())).ok();
                let got2 = serde_json::from_str::<Prefix>(&serde_json::to_string(t).map_err(|e| e.to_string())?).ok();
                if got != want || got2 != want { return Err(format!("Deserialize gives {got:?} / {got2:?}, FromStr gives {want:?}")) }
                if let Some(p) = want { if serde_json::to_string(&p).ok() != serde_json::to_string(&p.to_string()).ok() { return Err("Serialize differs from the Display text".into()) } }
                Ok(())
            });
            // serde string spellings are siblings of FromStr: same verdict, same value
            fl.check("C13.asn.serde.fromstr", &wit, || {
                let want = Asn::from_str(t).ok();
                let json = serde_json::to_string(t).map_err(|e| e.to_string())?;
                for (which, name) in [(1u8, "deserialize_from_str"), (2, "deserialize_from_any")] {
                    let got = asn_from_json(&json, which);
                    if got != want { return Err(format!("{name} gives {got:?}, FromStr gives {want:?}")) }
                }
                if Asn::deserialize_from_str(serde_json::Value::String(t.to_string())).ok() != want { return Err("deserialize_from_str out of a serde_json::Value differs from FromStr".into()) }
                Ok(())
            });
            any
        };
        // level 1 (+ level 2 in thorough), per seed in parallel over first-level deviations
        let mut accepted_all: BTreeSet<String> = BTreeSet::new();
        for seed in &seeds {
            let l1 = { let mut v = vec![seed.as_bytes().to_vec()]; v.extend(deviate(seed.as_bytes())); v };
            let res: Vec<(Fails, Oc, u64, BTreeSet<String>)> = l1.par_iter().map(|d| {
                let mut fl = Fails::new(); let mut oc: Oc = BTreeMap::new(); let mut n = 0u64; let mut acc = BTreeSet::new();
                let mut run = |b: &[u8], fl: &mut Fails, oc: &mut Oc| { if let Ok(t) = std::str::from_utf8(b) { n += 1; if probe(fl, oc, t) { acc.insert(t.to_string()); } } };
                run(d, &mut fl, &mut oc);
                if thorough { for d2 in deviate(d) { run(&d2, &mut fl, &mut oc) } }
                (fl, oc, n, acc)
            }).collect();
            for (fl, oc, n, acc) in res { fl.flush(&ctx); sp.merge_outcomes(&oc); sp.evals(9 * n); accepted_all.extend(acc) }
        }
        // numeric spellings of the length / max-len fields
        let addrs = ["10.0.0.0", "0.0.0.0", "255.255.255.255", "128.0.0.0", "::", "2001:db8::", "ffff::", "ffff:ffff:ffff:ffff:ffff:ffff:ffff:ffff"];
        let spell = |n: u32| -> Vec<String> { vec![format!("{n}"), format!("+{n}"), format!("0{n}"), format!("00{n}"), format!("-{n}"), format!(" {n}"), format!("{n} ")] };
        let mut texts: Vec<String> = Vec::new();
        for a in addrs { for n in 0..=300u32 { for sx in spell(n) { texts.push(format!("{a}/{sx}")) } } }
        for (a, l) in [("10.0.0.0", 8u32), ("0.0.0.0", 0), ("255.255.255.255", 32), ("::", 0), ("2001:db8::", 32), ("ffff::", 16)] {
            for n in 0..=300u32 { for sx in spell(n) { texts.push(format!("{a}/{l}-{sx}")) } }
        }
        for n in [0u64, 1, 65535, 65536, 4294967295, 4294967296, 42949672950] { for pre in ["", "AS", "as", "aS", "As", "AS ", " AS", "ASAS", "A", "S"] {
            for sx in [format!("{n}"), format!("+{n}"), format!("0{n}"), format!("-{n}")] { texts.push(format!("{pre}{sx}")) } } }
        // character counts of the numeric fields: zero padding of every length 0..=40 and around the powers of two up to 4096
        let pads: Vec<usize> = (0..=40).chain([63, 64, 65, 127, 128, 129, 255, 256, 257, 1023, 1024, 1025, 4095, 4096, 4097]).collect();
        for &z in &pads { let zeros = "0".repeat(z); let nines = "9".repeat(z);
            texts.push(format!("10.0.0.0/{zeros}8")); texts.push(format!("10.0.0.0/8-{zeros}24")); texts.push(format!("2001:db8::/{zeros}32-{zeros}48"));
            texts.push(format!("AS{zeros}65000")); texts.push(format!("{zeros}65000")); texts.push(format!("AS{nines}")); texts.push(format!("10.0.0.0/{nines}"));
        }
        let res: Vec<(Fails, Oc, Option<String>)> = texts.par_iter().map(|t| {
            let mut fl = Fails::new(); let mut oc: Oc = BTreeMap::new();
            let any = probe(&mut fl, &mut oc, t);
            (fl, oc, if any { Some(t.clone()) } else { None })
        }).collect();
        for (fl, oc, acc) in res { fl.flush(&ctx); sp.merge_outcomes(&oc); sp.evals(9); if let Some(t) = acc { accepted_all.insert(t); } }
        sp.nontrivial(accepted_all.len() as u64);
        sp.set("seeds", json!(seeds)); sp.set("numeric_spellings", json!(texts.len()));
        let lenient: Vec<&String> = accepted_all.iter().filter(|t| t.contains("/+") || t.contains("-+") || t.contains("/00") || t.contains("-00")).take(8).collect();
        sp.set("examples_of_accepted_non_canonical_spellings", json!(lenient));
        sp.sample_str(|| "text=\"10.0.0.0/+8\" -> accepted as 10.0.0.0/8 (lenient integer syntax; value is valid, not a violation)".into());
        sp.sample_str(|| "text=\"10.0.0.0/33\" -> rejected; text=\"10.0.0.0/8-7\" -> rejected".into());
        sp.done(true, &format!("deviation bound {} on {} seeds + {} numeric spellings, 4 entry points each", if thorough { 2 } else { 1 }, seeds.len(), texts.len())); lap(&t0, &sp.name);
    }

    // ------------------------------------------------------ 4. prefix.relations
    let short: u8 = ctx.tier.pick(7, 9);
    let mut dom: Vec<MP> = Vec::new();
    for v4 in [true, false] {
        let w = fam_w(v4);
        for len in 0..=short { for k in 0..(1u128 << len) { dom.push(MP { v4, addr: if len == 0 { 0 } else { k << (w - len as u32) }, len }) } }
        let deep_lens: &[u8] = if v4 { &[9, 16, 24, 31, 32] } else { &[9, 32, 64, 96, 127, 128] };
        let full = low_ones(w);
        for &a in &[0u128, full, 1u128 << (w - 1), full / 3, (full / 3) * 2, full - 1, 1] {
            for &len in deep_lens { dom.push(MP { v4, addr: a & !low_ones(w - len as u32), len }) }
        }
    }
    dom.sort(); dom.dedup();
    // (a constructor that refuses a valid prefix is a violation of space 1; such an element is dropped here)
    let made: Vec<(MP, Prefix)> = dom.iter().filter_map(|m| match guard(|| Prefix::new(m.ip(), m.len)) {
        Ok(Ok(p)) => Some((*m, p)),
        _ => { ctx.fail("C13.prefix.construct.model", format!("strict addr={} len={}", m.ip(), m.len), "a valid prefix of the relation domain could not be constructed"); None }
    }).collect();
    let dom: Vec<MP> = made.iter().map(|x| x.0).collect();
    let prefixes: Vec<Prefix> = made.iter().map(|x| x.1).collect();
    let hashes: Vec<H3> = prefixes.iter().map(|p| guard(|| h(p)).unwrap_or((0, 0, 0))).collect();
    let n = dom.len();
    let sp = ctx.space("prefix.relations",
        "all ordered pairs and triples of the prefix domain (both families: every prefix up to the short length bound, plus lengths 9/16/24/31/32 resp. 9/32/64/96/127/128 at 7 addresses): covers = range inclusion within a family; cmp antisymmetric, Equal <=> == <=> same (family, address, length), == implies equal hash, a strictly covered prefix sorts before its cover; cmp transitive over all triples (relation matrix computed by n^2 real calls); non-trivial = pairs of different prefixes one of which covers the other + triples a<b<c of three different prefixes");
    let cmpm: Vec<i8> = (0..n * n).into_par_iter().map(|k| match guard(|| prefixes[k / n].cmp(&prefixes[k % n])) {
        Ok(Ordering::Less) => -1, Ok(Ordering::Equal) => 0, Ok(Ordering::Greater) => 1, Err(_) => 2 }).collect();
    batched(&ctx, n, 4096, |i, fl| {
        let (a, pa) = (dom[i], prefixes[i]);
        let (mut c_l, mut c_e, mut c_g, mut c_cov, mut c_dis, mut c_x, mut nt) = (0u64, 0u64, 0u64, 0u64, 0u64, 0u64, 0u64);
        for j in 0..n {
            let (b, pb) = (dom[j], prefixes[j]);
            let wit = || format!("a={} b={}", a.text(), b.text());
            let obs = guard(|| (pa.covers(pb), pa.cmp(&pb), pb.cmp(&pa), pa == pb, pa.partial_cmp(&pb)));
            let (cov, c, c_rev, eq, pc) = match obs { Ok(o) => o, Err(p) => { fl.fail("C13.prefix.relations.nopanic", &wit, || p); continue } };
            let m_cov = a.covers(b);
            if cov != m_cov { fl.fail("C13.prefix.covers", &wit, || format!("a.covers(b) = {cov}, range inclusion says {m_cov}")) }
            if c != c_rev.reverse() { fl.fail("C13.prefix.cmp.antisymmetric", &wit, || format!("cmp(a,b) = {c:?}, cmp(b,a) = {c_rev:?}")) }
            if pc != Some(c) { fl.fail("C13.prefix.cmp.antisymmetric", &wit, || format!("partial_cmp = {pc:?}, cmp = {c:?}")) }
            if (c == Ordering::Equal) != eq || eq != (a == b) { fl.fail("C13.prefix.cmp.eq", &wit, || format!("cmp = {c:?}, == is {eq}, same value: {}", a == b)) }
            if eq && hashes[i] != hashes[j] { fl.fail("C13.prefix.eq.hash", &wit, || format!("equal prefixes {}", hash_diff(hashes[i], hashes[j]))) }
            fl.check("C13.prefix.cmp.operators", &wit, || ops_vs_cmp(&pa, &pb, c as i8));
            if m_cov && a != b && c_rev != Ordering::Less { fl.fail("C13.prefix.cmp.specific_first", &wit, || format!("a covers b, yet cmp(b,a) = {c_rev:?}")) }
            match c { Ordering::Less => c_l += 1, Ordering::Equal => c_e += 1, Ordering::Greater => c_g += 1 }
            if a.v4 != b.v4 { c_x += 1 } else if m_cov || b.covers(a) { c_cov += 1; if i != j { nt += 1 } } else { c_dis += 1 }
        }
        // triples: transitivity on the matrix of real results
        let mut tri = 0u64;
        for j in 0..n {
            let ab = cmpm[i * n + j];
            if ab > 0 { continue }
            for k in 0..n {
                let bc = cmpm[j * n + k];
                if bc > 0 { continue }
                let ac = cmpm[i * n + k];
                let strict = ab < 0 || bc < 0;
                if ab == 2 || bc == 2 || ac == 2 { continue }   // panics are reported by the pair pass
                if (strict && ac != -1) || (!strict && ac != 0) {
                    fl.fail("C13.prefix.cmp.transitive", &|| format!("a={} b={} c={}", a.text(), dom[j].text(), dom[k].text()), || format!("cmp(a,b) = {ab}, cmp(b,c) = {bc}, but cmp(a,c) = {ac}"));
                }
                if ab < 0 && bc < 0 { tri += 1 }
            }
        }
        sp.evals(n as u64 + (n * n) as u64); sp.nontrivial(nt + tri);
        sp.outcomes_n("less", c_l); sp.outcomes_n("equal", c_e); sp.outcomes_n("greater", c_g);
        sp.outcomes_n("pair-nested", c_cov); sp.outcomes_n("pair-disjoint", c_dis); sp.outcomes_n("pair-cross-family", c_x);
        sp.outcomes_n("strict-chains", tri);
    });
    sp.evals((n * n) as u64);
    sp.set("prefixes", json!(n)); sp.set("short_length_bound", json!(short));
    sp.sample_str(|| "a=0.0.0.0/0 b=128.0.0.0/1 : a covers b, so b < a".into());
    sp.sample_str(|| "a=::/127 b=::1/128 : a covers b".into());
    sp.done(true, &format!("all {n}^2 pairs and {n}^3 triples of the domain (all prefixes of length <= {short} in both families + deep lengths)")); lap(&t0, &sp.name);

    // ------------------------------------------------------ 5. maxlen.relations
    let sub_short: u8 = ctx.tier.pick(3, 4);
    let sub: Vec<usize> = (0..n).filter(|&i| dom[i].len <= sub_short || (dom[i].len >= 31 && (dom[i].addr == 0 || dom[i].addr.count_ones() > 20))).collect();
    let mut mls: Vec<(usize, MP, Option<u8>, MaxLenPrefix)> = Vec::new();   // (index into dom, prefix model, max-len, value)
    for &i in &sub {
        let m = dom[i];
        let mut opts = vec![None, Some(m.len), Some(fam_max(m.v4))];
        if m.len < fam_max(m.v4) { opts.push(Some(m.len + 1)) }
        opts.sort(); opts.dedup();
        for o in opts { match guard(|| MaxLenPrefix::new(prefixes[i], o)) {
            Ok(Ok(v)) => mls.push((i, m, o, v)),
            _ => ctx.fail("C13.maxlen.new", format!("prefix={} max_len={o:?}", m.text()), "a valid max-len prefix of the relation domain could not be constructed"),
        }}
    }
    let sp = ctx.space("maxlen.relations",
        "all ordered pairs and triples of max-len prefixes (sub-domain of prefixes x max-len in {None, len, len+1, family max}): cmp antisymmetric, Equal <=> == <=> same (prefix, max-len), == implies equal hash, a value whose prefix is strictly covered sorts first, transitive; non-trivial = pairs with the same prefix and different max-len + strict chains of three different values");
    {
        let n = mls.len();
        let cm: Vec<i8> = (0..n * n).into_par_iter().map(|k| match guard(|| mls[k / n].3.cmp(&mls[k % n].3)) {
            Ok(Ordering::Less) => -1, Ok(Ordering::Equal) => 0, Ok(Ordering::Greater) => 1, Err(_) => 2 }).collect();
        let hs: Vec<H3> = mls.iter().map(|x| guard(|| h(&x.3)).unwrap_or((0, 0, 0))).collect();
        batched(&ctx, n, 4096, |i, fl| {
            let (_, ma, oa, va) = mls[i];
            let (mut c_l, mut c_e, mut c_g, mut nt, mut tri) = (0u64, 0u64, 0u64, 0u64, 0u64);
            for j in 0..n {
                let (_, mb, ob, vb) = mls[j];
                let wit = || format!("a={}{} b={}{}", ma.text(), oa.map(|x| format!("-{x}")).unwrap_or_default(), mb.text(), ob.map(|x| format!("-{x}")).unwrap_or_default());
                let (c, cr) = (cm[i * n + j], cm[j * n + i]);
                if c == 2 { fl.fail("C13.maxlen.cmp.nopanic", &wit, || "cmp panicked".into()); continue }
                if cr == 2 { continue }
                let eq = match guard(|| va == vb) { Ok(e) => e, Err(p) => { fl.fail("C13.maxlen.cmp.nopanic", &wit, || p); continue } };
                if c != -cr { fl.fail("C13.maxlen.cmp.antisymmetric", &wit, || format!("cmp(a,b) = {c}, cmp(b,a) = {cr}")) }
                if (c == 0) != eq || eq != (ma == mb && oa == ob) { fl.fail("C13.maxlen.cmp.eq", &wit, || format!("cmp = {c}, == is {eq}, same value: {}", ma == mb && oa == ob)) }
                if eq && hs[i] != hs[j] { fl.fail("C13.maxlen.eq.hash", &wit, || format!("equal values {}", hash_diff(hs[i], hs[j]))) }
                fl.check("C13.maxlen.cmp.operators", &wit, || ops_vs_cmp(&va, &vb, c));
                if ma.covers(mb) && ma != mb && cr != -1 { fl.fail("C13.maxlen.cmp.specific_first", &wit, || format!("prefix of a covers prefix of b, yet cmp(b,a) = {cr}")) }
                match c { -1 => c_l += 1, 0 => c_e += 1, _ => c_g += 1 }
                if ma == mb && oa != ob { nt += 1 }
                if c > 0 { continue }
                for k in 0..n {
                    let bc = cm[j * n + k]; if bc > 0 { continue }
                    let ac = cm[i * n + k];
                    if bc == 2 || ac == 2 { continue }
                    let strict = c < 0 || bc < 0;
                    if (strict && ac != -1) || (!strict && ac != 0) {
                        fl.fail("C13.maxlen.cmp.transitive", &|| format!("{} c={}{}", wit(), mls[k].1.text(), mls[k].2.map(|x| format!("-{x}")).unwrap_or_default()), || format!("cmp(a,b) = {c}, cmp(b,c) = {bc}, but cmp(a,c) = {ac}"));
                    }
                    if c < 0 && bc < 0 { tri += 1 }
                }
            }
            sp.evals(n as u64 + (n * n) as u64); sp.nontrivial(nt + tri);
            sp.outcomes_n("less", c_l); sp.outcomes_n("equal", c_e); sp.outcomes_n("greater", c_g); sp.outcomes_n("strict-chains", tri);
        });
        sp.evals((n * n) as u64);
        sp.set("values", json!(n));
        sp.sample_str(|| "a=0.0.0.0/0-0 b=0.0.0.0/0 : different values (max-len Some(0) vs None), a < b".into());
        sp.done(true, &format!("all {n}^2 pairs and {n}^3 triples")); lap(&t0, &sp.name);
    }

    // ------------------------------------------------------ 6. origin.relations
    let asns: Vec<u32> = if thorough { vec![0, 1, 65535, 65536, u32::MAX - 1, u32::MAX] } else { vec![0, 1, 65536, u32::MAX] };
    let mut ros: Vec<(usize, u8, u32, RouteOrigin)> = Vec::new();   // (index into mls, resolved max len, asn, value)
    for (k, (_, m, o, v)) in mls.iter().enumerate() { for &a in &asns { ros.push((k, o.unwrap_or(m.len), a, RouteOrigin::new(*v, Asn::from_u32(a)))) } }
    let sp = ctx.space("origin.relations",
        "all ordered pairs and triples of route origins (every max-len prefix of the previous space x boundary ASNs): == <=> same (prefix, effective max-len, ASN); cmp is the lexicographic order of (Prefix::cmp, effective max-len, ASN), Equal <=> ==, == implies equal hash, antisymmetric, transitive; is_v4 and the Payload / PayloadRef wrappers (origin, From, payload_type, to_origin, as_ref; their cmp / == / hash) agree with the origin inside; non-trivial = pairs of different constructions (None vs Some(len)) that are equal + pairs differing only in max-len or only in ASN + strict chains");
    {
        let n = ros.len();
        let cm: Vec<i8> = (0..n * n).into_par_iter().map(|k| match guard(|| ros[k / n].3.cmp(&ros[k % n].3)) {
            Ok(Ordering::Less) => -1, Ok(Ordering::Equal) => 0, Ok(Ordering::Greater) => 1, Err(_) => 2 }).collect();
        let hs: Vec<H3> = ros.iter().map(|x| guard(|| h(&x.3)).unwrap_or((0, 0, 0))).collect();
        let show = |r: &(usize, u8, u32, RouteOrigin)| { let (_, m, o, _) = mls[r.0]; format!("{}{} AS{}", m.text(), o.map(|x| format!("-{x}")).unwrap_or_default(), r.2) };
        batched(&ctx, n, 2048, |i, fl| {
            let ra = &ros[i]; let ma = mls[ra.0].1;
            let (mut c_l, mut c_e, mut c_g, mut nt, mut tri, mut c_alias) = (0u64, 0u64, 0u64, 0u64, 0u64, 0u64);
            let pa = Payload::from(ra.3);
            fl.check("C13.origin.accessors", &|| format!("a=[{}]", show(ra)), || {
                if ra.3.is_v4() != ma.v4 || ra.3.is_v4() != ra.3.prefix.prefix().is_v4() { return Err(format!("is_v4() = {}", ra.3.is_v4())) }
                let built = Payload::origin(mls[ra.0].3, Asn::from_u32(ra.2));
                if built != pa || pa.payload_type() != PayloadType::Origin || built.payload_type() != PayloadType::Origin { return Err("Payload::origin / From<RouteOrigin> / payload_type".into()) }
                match pa.to_origin() { Some(o) if o.prefix == mls[ra.0].3 && o.asn == Asn::from_u32(ra.2) && o == ra.3 => {}, other => return Err(format!("to_origin() = {other:?}")) }
                if pa.as_router_key().is_some() || pa.as_aspa().is_some() { return Err("an origin payload claims to be a router key / ASPA".into()) }
                if pa.as_ref() != PayloadRef::Origin(ra.3) || PayloadRef::from(ra.3) != pa.as_ref() || PayloadRef::from(&ra.3) != pa.as_ref() { return Err("as_ref() / PayloadRef::from".into()) }
                Ok(())
            });
            for j in 0..n {
                let rb = &ros[j]; let mb = mls[rb.0].1;
                let wit = || format!("a=[{}] b=[{}]", show(ra), show(rb));
                let (c, cr) = (cm[i * n + j], cm[j * n + i]);
                if c == 2 { fl.fail("C13.origin.cmp.nopanic", &wit, || "cmp panicked".into()); continue }
                if cr == 2 { continue }
                let eq = match guard(|| (ra.3 == rb.3, ra.3.partial_cmp(&rb.3))) { Ok((e, pc)) => { if pc.map(|x| x as i8) != Some(c) { fl.fail("C13.origin.cmp.antisymmetric", &wit, || "partial_cmp differs from cmp".into()) } e }
                    Err(p) => { fl.fail("C13.origin.cmp.nopanic", &wit, || p); continue } };
                let same_key = ma == mb && ra.1 == rb.1 && ra.2 == rb.2;
                if eq != same_key { fl.fail("C13.origin.eq.key", &wit, || format!("== is {eq}; same (prefix, effective max-len, ASN): {same_key}")) }
                if (c == 0) != eq { fl.fail("C13.origin.cmp.eq", &wit, || format!("cmp = {c}, == is {eq}")) }
                if eq && hs[i] != hs[j] { fl.fail("C13.origin.eq.hash", &wit, || format!("equal route origins {}", hash_diff(hs[i], hs[j]))) }
                fl.check("C13.origin.cmp.operators", &wit, || ops_vs_cmp(&ra.3, &rb.3, c));
                if c != -cr { fl.fail("C13.origin.cmp.antisymmetric", &wit, || format!("cmp(a,b) = {c}, cmp(b,a) = {cr}")) }
                // lexicographic key: prefix (by the prefix's own order), effective max-len, ASN
                let (pi, pj) = (mls[ra.0].0, mls[rb.0].0);
                let want = match cmpm[pi * dom.len() + pj] { 0 => match ra.1.cmp(&rb.1) { Ordering::Equal => ra.2.cmp(&rb.2) as i8, o => o as i8 }, o => o };
                if want != 2 && c != want { fl.fail("C13.origin.cmp.key", &wit, || format!("cmp = {c}, lexicographic (prefix, effective max-len, ASN) gives {want}")) }
                // the payload wrappers order, compare and hash exactly like the origins inside
                fl.check("C13.origin.payload", &wit, || {
                    let pb = Payload::from(rb.3);
                    if (pa.cmp(&pb) as i8) != c || pa.partial_cmp(&pb).map(|x| x as i8) != Some(c) || (pa.as_ref().cmp(&pb.as_ref()) as i8) != c { return Err(format!("Payload / PayloadRef cmp differs from RouteOrigin cmp {c}")) }
                    if (pa == pb) != eq || (pa.as_ref() == pb.as_ref()) != eq { return Err(format!("Payload / PayloadRef == differs from RouteOrigin == ({eq})")) }
                    if eq && (h(&pa) != h(&pb) || h(&pa.as_ref()) != h(&pb.as_ref())) { return Err(format!("equal payloads {}", hash_diff(h(&pa), h(&pb)))) }
                    ops_vs_cmp(&pa, &pb, c).map_err(|e| format!("Payload: {e}"))?;
                    ops_vs_cmp(&pa.as_ref(), &pb.as_ref(), c).map_err(|e| format!("PayloadRef: {e}"))?;
                    Ok(())
                });
                match c { -1 => c_l += 1, 0 => c_e += 1, _ => c_g += 1 }
                if i != j && eq { c_alias += 1; nt += 1 }
                if ma == mb && !eq && (ra.1 == rb.1 || ra.2 == rb.2) { nt += 1 }
                if c > 0 { continue }
                for k in 0..n {
                    let bc = cm[j * n + k]; if bc > 0 { continue }
                    let ac = cm[i * n + k];
                    if bc == 2 || ac == 2 { continue }
                    let strict = c < 0 || bc < 0;
                    if (strict && ac != -1) || (!strict && ac != 0) {
                        fl.fail("C13.origin.cmp.transitive", &|| format!("{} c=[{}]", wit(), show(&ros[k])), || format!("cmp(a,b) = {c}, cmp(b,c) = {bc}, but cmp(a,c) = {ac}"));
                    }
                    if c < 0 && bc < 0 { tri += 1 }
                }
            }
            sp.evals(n as u64 + (n * n) as u64); sp.nontrivial(nt + tri);
            sp.outcomes_n("less", c_l); sp.outcomes_n("equal", c_e); sp.outcomes_n("greater", c_g);
            sp.outcomes_n("equal-different-construction", c_alias); sp.outcomes_n("strict-chains", tri);
        });
        sp.evals((n * n) as u64);
        sp.set("values", json!(n)); sp.set("asns", json!(asns));
        sp.sample_str(|| "a=[0.0.0.0/0 AS1] b=[0.0.0.0/0-0 AS1] : equal (effective max-len 0 both)".into());
        sp.done(true, &format!("all {n}^2 pairs and {n}^3 triples")); lap(&t0, &sp.name);
    }

    // ------------------------------------------------------------- 7. asn.text
    let sp = ctx.space("asn.text",
        "Display -> FromStr and every serde spelling (serialize_as_u32 / as_bare_str / as_str, deserialize_from_u32 / from_str / from_any, derived impls; through serde_json text and serde_json::Value) for ASNs: every value below 2^20, every value within 4096 of a power of two or of u32::MAX, and every 65537th value of the whole range; spellings AS<n>, as<n>, <n>; non-trivial = every value (each is distinct)");
    {
        let mut vals: BTreeSet<u32> = (0..(1u32 << 20)).collect();
        for b in 0..32u32 { let c = 1u64 << b; for d in 0..4096u64 { for x in [c + d, c.saturating_sub(d)] { if x <= u32::MAX as u64 { vals.insert(x as u32); } } } }
        for d in 0..4096u32 { vals.insert(u32::MAX - d); }
        let mut x = 0u64; while x <= u32::MAX as u64 { vals.insert(x as u32); x += 65537 }
        let vals: Vec<u32> = vals.into_iter().collect();
        let bad: Vec<Option<(u32, String)>> = vals.par_chunks(4096).map(|c| {
            for &v in c {
                let a = Asn::from_u32(v);
                let t = a.to_string();
                if t != format!("AS{v}") { return Some((v, format!("Display gives {t:?}"))) }
                for text in [t.clone(), format!("as{v}"), format!("{v}")] {
                    match Asn::from_str(&text) { Ok(b) if b == a && b.into_u32() == v => {}, other => return Some((v, format!("{text:?} parses to {other:?}"))) }
                }
                if u32::from(Asn::from(v)) != v || a.to_raw() != v.to_be_bytes() { return Some((v, "u32 conversions".into())) }
                match guard(|| asn_serde_sweep(a)) { Ok(Ok(())) => {}, Ok(Err(e)) | Err(e) => return Some((v, format!("serde spelling: {e}"))) }
            }
            None
        }).collect();
        for b in bad.into_iter().flatten() { ctx.fail(if b.1.starts_with("serde") { "C13.asn.serde.roundtrip" } else { "C13.asn.text.roundtrip" }, format!("asn={}", b.0), b.1) }
        sp.evals(vals.len() as u64 * (3 + 16)); sp.nontrivial(vals.len() as u64);
        // all pairs of boundary ASNs: order, operators, equality and the three hashers follow the number
        {
            let mut b: Vec<u32> = vec![0, 1, 2, 255, 256, 65535, 65536, u32::MAX - 1, u32::MAX];
            for k in 1..32 { let p = 1u32 << k; b.extend([p - 1, p, p + 1]) }
            b.sort(); b.dedup();
            for &x in &b { for &y in &b {
                sp.eval();
                let (ax, ay) = (Asn::from_u32(x), Asn::from_u32(y));
                ctx.check("C13.asn.cmp", || format!("a=AS{x} b=AS{y}"), || {
                    let c = ax.cmp(&ay) as i8;
                    if c != x.cmp(&y) as i8 { return Err(format!("cmp = {c}")) }
                    ops_vs_cmp(&ax, &ay, c)?;
                    if (ax == ay) != (x == y) { return Err("== differs from the numbers".into()) }
                    if x == y && h(&ax) != h(&ay) { return Err(format!("equal ASNs {}", hash_diff(h(&ax), h(&ay)))) }
                    Ok(())
                });
            }}
            sp.outcomes_n("asn-pairs", (b.len() * b.len()) as u64);
        }
        // JSON literals: deserialize_from_any must agree with deserialize_from_u32 on numbers and with
        // deserialize_from_str / FromStr on strings
        for lit in ["0", "1", "-0", "-1", "255", "256", "-128", "32768", "65536", "2147483648", "4294967295", "4294967296", "18446744073709551615",
                    "18446744073709551616", "-9223372036854775808", "-2147483649", "1.0", "1e3", "null", "true", "[1]", "{}", "\"\"", "\"AS\"", "\"AS1\"", "\"as1\"", "\"1\"", "\"+1\"", "\"AS 1\"", "\"AS4294967296\""] {
            sp.eval();
            let any = guard(|| asn_from_json(lit, 2)); let num = guard(|| asn_from_json(lit, 0)); let st = guard(|| asn_from_json(lit, 1));
            let (Ok(any), Ok(num), Ok(st)) = (any, num, st) else { ctx.fail("C13.asn.serde.any", format!("json={lit}"), "a deserialize_from_* helper panicked"); continue };
            let sibling = if lit.starts_with('"') { st } else { num };
            if any != sibling { ctx.fail("C13.asn.serde.any", format!("json={lit}"), format!("deserialize_from_any gives {any:?}, the typed helper gives {sibling:?}")) }
            if lit.starts_with('"') { let inner = &lit[1..lit.len() - 1]; if st != Asn::from_str(inner).ok() { ctx.fail("C13.asn.serde.fromstr", format!("json={lit}"), format!("deserialize_from_str gives {st:?}, FromStr gives {:?}", Asn::from_str(inner).ok())) } }
            sp.outcome(if any.is_some() { "json-literal-accepted" } else { "json-literal-rejected" });
        }
        sp.outcomes_n("round-tripped", vals.len() as u64);
        // texts without a u32 reading (counted; the property does not speak about them
        // unless a value comes out that contradicts the digits)
        for t in ["AS4294967296", "4294967296", "AS", "", "AS-1", "ASN1", "A1"] {
            sp.eval();
            match Asn::from_str(t) {
                Err(_) => sp.outcome("rejected"),
                Ok(a) => {
                    sp.outcome("accepted-without-u32-reading");
                    let digits = t.trim_start_matches(|c: char| c.is_ascii_alphabetic());
                    if let Some(x) = lenient_uint(digits, u64::MAX / 16) { if x != a.into_u32() as u64 {
                        ctx.fail("C13.asn.fromstr.value", format!("text={t:?}"), format!("parsed as {a} but the text reads {x}")) } }
                }
            }
        }
        sp.sample_str(|| "AS4294967295 -> Asn(4294967295) -> \"AS4294967295\"".into());
        sp.done(true, &format!("{} values x (3 text spellings + 16 serde conversions) + 30 JSON literals", vals.len())); lap(&t0, &sp.name);
    }

    // -------------------------------------------------------------- 7b. asn.der
    let sp = ctx.space("asn.der",
        "DER INTEGER readers of Asn (take_from, take_opt_from, skip_in, parse_content, skip_content) on every INTEGER content of 0..=2 octets, every content of 3..=6 octets over {00,01,7f,80,ff}, the same under 4 other tags (contents <= 1 octet) and with a length octet one too large: the five readers must agree on accept / reject and on the value, and an accepted value must re-encode (Asn::encode) to the octets it was read from; non-trivial = inputs accepted by take_from");
    {
        use bcder::decode::Constructed; use bcder::{Mode, Tag};
        let mut inputs: Vec<Vec<u8>> = Vec::new();
        let tlv = |tag: u8, c: &[u8]| { let mut v = vec![tag, c.len() as u8]; v.extend_from_slice(c); v };
        inputs.push(tlv(2, &[]));
        for a in 0..=255u8 { inputs.push(tlv(2, &[a])); for b in 0..=255u8 { inputs.push(tlv(2, &[a, b])) } }
        let oct = [0x00u8, 0x01, 0x7f, 0x80, 0xff];
        for len in 3..=6u32 { let mut idx = Vec::new(); for i in 0..5u64.pow(len) { let mut k = i; idx.clear(); for _ in 0..len { idx.push(oct[(k % 5) as usize]); k /= 5 } inputs.push(tlv(2, &idx)) } }
        for tag in [0x03u8, 0x04, 0x0a, 0x22, 0x30] { inputs.push(tlv(tag, &[])); for a in 0..=255u8 { inputs.push(tlv(tag, &[a])) } }
        for a in [0u8, 1, 0x7f, 0x80, 0xff] { inputs.push(vec![2, 2, a]); inputs.push(vec![2, 0x81, 1, a]) }   // (octets after the value are bcder's business at the top level, not offered)
        let res: Vec<(Fails, u64, Oc)> = inputs.par_chunks(2048).map(|chunk| {
            let mut fl = Fails::new(); let mut oc: Oc = BTreeMap::new(); let mut nt = 0u64;
            for b in chunk {
                let wit = || format!("hex={}", rpki_verif::hex(b));
                let obs = guard(|| {
                    let take = Constructed::decode(b.as_slice(), Mode::Der, |c| Asn::take_from(c)).ok();
                    let opt = Constructed::decode(b.as_slice(), Mode::Der, |c| Asn::take_opt_from(c)).ok().flatten();
                    let skip = Constructed::decode(b.as_slice(), Mode::Der, |c| Asn::skip_in(c)).is_ok();
                    let parse = Constructed::decode(b.as_slice(), Mode::Der, |c| c.take_value_if(Tag::INTEGER, |content| Asn::parse_content(content))).ok();
                    let skipc = Constructed::decode(b.as_slice(), Mode::Der, |c| c.take_value_if(Tag::INTEGER, |content| Asn::skip_content(content))).is_ok();
                    let again = take.map(|a| a.encode().to_captured(Mode::Der).as_slice().to_vec());
                    (take, opt, skip, parse, skipc, again)
                });
                match obs {
                    Err(p) => fl.fail("C13.asn.der.readers", &wit, || p),
                    Ok((take, opt, skip, parse, skipc, again)) => {
                        if opt != take || parse != take || skip != take.is_some() || skipc != take.is_some() {
                            fl.fail("C13.asn.der.readers", &wit, || format!("take_from {take:?}, take_opt_from {opt:?}, parse_content {parse:?}, skip_in accepts: {skip}, skip_content accepts: {skipc}"));
                        }
                        if let Some(e) = again { if &e != b { fl.fail("C13.asn.der.readers", &wit, || format!("read as {:?}, which encodes as {}", take, rpki_verif::hex(&e))) } }
                        if take.is_some() { nt += 1; bump(&mut oc, "accepted") } else { bump(&mut oc, "rejected") }
                    }
                }
            }
            (fl, nt, oc)
        }).collect();
        for (fl, nt, oc) in res { fl.flush(&ctx); sp.nontrivial(nt); sp.merge_outcomes(&oc) }
        sp.evals(inputs.len() as u64 * 5);
        sp.sample_str(|| "hex=020500ffffffff : all five readers accept AS4294967295; hex=020100 : AS0; hex=0200, hex=02020001 (non-minimal), hex=0201ff (negative): all reject".into());
        sp.done(true, &format!("{} encodings x 5 readers", inputs.len())); lap(&t0, &sp.name);
    }

    // --------------------------------------------------------- 8. asnset.build
    let d: [u32; 5] = [0, 1, 2, u32::MAX - 1, u32::MAX];
    let probe_items: [u32; 7] = [0, 1, 2, 3, u32::MAX - 2, u32::MAX - 1, u32::MAX];
    let seq_len: u32 = ctx.tier.pick(6, 8);
    let sp = ctx.space("asnset.build",
        "every sequence (with repetitions, any order) of up to the stated length over {0,1,2,MAX-1,MAX} collected into a SmallAsnSet: iteration strictly ascending and equal to the BTreeSet of the items, len, is_empty, contains for 7 probe values, equal to the set built from the sorted distinct items; non-trivial = sequences that are not already strictly ascending (need sorting or de-duplication)");
    {
        let total = seq_count(5, seq_len);
        let chunk = 4096u64;
        batched(&ctx, total.div_ceil(chunk) as usize, 1024, |c, fl| {
            let mut idx = Vec::new(); let (mut nt, mut c_dup, mut c_unsorted, mut c_plain) = (0u64, 0u64, 0u64, 0u64);
            for i in (c as u64 * chunk)..((c as u64 + 1) * chunk).min(total) {
                seq_at(5, seq_len, i, &mut idx);
                let items: Vec<u32> = idx.iter().map(|&k| d[k]).collect();
                let want: BTreeSet<u32> = items.iter().copied().collect();
                let asc = items.windows(2).all(|w| w[0] < w[1]);
                if !asc { nt += 1 }
                if want.len() != items.len() { c_dup += 1 } else if !asc { c_unsorted += 1 } else { c_plain += 1 }
                let wit = || format!("items={items:?}");
                fl.check("C13.asnset.from_iter", &wit, || {
                    let s: SmallAsnSet = items.iter().map(|&x| Asn::from_u32(x)).collect();
                    let got: Vec<u32> = s.iter().map(|a| a.into_u32()).collect();
                    let w: Vec<u32> = want.iter().copied().collect();
                    if got != w { return Err(format!("set iterates as {got:?}, expected {w:?}")) }
                    if (&s).into_iter().map(|a| a.into_u32()).collect::<Vec<_>>() != w { return Err("IntoIterator differs from iter()".into()) }
                    if s.len() != w.len() || s.is_empty() != w.is_empty() { return Err(format!("len() = {}, is_empty() = {}", s.len(), s.is_empty())) }
                    for x in probe_items { if s.contains(Asn::from_u32(x)) != want.contains(&x) { return Err(format!("contains({x}) = {}", s.contains(Asn::from_u32(x)))) } }
                    let canon: SmallAsnSet = w.iter().map(|&x| Asn::from_u32(x)).collect();
                    if s != canon || h(&s) != h(&canon) { return Err("not equal to the set built from the same items sorted and de-duplicated".into()) }
                    Ok(())
                });
            }
            sp.nontrivial(nt); sp.outcomes_n("with-duplicates", c_dup); sp.outcomes_n("unsorted-distinct", c_unsorted); sp.outcomes_n("ascending-distinct", c_plain);
        });
        sp.evals(total);
        sp.sample_str(|| "items=[1, 1] -> must iterate as [1]".into());
        sp.done(true, &format!("all {total} sequences of length <= {seq_len} over 5 values")); lap(&t0, &sp.name);
    }

    // ----------------------------------------------------------- 9. asnset.ops
    let op_len: u32 = ctx.tier.pick(5, 6);
    let sp = ctx.space("asnset.ops",
        "all ordered pairs of sequences (up to the stated length over {0,1,2,MAX-1,MAX}, repetitions allowed) collected into sets: union, intersection, difference, symmetric_difference against BTreeSet; non-trivial = pairs whose item sets overlap without being equal");
    {
        let total = seq_count(5, op_len) as usize;
        let mut idx = Vec::new();
        let seqs: Vec<Vec<u32>> = (0..total as u64).map(|i| { seq_at(5, op_len, i, &mut idx); idx.iter().map(|&k| d[k]).collect() }).collect();
        let sets: Vec<SmallAsnSet> = seqs.iter().map(|v| guard(|| v.iter().map(|&x| Asn::from_u32(x)).collect::<SmallAsnSet>()).unwrap_or_default()).collect();
        let models: Vec<BTreeSet<u32>> = seqs.iter().map(|v| v.iter().copied().collect()).collect();
        // An operand that is not the canonical set of its items is already a
        // violation of C13.asnset.from_iter (space asnset.build); the merge walks
        // are only examined on operands that are sets.
        let canon_ok: Vec<bool> = (0..total).map(|i| guard(|| sets[i].iter().map(|a| a.into_u32()).eq(models[i].iter().copied())).unwrap_or(false)).collect();
        let skipped_operands = canon_ok.iter().filter(|b| !**b).count();
        batched(&ctx, total, 1024, |i, fl| {
            let (mut nt, mut c_over, mut c_dis, mut c_same, mut c_skip) = (0u64, 0u64, 0u64, 0u64, 0u64);
            for j in 0..total {
                if !canon_ok[i] || !canon_ok[j] { c_skip += 1; continue }
                let (a, b) = (&models[i], &models[j]);
                if a == b { c_same += 1 } else if a.is_disjoint(b) { c_dis += 1 } else { c_over += 1; nt += 1 }
                let wit = || format!("left={:?} right={:?}", seqs[i], seqs[j]);
                let run = |name: &'static str, got: Result<Vec<u32>, String>, want: Vec<u32>, fl: &mut Fails| {
                    match got {
                        Err(p) => fl.fail(name, &wit, || p),
                        Ok(g) => if g != want { fl.fail(name, &wit, || format!("gives {g:?}, mathematical result {want:?}")) }
                    }
                };
                let (l, r) = (&sets[i], &sets[j]);
                run("C13.asnset.union", guard(|| l.union(r).map(|x| x.into_u32()).collect()), a.union(b).copied().collect(), fl);
                run("C13.asnset.intersection", guard(|| l.intersection(r).map(|x| x.into_u32()).collect()), a.intersection(b).copied().collect(), fl);
                run("C13.asnset.difference", guard(|| l.difference(r).map(|x| x.into_u32()).collect()), a.difference(b).copied().collect(), fl);
                run("C13.asnset.symmetric_difference", guard(|| l.symmetric_difference(r).map(|x| x.into_u32()).collect()), a.symmetric_difference(b).copied().collect(), fl);
            }
            sp.evals(4 * (total as u64 - c_skip)); sp.nontrivial(nt);
            sp.outcomes_n("overlapping", c_over); sp.outcomes_n("disjoint", c_dis); sp.outcomes_n("equal-sets", c_same);
            sp.outcomes_n("skipped-operand-is-not-a-set", c_skip);
        });
        sp.set("sequences", json!(total));
        sp.sample_str(|| "left=[1, 1] right=[1] : difference must be []".into());
        sp.set("operands_rejected_by_from_iter_oracle", json!(skipped_operands));
        sp.done(skipped_operands == 0, &if skipped_operands == 0 { format!("all {total}^2 ordered pairs of sequences of length <= {op_len} x 4 operations") }
            else { format!("ordered pairs of the {} of {total} sequences (length <= {op_len}) whose collected set is canonical x 4 operations; the others fail C13.asnset.from_iter", total - skipped_operands) });
    }


    // ---------------------------------------------------------- 10. asnset.sizes
    // SIZE dimension: merge walks may switch strategy by size or size ratio.
    let sp = ctx.space("asnset.sizes",
        "structured set families: (a) large sets of 15,16,17,31,32,33,48,64,100 items (arithmetic progressions with step 1 and 3 from 64500, a progression ending at u32::MAX, a progression with one middle item removed) x every small set of 0..=3 items drawn from {below min, min, non-member above min, middle member, middle non-member, max, above max}, both argument orders; (b) every size pair 0..=130 x 0..=8 (thorough: 0..=400 x 0..=24) with the small set taken as the bottom / top / evenly spread members / non-members of the large one, both orders; (c) all pairs of the large sets; (d) sets of 2^k-1, 2^k, 2^k+1 items for k = 8,10,12,14,16 (thorough: also 18, 20) against every small set of <= 3 items drawn from {first, middle, last member, gap before / between / after} and against same-scale variants (equal, without first / last, shifted, one more, every second), both orders; union, intersection, difference, symmetric_difference against BTreeSet, contains for every value in [min-1, max+1] (capped at 400 probes), from_iter from reversed and doubled input; non-trivial = pairs with a non-empty intersection");
    {
        let mk = |v: &BTreeSet<u32>| -> SmallAsnSet { v.iter().map(|&x| Asn::from_u32(x)).collect() };
        let mut pairs: Vec<(BTreeSet<u32>, BTreeSet<u32>)> = Vec::new();
        let mut larges: Vec<BTreeSet<u32>> = Vec::new();
        for &nitems in &[15u32, 16, 17, 31, 32, 33, 48, 64, 100] {
            let fam: Vec<BTreeSet<u32>> = vec![
                (0..nitems).map(|k| 64500 + k).collect(),
                (0..nitems).map(|k| 64500 + 3 * k).collect(),
                (0..nitems).map(|k| u32::MAX - 5 * (nitems - 1 - k)).collect(),
                (0..=nitems).filter(|k| *k != nitems / 2).map(|k| 64500 + 3 * k).collect(),
            ];
            for l in fam {
                let (mn, mx) = (*l.iter().next().unwrap(), *l.iter().next_back().unwrap());
                let mid_member = *l.iter().nth(l.len() / 2).unwrap();
                let mid_non = (mn..mx).find(|x| !l.contains(x) && *x > mid_member);
                let above_min_non = (mn + 1..mx).find(|x| !l.contains(x));
                let mut cands: Vec<u32> = vec![mn, mid_member, mx];
                if mn > 0 { cands.push(mn - 1) }
                if mx < u32::MAX { cands.push(mx + 1) }
                cands.extend(mid_non); cands.extend(above_min_non);
                cands.sort(); cands.dedup();
                for mask in 0u32..(1 << cands.len()) {
                    if mask.count_ones() > 3 { continue }
                    let small: BTreeSet<u32> = cands.iter().enumerate().filter(|(i, _)| mask >> i & 1 == 1).map(|(_, x)| *x).collect();
                    pairs.push((l.clone(), small.clone())); pairs.push((small, l.clone()));
                }
                larges.push(l);
            }
        }
        for a in &larges { for b in &larges { pairs.push((a.clone(), b.clone())) } }
        let (max_m, max_k): (u32, u32) = ctx.tier.pick((130, 8), (400, 24));
        for m in 0..=max_m {
            let large: BTreeSet<u32> = (0..m).map(|k| 1000 + 2 * k).collect();
            for k in 0..=max_k {
                let k = k.min(m);
                let items: Vec<u32> = large.iter().copied().collect();
                let fams: Vec<BTreeSet<u32>> = vec![
                    items.iter().take(k as usize).copied().collect(),
                    items.iter().rev().take(k as usize).copied().collect(),
                    (0..k).map(|i| items[(i as usize * items.len()) / k.max(1) as usize]).collect(),
                    (0..k).map(|i| 1001 + 2 * (i * m / k.max(1))).collect(),
                ];
                for s_ in fams { pairs.push((large.clone(), s_.clone())); pairs.push((s_, large.clone())) }
            }
        }
        let res: Vec<(Fails, u64, u64, Oc)> = pairs.par_iter().map(|(a, b)| {
            let mut fl = Fails::new(); let mut oc: Oc = BTreeMap::new(); let mut ev = 0u64;
            let show = |x: &BTreeSet<u32>| if x.len() <= 6 { format!("{:?}", x.iter().collect::<Vec<_>>()) } else {
                let v: Vec<u32> = x.iter().copied().collect(); let step = v[1] - v[0];
                if v.windows(2).all(|w| w[1] - w[0] == step) { format!("{{{}, {}, .. {} ({} items, step {step})}}", v[0], v[1], v[v.len() - 1], v.len()) } else { format!("{v:?}") } };
            let wit = || format!("left={} right={}", show(a), show(b));
            let (l, r) = match guard(|| (mk(a), mk(b))) { Ok(x) => x, Err(p) => { fl.fail("C13.asnset.from_iter", &wit, || p); return (fl, 0, 0, oc) } };
            for (name, set, model) in [("left", &l, a), ("right", &r, b)] {
                ev += 1;
                fl.check("C13.asnset.from_iter", &wit, || {
                    let want: Vec<u32> = model.iter().copied().collect();
                    if set.iter().map(|x| x.into_u32()).collect::<Vec<_>>() != want || set.len() != want.len() { return Err(format!("{name} operand does not iterate as its items")) }
                    let doubled: SmallAsnSet = want.iter().rev().chain(want.iter()).map(|&x| Asn::from_u32(x)).collect();
                    if doubled != *set { return Err(format!("{name} operand built from reversed + repeated input differs")) }
                    if let (Some(&mn), Some(&mx)) = (model.iter().next(), model.iter().next_back()) {
                        let lo = mn.saturating_sub(1); let hi = mx.saturating_add(1).min(lo.saturating_add(400));
                        for x in (lo..=hi).chain([mx, mx.saturating_add(1)]) { if set.contains(Asn::from_u32(x)) != model.contains(&x) { return Err(format!("{name}.contains({x}) = {}", set.contains(Asn::from_u32(x)))) } }
                    } else if set.contains(Asn::from_u32(0)) || !set.is_empty() { return Err("empty set contains something".into()) }
                    Ok(())
                });
            }
            let run = |name: &'static str, got: Result<Vec<u32>, String>, want: Vec<u32>, fl: &mut Fails| {
                match got {
                    Err(p) => fl.fail(name, &wit, || p),
                    Ok(g) => if g != want { fl.fail(name, &wit, || format!("gives {g:?}, mathematical result {want:?}")) }
                }
            };
            run("C13.asnset.union", guard(|| l.union(&r).map(|x| x.into_u32()).collect()), a.union(b).copied().collect(), &mut fl);
            run("C13.asnset.intersection", guard(|| l.intersection(&r).map(|x| x.into_u32()).collect()), a.intersection(b).copied().collect(), &mut fl);
            run("C13.asnset.difference", guard(|| l.difference(&r).map(|x| x.into_u32()).collect()), a.difference(b).copied().collect(), &mut fl);
            run("C13.asnset.symmetric_difference", guard(|| l.symmetric_difference(&r).map(|x| x.into_u32()).collect()), a.symmetric_difference(b).copied().collect(), &mut fl);
            ev += 4;
            let inter = a.intersection(b).count();
            let ratio = a.len().max(b.len()) >= 16 * a.len().min(b.len()).max(1);
            bump(&mut oc, if inter == 0 { "disjoint" } else if a.iter().next_back() == b.iter().next_back() { "sharing-the-maximum" } else { "overlapping" });
            if ratio { bump(&mut oc, "size-ratio-at-least-16") }
            (fl, ev, (inter > 0) as u64, oc)
        }).collect();
        for (fl, ev, nt, oc) in res { fl.flush(&ctx); sp.evals(ev); sp.nontrivial(nt); sp.merge_outcomes(&oc) }
        // (d) SCALE: set sizes through the neighbourhoods of the powers of two. Sets of 2^k-1, 2^k, 2^k+1 items
        // (every 7th member of a step-2 progression missing), built once from reversed + repeated input.
        struct Big { label: String, model: BTreeSet<u32>, set: SmallAsnSet }
        let pows: Vec<u32> = ctx.tier.pick(vec![8, 10, 12, 14, 16], vec![8, 10, 12, 14, 16, 18, 20]);
        let mut bigs: Vec<std::sync::Arc<Big>> = Vec::new();
        let mut big_pairs: Vec<(std::sync::Arc<Big>, std::sync::Arc<Big>)> = Vec::new();
        let mkbig = |label: String, model: BTreeSet<u32>| -> Option<std::sync::Arc<Big>> {
            let items: Vec<u32> = model.iter().copied().collect();
            sp.eval();
            match guard(|| items.iter().rev().chain(items.iter()).map(|&x| Asn::from_u32(x)).collect::<SmallAsnSet>()) {
                Err(p) => { ctx.fail("C13.asnset.from_iter", format!("items={label} reversed then repeated"), p); None }
                Ok(set) => {
                    let ok = guard(|| set.len() == items.len() && set.iter().map(|a| a.into_u32()).eq(items.iter().copied())).unwrap_or(false);
                    if !ok { ctx.fail("C13.asnset.from_iter", format!("items={label} reversed then repeated"), format!("the set has {} items and does not iterate as the {} distinct items in ascending order", set.len(), items.len())); return None }
                    Some(std::sync::Arc::new(Big { label, model, set }))
                }
            }
        };
        for &k in &pows { for n in [(1u32 << k) - 1, 1 << k, (1 << k) + 1] {
            let members = |n: u32| (0u32..).filter(|i| i % 7 != 6).take(n as usize).map(|i| 1000 + 2 * i);
            let model: BTreeSet<u32> = members(n).collect();
            let (first, last) = (1000u32, *model.iter().next_back().unwrap());
            let mid = *model.iter().nth(model.len() / 2).unwrap();
            let Some(l) = mkbig(format!("P({n})"), model.clone()) else { continue };
            // small operands: first / middle / last member and the gaps before, between, after
            let cands = [first - 1, first, 1012, mid, mid + 1, last, last + 1];
            for mask in 0u32..(1 << cands.len()) {
                if mask.count_ones() > 3 { continue }
                let small: BTreeSet<u32> = cands.iter().enumerate().filter(|(i, _)| mask >> i & 1 == 1).map(|(_, x)| *x).collect();
                let lbl = format!("{:?}", small.iter().collect::<Vec<_>>());
                if let Some(s_) = mkbig(lbl, small) { big_pairs.push((l.clone(), s_.clone())); big_pairs.push((s_, l.clone())) }
            }
            // operands of the same scale
            let mut others: Vec<(String, BTreeSet<u32>)> = vec![
                (format!("P({n}) again"), model.clone()),
                (format!("P({n}) without its last item"), model.iter().copied().filter(|x| *x != last).collect()),
                (format!("P({n}) without its first item"), model.iter().copied().filter(|x| *x != first).collect()),
                (format!("P({n}) with every item + 1"), model.iter().map(|x| x + 1).collect()),
                (format!("P({n}) and {}", last + 2), model.iter().copied().chain([last + 2]).collect()),
                (format!("every second item of P({n})"), model.iter().copied().step_by(2).collect()),
            ];
            for (lbl, m) in others.drain(..) { if let Some(o) = mkbig(lbl, m) { big_pairs.push((l.clone(), o.clone())); big_pairs.push((o, l.clone())) } }
            bigs.push(l);
        }}
        let first_diff = |g: &[u32], w: &[u32]| -> String {
            let i = g.iter().zip(w).position(|(x, y)| x != y).unwrap_or(g.len().min(w.len()));
            format!("{} items instead of {}; first difference at position {i}: {:?} instead of {:?}", g.len(), w.len(), g.get(i), w.get(i))
        };
        let res: Vec<(Fails, u64, Oc)> = big_pairs.par_iter().map(|(a, b)| {
            let mut fl = Fails::new(); let mut oc: Oc = BTreeMap::new();
            let wit = || format!("left={} right={}   [P(n) = the first n of 1000, 1002, 1004, … with every 7th one left out]", a.label, b.label);
            let mut run = |name: &'static str, got: Result<Vec<u32>, String>, want: Vec<u32>| {
                match got {
                    Err(p) => fl.fail(name, &wit, || p),
                    Ok(g) => if g != want { fl.fail(name, &wit, || first_diff(&g, &want)) }
                }
            };
            run("C13.asnset.union", guard(|| a.set.union(&b.set).map(|x| x.into_u32()).collect()), a.model.union(&b.model).copied().collect());
            run("C13.asnset.intersection", guard(|| a.set.intersection(&b.set).map(|x| x.into_u32()).collect()), a.model.intersection(&b.model).copied().collect());
            run("C13.asnset.difference", guard(|| a.set.difference(&b.set).map(|x| x.into_u32()).collect()), a.model.difference(&b.model).copied().collect());
            run("C13.asnset.symmetric_difference", guard(|| a.set.symmetric_difference(&b.set).map(|x| x.into_u32()).collect()), a.model.symmetric_difference(&b.model).copied().collect());
            // contains: every item of the other operand and its neighbours, against the model
            let probes: Vec<u32> = b.model.iter().take(50).chain(b.model.iter().rev().take(50)).flat_map(|x| [x.wrapping_sub(1), *x, x.wrapping_add(1)]).collect();
            match guard(|| probes.iter().find(|x| a.set.contains(Asn::from_u32(**x)) != a.model.contains(x)).copied()) {
                Err(p) => fl.fail("C13.asnset.contains", &wit, || p),
                Ok(Some(x)) => fl.fail("C13.asnset.contains", &wit, || format!("left.contains({x}) is wrong")),
                Ok(None) => {}
            }
            bump(&mut oc, if a.model.is_disjoint(&b.model) { "large-scale-disjoint" } else { "large-scale-overlapping" });
            (fl, 5, oc)
        }).collect();
        for (fl, ev, oc) in res { fl.flush(&ctx); sp.evals(ev); sp.nontrivial(1); sp.merge_outcomes(&oc) }
        sp.set("scale_set_sizes", json!(bigs.iter().map(|b| b.model.len()).collect::<Vec<_>>())); sp.set("scale_pairs", json!(big_pairs.len()));
        sp.set("pairs", json!(pairs.len())); sp.set("large_set_sizes", json!([15, 16, 17, 31, 32, 33, 48, 64, 100]));
        sp.sample_str(|| "left={64500, 64503, .. 64545 (16 items, step 3)} right=[64545] : intersection must be [64545]".into());
        sp.done(true, &format!("{} structured pairs (36 large sets x all small sets of <= 3 boundary items x both orders; all pairs of large sets; sizes 0..={max_m} x 0..={max_k} x 4 placements x both orders) x 4 operations + contains + from_iter", pairs.len()));
        lap(&t0, &sp.name);
    }
    arbitrary_space(&ctx, &t0);
    routes_spaces(&ctx, &t0);
    arbitrary_routes_space(&ctx, &t0);
    history_spaces(&ctx, &t0);
    let suppressed = SUPPRESSED.load(AtomicOrdering::Relaxed);
    if suppressed > 0 {
        sp.set("failing_cases_counted_but_not_listed_individually", json!(suppressed));
        println!("note: {suppressed} further failing cases (beyond {ROW_CAP} per oracle and work item) were found but not listed individually");
    }
    ctx.finish();
}
